"""Deterministic probe for property C12 (dependency URLs and copied files agree)."""

import hashlib
import html
import os
import re
import sys
import tempfile
import urllib.parse
from pathlib import Path

import htmltools
from htmltools import HTMLDependency, HTMLDocument, HTMLTextDocument, TagList, div, tags

ROOT = os.path.realpath(tempfile.mkdtemp(prefix="c12probe"))
CWD0 = os.getcwd()


def scrub(s):
    return str(s).replace(ROOT, "<ROOT>").replace(CWD0, "<CWD>")


def show(label, fn):
    try:
        r = fn()
        print(label, "->", scrub(repr(r)))
    except BaseException as e:  # noqa: BLE001
        print(label, "-> EXC", type(e).__name__, scrub(e))


def write(p, data):
    p = Path(p)
    p.parent.mkdir(parents=True, exist_ok=True)
    p.write_bytes(data)


def tree(d):
    out = []
    d = Path(d)
    if not d.exists():
        return "<missing>"
    for p in sorted(d.rglob("*")):
        rel = p.relative_to(d).as_posix()
        if p.is_dir():
            out.append(rel + "/")
        else:
            out.append(rel + ":" + repr(p.read_bytes()))
    return out


# ----------------------------------------------------------------------------
# Source directories
# ----------------------------------------------------------------------------
SRC = os.path.join(ROOT, "src")
write(os.path.join(SRC, "a.js"), b"alert(1)\n")
write(os.path.join(SRC, "css", "a b.css"), b"body{}\r\n")
write(os.path.join(SRC, "css", "deep", "x.css"), b"\x00\xff")
write(os.path.join(SRC, "we ird%20#?.js"), b"weird")
write(os.path.join(SRC, "été.js"), "é".encode())
write(os.path.join(SRC, ".hidden"), b"h")
write(os.path.join(SRC, "extra.txt"), b"extra")
os.makedirs(os.path.join(SRC, "emptydir"))
EMPTY = os.path.join(ROOT, "emptysrc")
os.makedirs(EMPTY)


def mk(name="dep", version="1.2.3", **kw):
    return HTMLDependency(name, version, **kw)


DEPS = {
    "local": lambda: mk(
        source={"subdir": SRC},
        script=[{"src": "a.js"}, {"src": "we ird%20#?.js", "defer": ""}],
        stylesheet=[{"href": "css/a b.css"}, {"href": "css/deep/x.css", "rel": "preload", "as": "style"}],
    ),
    "local_pkg_none": lambda: mk(
        source={"package": None, "subdir": SRC}, script={"src": "été.js"}
    ),
    "allfiles": lambda: mk(
        "all", "2", source={"subdir": SRC}, script={"src": "a.js"}, all_files=True
    ),
    "allfiles_missing_listed": lambda: mk(
        "allm", "2", source={"subdir": SRC}, script={"src": "nope.js"}, all_files=True
    ),
    "allfiles_empty": lambda: mk("alle", "0.1", source={"subdir": EMPTY}, all_files=True),
    "allfiles_nodir": lambda: mk(
        "alln", "0.1", source={"subdir": os.path.join(ROOT, "nonexistent")}, all_files=True
    ),
    "dir_listed": lambda: mk("dirl", "1", source={"subdir": SRC}, script={"src": "css"}),
    "nested_only": lambda: mk(
        "nest", "1.0", source={"subdir": SRC}, stylesheet={"href": "css/deep/x.css"}
    ),
    "missing_second": lambda: mk(
        "miss", "1", source={"subdir": SRC}, script=[{"src": "a.js"}, {"src": "gone.js"}]
    ),
    "missing_sheet": lambda: mk(
        "miss2", "1", source={"subdir": SRC}, script=[{"src": "a.js"}],
        stylesheet={"href": "gone.css"},
    ),
    "url": lambda: mk(
        "cdn", "3.0", source={"href": "https://cdn.example.com/x y/"},
        script={"src": "m n.js"}, stylesheet={"href": "s.css"},
    ),
    "url_and_subdir": lambda: mk(
        "both", "3.0", source={"href": "https://h", "subdir": SRC}, script={"src": "a.js"}
    ),
    "nosource": lambda: mk("ns", "1", script={"src": "a.js"}, stylesheet={"href": "q r.css"}),
    "nosource_head": lambda: mk("nsh", "1", head="<meta name='x'>"),
    "pkg": lambda: mk(
        "pk", "1", source={"package": "htmltools", "subdir": "."},
        script={"src": "py.typed"},
    ),
    "pkg_bad": lambda: mk(
        "pkb", "1", source={"package": "no_such_pkg_c12", "subdir": "."}, script={"src": "a"}
    ),
    "empty_items": lambda: mk("emp", "1", source={"subdir": SRC}),
    "abs_item": lambda: mk(
        "absi", "1", source={"subdir": EMPTY}, script={"src": os.path.join(SRC, "a.js")}
    ),
    "dotdot_item": lambda: mk(
        "dd", "1", source={"subdir": os.path.join(SRC, "css")}, script={"src": "../a.js"}
    ),
    "name_slash": lambda: mk("x/y", "1", source={"subdir": SRC}, script={"src": "a.js"}),
    "meta": lambda: mk(
        "mt", "1", meta={"name": "viewport", "content": "w"}, source={"subdir": SRC},
        stylesheet={"href": "css/a b.css", "media": "print"},
    ),
    "dup_item": lambda: mk(
        "dup", "1", source={"subdir": SRC}, script=[{"src": "a.js"}, {"src": "a.js"}]
    ),
}

PREFIXES = ["lib", None, "", "my lib/sub", "/abs", "lib/", "."]


def section(t):
    print("=" * 8, t)


# ----------------------------------------------------------------------------
section("source_path_map / as_dict / as_html_tags")
for k, f in DEPS.items():
    for pre in PREFIXES:
        for iv in (True, False):
            tag = f"{k} prefix={pre!r} iv={iv}"
            show("spm " + tag, lambda: f().source_path_map(lib_prefix=pre, include_version=iv))
            show("dict " + tag, lambda: f().as_dict(lib_prefix=pre, include_version=iv))
            show("tags " + tag, lambda: str(f().as_html_tags(lib_prefix=pre, include_version=iv)))
    show("spm-default " + k, lambda: f().source_path_map())
    show("dict-default " + k, lambda: f().as_dict())
    show("str " + k, lambda: str(f()))


# as_dict must not mutate the dependency and must return fresh copies
def no_mutation():
    d = DEPS["local"]()
    before = repr((d.script, d.stylesheet, d.meta))
    r1 = d.as_dict()
    r2 = d.as_dict(lib_prefix="zzz", include_version=False)
    after = repr((d.script, d.stylesheet, d.meta))
    return (
        before == after,
        r1["script"] is not d.script,
        r1["script"][0] is not d.script[0],
        r1["meta"] is d.meta,
        r1["script"] is not r2["script"],
        [list(x.keys()) for x in r1["script"] + r1["stylesheet"]],
        [type(x).__name__ for x in r1["script"] + r1["stylesheet"]],
    )


show("no_mutation", no_mutation)


# odd item values / mutated attributes
class MyDict(dict):
    pass


def odd_items():
    d = mk("odd", "1", source={"subdir": SRC}, script=MyDict(src="a.js"),
           stylesheet=MyDict(href="css/a b.css", rel="x"))
    r = d.as_dict()
    return r, [type(x).__name__ for x in r["script"] + r["stylesheet"]]


show("odd_items", odd_items)


def bad_value(which, val):
    d = mk("bv", "1", source={"subdir": SRC}, script={"src": "a.js"}, stylesheet={"href": "css/a b.css"})
    getattr(d, which)[0]["src" if which == "script" else "href"] = val
    return d


for which in ("script", "stylesheet"):
    for val in (None, 3, b"a.js", "", "/", "a/", Path("a.js")):
        show(f"bad as_dict {which} {val!r}", lambda: bad_value(which, val).as_dict())
        show(
            f"bad copy_to {which} {val!r}",
            lambda: (
                bad_value(which, val).copy_to(os.path.join(ROOT, "bad", which, repr(val)[:3].strip("'/<"))),
                tree(os.path.join(ROOT, "bad", which)),
            ),
        )

# missing file before a bad-typed one, and the other way round
def mixed(order):
    d = mk("mix", "1", source={"subdir": SRC}, script=[{"src": "a.js"}, {"src": "a.js"}])
    vals = ["gone.js", b"bytes.js"] if order == 0 else [b"bytes.js", "gone.js"]
    d.script[0]["src"], d.script[1]["src"] = vals
    out = os.path.join(ROOT, "mixed", str(order))
    try:
        d.copy_to(out)
    finally:
        print("   tree", tree(out))


show("mixed 0", lambda: mixed(0))
show("mixed 1", lambda: mixed(1))


def mutated_source(src):
    d = mk("ms", "1", script={"src": "a.js"})
    d.source = src
    return d


for src in ({}, {"package": None}, {"package": "htmltools"}, {"subdir": ""}, {"href": ""}, {"href": None}, {"subdir": None}, "str", 5):
    show(f"mutated source {src!r} spm", lambda: mutated_source(src).source_path_map())
    show(f"mutated source {src!r} dict", lambda: mutated_source(src).as_dict())
    show(f"mutated source {src!r} copy", lambda: mutated_source(src).copy_to(os.path.join(ROOT, "mut")))
print("mut tree", tree(os.path.join(ROOT, "mut")))


def odd_name(name, version):
    d = mk("n", "1", source={"subdir": SRC}, script={"src": "a.js"})
    d.name = name
    d.version = version
    return d


for name, version in ((5, "1"), ("n", 7), ("", ""), (None, None), ("a b", "1 2")):
    for iv in (True, False):
        show(f"odd name {name!r} {version!r} iv={iv} spm", lambda: odd_name(name, version).source_path_map(include_version=iv))
        show(f"odd name {name!r} {version!r} iv={iv} dict", lambda: odd_name(name, version).as_dict(include_version=iv))

# relative subdir is resolved against the cwd
os.chdir(ROOT)
show("relative subdir", lambda: mk("rel", "1", source={"subdir": "src/css"}, stylesheet={"href": "a b.css"}).source_path_map())
show("relative subdir copy", lambda: (mk("rel", "1", source={"subdir": "src/css/../css"}, stylesheet={"href": "a b.css"}).copy_to("relout"), tree("relout")))
os.chdir(CWD0)

# ----------------------------------------------------------------------------
section("copy_to")
for k, f in DEPS.items():
    for iv in (True, False):
        out = os.path.join(ROOT, "copy", k.replace("/", "_"), str(iv))
        show(f"copy_to {k} iv={iv}", lambda: f().copy_to(out, include_version=iv))
        print("   tree", scrub(tree(out)))
    out = os.path.join(ROOT, "copy", k.replace("/", "_"), "default")
    show(f"copy_to {k} default", lambda: f().copy_to(out))
    print("   tree", scrub(tree(out)))


# stale content is removed; on failure the target dir is untouched
def stale(k, iv=True):
    out = os.path.join(ROOT, "stale", k)
    d = DEPS[k]()
    target = os.path.join(out, d.source_path_map(lib_prefix=None, include_version=iv)["href"])
    write(os.path.join(target, "old.txt"), b"old")
    write(os.path.join(target, "css", "old.css"), b"old")
    write(os.path.join(out, "sibling.txt"), b"sib")
    try:
        d.copy_to(out, include_version=iv)
    finally:
        print("   tree", scrub(tree(out)))


for k in ("local", "allfiles", "missing_second", "missing_sheet", "url", "nosource", "empty_items", "allfiles_empty", "dir_listed", "allfiles_missing_listed"):
    show("stale " + k, lambda: stale(k))
    show("stale2 " + k, lambda: stale(k, False))


# target is a file / symlink
def target_is_file():
    out = os.path.join(ROOT, "tfile")
    write(os.path.join(out, "dep-1.2.3"), b"iamafile")
    try:
        DEPS["local"]().copy_to(out)
    finally:
        print("   tree", scrub(tree(out)))


show("target_is_file", target_is_file)


def target_is_symlink():
    out = os.path.join(ROOT, "tlink")
    real = os.path.join(ROOT, "tlink_real")
    write(os.path.join(real, "keep.txt"), b"k")
    os.makedirs(out)
    os.symlink(real, os.path.join(out, "dep-1.2.3"))
    try:
        DEPS["local"]().copy_to(out)
    finally:
        print("   tree", scrub(tree(out)), scrub(tree(real)), os.path.islink(os.path.join(out, "dep-1.2.3")))


show("target_is_symlink", target_is_symlink)


# symlinks / broken symlinks inside an all_files source
def symlink_source():
    s = os.path.join(ROOT, "symsrc")
    write(os.path.join(s, "real.js"), b"r")
    os.symlink("real.js", os.path.join(s, "link.js"))
    os.symlink("nowhere", os.path.join(s, "broken.js"))
    out = os.path.join(ROOT, "symout")
    try:
        mk("sym", "1", source={"subdir": s}, all_files=True).copy_to(out)
    finally:
        print("   tree", scrub(tree(out)))


show("symlink_source", symlink_source)


def symlink_source_ok():
    s = os.path.join(ROOT, "symsrc2")
    write(os.path.join(s, "real.js"), b"r")
    write(os.path.join(s, "d", "f"), b"f")
    os.symlink("real.js", os.path.join(s, "link.js"))
    os.symlink("d", os.path.join(s, "dl"))
    out = os.path.join(ROOT, "symout2")
    mk("sym", "1", source={"subdir": s}, all_files=True).copy_to(out)
    return tree(out), sorted(
        p.relative_to(out).as_posix() for p in Path(out).rglob("*") if p.is_symlink()
    )


show("symlink_source_ok", symlink_source_ok)

# positional / keyword calling conventions
show("copy_to positional", lambda: (DEPS["local"]().copy_to(os.path.join(ROOT, "pos"), False), tree(os.path.join(ROOT, "pos"))))
show("copy_to kw", lambda: (DEPS["local"]().copy_to(path=os.path.join(ROOT, "kw"), include_version=True), sorted(os.listdir(os.path.join(ROOT, "kw")))))
show("copy_to bad path", lambda: DEPS["local"]().copy_to(None))
show("copy_to Path path", lambda: (DEPS["nested_only"]().copy_to(Path(ROOT) / "ppath"), tree(Path(ROOT) / "ppath")))
show("spm positional", lambda: DEPS["local"]().source_path_map("lib"))
show("as_dict positional", lambda: DEPS["local"]().as_dict("lib"))

# ----------------------------------------------------------------------------
section("save_html")
URL_RE = re.compile(r'(?:src|href)="([^"]*)"')


def check_saved(file, deps):
    """Resolve each local URL in the written file and compare with the sources."""
    text = Path(file).read_text()
    res = []
    for u in URL_RE.findall(text):
        if re.match(r"^[a-z]+:", u):
            res.append((u, "remote"))
            continue
        p = os.path.join(os.path.dirname(os.path.abspath(file)), urllib.parse.unquote(html.unescape(u)))
        if os.path.isfile(p):
            res.append((u, Path(p).read_bytes()))
        else:
            res.append((u, "dir" if os.path.isdir(p) else "absent"))
    return res


def objs(keys):
    return [DEPS[k]() for k in keys]


GOOD = ["local", "allfiles", "url", "nosource", "meta", "nested_only"]
n = 0
for libdir in ("lib", None, "", "my lib/sub", "lib/", "."):
    for iv in (True, False):
        for kind in ("doc", "tag", "list", "htmltag"):
            n += 1
            outdir = os.path.join(ROOT, "save", str(n))
            os.makedirs(outdir)
            file = os.path.join(outdir, "index.html")

            def run():
                deps = objs(GOOD)
                if kind == "doc":
                    x = HTMLDocument(div("hi", *deps), lang="en")
                    r = x.save_html(file, libdir, iv)
                elif kind == "tag":
                    x = div("hi", tags.span(*deps))
                    r = x.save_html(file, libdir=libdir, include_version=iv)
                elif kind == "htmltag":
                    x = tags.html(tags.head(tags.title("t")), tags.body(*deps))
                    r = x.save_html(file, libdir=libdir, include_version=iv)
                else:
                    x = TagList("hi", deps, div(deps[0]))
                    r = x.save_html(file, libdir=libdir, include_version=iv)
                return (r is file, r, Path(file).read_text(), check_saved(file, deps))

            show(f"save {kind} libdir={libdir!r} iv={iv}", run)
            print("   tree", scrub(tree(outdir)))


# defaults and return value; relative file name
def save_defaults():
    d = os.path.join(ROOT, "savedef")
    os.makedirs(d)
    os.chdir(d)
    try:
        r1 = HTMLDocument(div(DEPS["local"]())).save_html("doc.html")
        r2 = div(DEPS["local"]()).save_html("tag.html")
        r3 = TagList(DEPS["local"]()).save_html("./list.html")
        return r1, r2, r3, tree(d)
    finally:
        os.chdir(CWD0)


show("save_defaults", save_defaults)


# a failing dependency: the file is not written, earlier deps are copied, later are not
def save_failure(kind):
    d = os.path.join(ROOT, "savefail" + kind)
    os.makedirs(d)
    file = os.path.join(d, "out.html")
    write(os.path.join(d, "lib", "miss-1", "stale.txt"), b"stale")
    deps = objs(["local", "missing_second", "nested_only"])
    try:
        if kind == "doc":
            HTMLDocument(*deps).save_html(file)
        elif kind == "tag":
            div(*deps).save_html(file)
        else:
            TagList(*deps).save_html(file)
    finally:
        print("   tree", scrub(tree(d)))


for kind in ("doc", "tag", "list"):
    show("save_failure " + kind, lambda: save_failure(kind))


# overwriting: stale dependency dirs are replaced, unrelated files kept
def save_twice():
    d = os.path.join(ROOT, "savetwice")
    os.makedirs(d)
    file = os.path.join(d, "o.html")
    write(os.path.join(d, "lib", "dep-1.2.3", "stale.js"), b"s")
    write(os.path.join(d, "lib", "other", "keep.js"), b"k")
    div(DEPS["local"]()).save_html(file)
    t1 = tree(d)
    div(DEPS["nested_only"]()).save_html(file)
    return t1, tree(d)


show("save_twice", save_twice)


# version conflict resolution picks the higher version and copies only that one
def save_versions():
    d = os.path.join(ROOT, "savever")
    os.makedirs(d)
    a = mk("v", "1.0", source={"subdir": SRC}, script={"src": "a.js"})
    b = mk("v", "1.10", source={"subdir": SRC}, stylesheet={"href": "css/a b.css"})
    r = TagList(a, b, a).save_html(os.path.join(d, "v.html"))
    return r, Path(r).read_text(), tree(d)


show("save_versions", save_versions)

# bad file arguments
show("save bad file None", lambda: div("x").save_html(None))
show("save bad file int", lambda: div("x").save_html(3))
show("save bad file bytes", lambda: div("x").save_html(b"x.html"))
show("save file Path", lambda: scrub(div(DEPS["nested_only"]()).save_html(Path(ROOT) / "pathfile.html")))
show("save no dir", lambda: div(DEPS["nested_only"]()).save_html(os.path.join(ROOT, "no", "such", "dir", "f.html")))
print("   tree", scrub(tree(os.path.join(ROOT, "no"))))
show("save positional libdir on tag", lambda: div("x").save_html(os.path.join(ROOT, "p.html"), "lib"))
show("save positional libdir on list", lambda: TagList("x").save_html(os.path.join(ROOT, "p.html"), "lib"))
show("save positional libdir on doc", lambda: HTMLDocument("x").save_html(os.path.join(ROOT, "p.html"), "lib", False))

# HTMLTextDocument rendering uses the same URLs
show(
    "textdoc",
    lambda: HTMLTextDocument("<html><head>@@</head></html>", deps=objs(GOOD), deps_replace_pattern="@@").render(
        lib_prefix="L", include_version=False
    ),
)
show("doc render", lambda: HTMLDocument(div(*objs(GOOD))).render(lib_prefix=None, include_version=False))
show("_hoist non-html", lambda: HTMLDocument._hoist_head_content(div(), "lib", True))


# ----------------------------------------------------------------------------
section("all_files listing with unusual source directories")


class RelDep(HTMLDependency):
    """Dependency whose source_path_map returns a caller-chosen (possibly relative) source dir."""

    _src = "."

    def source_path_map(self, *, lib_prefix="lib", include_version=True):
        r = super().source_path_map(lib_prefix=lib_prefix, include_version=include_version)
        return {"source": self._src, "href": r["href"]}


def rel_all(srcdir, cwd):
    os.chdir(cwd)
    try:
        d = RelDep("rd", "1", source={"subdir": SRC}, all_files=True)
        d._src = srcdir
        out = os.path.join(ROOT, "relall", hashlib.md5(repr((scrub(srcdir), scrub(cwd))).encode()).hexdigest()[:8])
        d.copy_to(out)
        return tree(out)
    finally:
        os.chdir(CWD0)


for srcdir, cwd in (
    (".", SRC), ("./", SRC), ("css", SRC), ("css/", SRC), ("./css/deep/..", SRC), ("..", os.path.join(SRC, "css")),
    (SRC + "/", ROOT), (SRC + "//css", ROOT), ("//" + SRC.lstrip("/"), ROOT), (os.path.join(SRC, "a.js"), ROOT),
    (os.path.join(SRC, "nope"), ROOT), ("/", ROOT) if False else ("src/../src", ROOT),
):
    show(f"rel_all {scrub(srcdir)!r} cwd={scrub(cwd)!r}", lambda: rel_all(srcdir, cwd))


def pkg_all():
    # a package-relative source directory with all_files
    d = mk("pka", "1", source={"package": "htmltools", "subdir": "."}, all_files=True)
    out = os.path.join(ROOT, "pkall")
    d.copy_to(out)
    names = sorted(os.listdir(os.path.join(out, "pka-1")))
    return [n for n in names if n != "__pycache__"]


show("pkg_all", pkg_all)


def odd_version_message():
    class V:
        def __str__(self):
            return "strV"

        def __format__(self, spec):
            return "formatV"

        def __repr__(self):
            return "reprV"

    d = mk("ov", "1", source={"subdir": SRC}, script={"src": "gone.js"})
    d.version = V()
    d.copy_to(os.path.join(ROOT, "ov"))


show("odd_version_message", odd_version_message)


def list_like_items():
    d = mk("ll", "1", source={"subdir": SRC}, script={"src": "a.js"}, stylesheet={"href": "css/a b.css"})
    d.script = tuple(d.script)
    d.stylesheet = iter(list(d.stylesheet))
    out = os.path.join(ROOT, "ll")
    d.copy_to(out)
    return tree(out)


show("list_like_items", list_like_items)

import shutil

shutil.rmtree(ROOT, ignore_errors=True)
