"""Deterministic probe of the block-layout code paths (Tag/TagList.get_html_string & co)."""
import itertools

import htmltools
from htmltools import (
    HTML,
    HTMLDependency,
    HTMLDocument,
    Tag,
    TagList,
    a,
    br,
    code,
    div,
    em,
    h1,
    hr,
    img,
    p,
    pre,
    span,
    strong,
    tags,
)
from htmltools import _core


def show(label, fn):
    try:
        res = fn()
        print(label, "->", type(res).__name__, repr(res))
    except BaseException as e:  # noqa: BLE001
        print(label, "-> EXC", type(e).__name__, str(e)[:80])


class Rep:
    """Only has _repr_html_ (ReprHtml branch)."""

    log = []

    def __init__(self, s):
        self.s = s

    def _repr_html_(self):
        Rep.log.append(self.s)
        return self.s


class RepHTML(Rep):
    """_repr_html_ gives back an HTML object rather than a str."""

    def _repr_html_(self):
        Rep.log.append(self.s)
        return HTML(self.s)


class Boom:
    def _repr_html_(self):
        Rep.log.append("boom")
        raise KeyError("boom")


class Lazy:
    """Tagifiable but without _repr_html_."""

    def tagify(self):
        return div("lazy")


dep = HTMLDependency("dep", "1.0", source={"subdir": "."}, script={"src": "x.js"})

trees = {
    "empty_div": lambda: div(),
    "empty_span": lambda: span(),
    "void_br": lambda: br(),
    "void_hr_attrs": lambda: hr(class_="x", data_y="<&>\"'"),
    "void_with_child": lambda: br("x"),
    "void_with_tag": lambda: Tag("img", span()),
    "void_only_dep": lambda: Tag("input", dep),
    "div_only_dep": lambda: div(dep),
    "single_text": lambda: div("a < b & c"),
    "single_empty_text": lambda: div(""),
    "single_html": lambda: div(HTML("<b>x</b>")),
    "single_text_plus_dep": lambda: div(dep, "t<", dep),
    "two_texts": lambda: div("a", "b"),
    "text_html": lambda: div("a<", HTML("<i>")),
    "single_span": lambda: div(span("x")),
    "single_div": lambda: div(div("x")),
    "mixed": lambda: div("a", span("b"), "c", div("d"), "e", em("f"), p("g"), p("h")),
    "nested3": lambda: div(div(div("x", span()), "t"), span("s", strong("u"))),
    "inline_in_inline": lambda: span(span("a"), "b", a("c", href="#")),
    "inline_two_texts": lambda: span("a", "b"),
    "block_addws_false": lambda: div("x", div("y"), span("z"), _add_ws=False),
    "inline_addws_true": lambda: div(span("a", _add_ws=True), span("b"), "c"),
    "pre_code": lambda: pre(code("x\n  y")),
    "script_single": lambda: tags.script("a < b && c"),
    "script_html": lambda: tags.script(HTML("a < b")),
    "script_multi": lambda: tags.script("a < b;", "c > d;", HTML("<e>")),
    "style_multi": lambda: tags.style("a > b {}", span("<"), "x"),
    "script_in_div": lambda: div(tags.script("1<2"), tags.style("a>b{}", "c>d{}")),
    "rep_single": lambda: div(Rep("<r/>")),
    "rep_mixed": lambda: div(Rep("<r1/>"), "t", Rep("<r2/>"), div(), Rep("<r3/>"), span()),
    "rep_in_span": lambda: span(Rep("<r/>"), "x"),
    "rep_html_first": lambda: div(RepHTML("<q>"), "a<b", span("c")),
    "rep_html_later": lambda: div("a<b", div("k"), RepHTML("<q>"), "z>"),
    "rep_in_script": lambda: tags.script("x<y", Rep("<r/>")),
    "deps_between": lambda: div("a", dep, "b", dep, div("c"), dep),
    "dep_first_then_block": lambda: div(dep, div("c"), dep, span("s")),
    "numbers": lambda: div(1, 2.5, None, [3, ["x", None]], ("y",)),
    "attrs_html": lambda: div("a", "b", title=HTML("<&>"), id="i\n\"d"),
    "unicode": lambda: div("é", span("中"), "\n", "\r\n"),
    "ws_text": lambda: div(" ", span(" "), "\t"),
    "taglist_child": lambda: div(TagList("a", span("b")), TagList(), TagList(div())),
    "html_name": lambda: Tag(HTML("x-y"), "a", "b"),
    "custom_tag": lambda: Tag("my-el", Tag("area"), Tag("wbr"), Tag("command"), "t"),
    "upper_void": lambda: Tag("BR"),
    "svg": lambda: htmltools.svg.svg(htmltools.svg.g(htmltools.svg.text("t"), htmltools.svg.a("l"))),
}

lists = {
    "tl_empty": lambda: TagList(),
    "tl_one_text": lambda: TagList("a<"),
    "tl_texts": lambda: TagList("a", "b"),
    "tl_blocks": lambda: TagList(div("a"), div("b")),
    "tl_inline": lambda: TagList(span("a"), span("b"), "c"),
    "tl_mixed": lambda: TagList("a", span("b"), div("c"), "d", em("e"), div(span("f"), "g"), "h"),
    "tl_deps": lambda: TagList(dep, "a", dep, div("b"), dep),
    "tl_only_deps": lambda: TagList(dep, dep),
    "tl_rep": lambda: TagList(Rep("<r1/>"), div(), Rep("<r2/>"), "x", HTML("<h>")),
    "tl_rep_html": lambda: TagList("a<", RepHTML("<q>"), "b>", div("c<")),
    "tl_nested": lambda: TagList(TagList("a", div("b")), [span("c"), [div(div("d"))]]),
}

INDENTS = [0, 1, 3]
EOLS = ["\n", "\r\n", "", "<EOL>"]


def layout_section():
    print("== Tag.get_html_string ==")
    for name, mk in trees.items():
        for ind, eol in itertools.product(INDENTS, EOLS):
            show(f"{name} indent={ind} eol={eol!r}", lambda: mk().get_html_string(ind, eol))
        show(f"{name} default", lambda: mk().get_html_string())
        show(f"{name} kw", lambda: mk().get_html_string(eol="|", indent=2))
        show(f"{name} str", lambda: str(mk()))
        show(f"{name} repr", lambda: repr(mk()))
        show(f"{name} _repr_html_", lambda: mk()._repr_html_())
        show(f"{name} render", lambda: mk().render()["html"])
        show(f"{name} children.ghs", lambda: mk().children.get_html_string(2, "|", add_ws=False))

    print("== TagList.get_html_string ==")
    for name, mk in lists.items():
        for ind, eol, add_ws, esc in itertools.product(INDENTS, EOLS, [True, False], [True, False]):
            show(
                f"{name} indent={ind} eol={eol!r} add_ws={add_ws} esc={esc}",
                lambda: mk().get_html_string(ind, eol, add_ws=add_ws, _escape_strings=esc),
            )
        show(f"{name} default", lambda: mk().get_html_string())
        show(f"{name} str", lambda: str(mk()))
        show(f"{name} repr", lambda: repr(mk()))
        show(f"{name} render", lambda: mk().render()["html"])
    print("rep log size", len(Rep.log))


def error_section():
    print("== errors / odd arguments ==")
    del Rep.log[:]
    show("untagified in div", lambda: div("a", Lazy()).get_html_string())
    show("untagified in list", lambda: TagList(Rep("<r/>"), Lazy(), Rep("<never/>")).get_html_string())
    print("log", Rep.log)
    del Rep.log[:]
    show("untagified str()", lambda: str(div("a", Lazy(), span(Lazy()))))
    show("raising rep", lambda: div(Rep("<1/>"), Boom(), Rep("<2/>")).get_html_string())
    print("log", Rep.log)
    del Rep.log[:]
    show("indent None tag", lambda: div("a", "b").get_html_string(None))
    show("indent None list text", lambda: TagList(Rep("<1/>"), Rep("<2/>")).get_html_string(None))
    print("log", Rep.log)
    del Rep.log[:]
    show("indent None list add_ws False", lambda: TagList(Rep("<1/>"), Rep("<2/>")).get_html_string(None, add_ws=False))
    print("log", Rep.log)
    del Rep.log[:]
    show("indent str", lambda: div("a", div()).get_html_string("x"))
    show("indent float", lambda: div(div()).get_html_string(1.0))
    show("indent negative", lambda: div("a", div("b", div())).get_html_string(-2))
    show("indent True", lambda: div("a", div("b", div())).get_html_string(True))
    show("eol None block", lambda: div("a", "b").get_html_string(0, None))
    show("eol None single", lambda: div("a").get_html_string(0, None))
    show("eol None inline", lambda: span("a", "b").get_html_string(0, None))
    show("eol None list", lambda: TagList(Rep("<1/>"), div(), Rep("<2/>")).get_html_string(0, None))
    print("log", Rep.log)
    del Rep.log[:]
    show("eol HTML", lambda: div("a<", div("b")).get_html_string(1, HTML("<br>")))
    show("eol bytes", lambda: div("a", div()).get_html_string(0, b"\n"))
    show("positional add_ws", lambda: TagList("a").get_html_string(0, "\n", True))
    show("_add_ws 1", lambda: Tag("div", _add_ws=1))
    show("_add_ws None", lambda: Tag("div", _add_ws=None))
    show("_add_ws 'x'", lambda: div(_add_ws="x"))
    show("name None", lambda: Tag(None, "a").get_html_string())
    show("name list", lambda: Tag(["a"]).get_html_string())
    show("name int", lambda: Tag(1).get_html_string())

    # manual mutation after construction
    t = div("a", span("b"))
    t.add_ws = False
    show("mutated add_ws False", lambda: t.get_html_string(1, "|"))
    t.add_ws = 1
    show("mutated add_ws 1", lambda: t.get_html_string(1, "|"))
    s = span("b", "c")
    s.add_ws = "yes"
    show("child add_ws str", lambda: TagList("x", s, "y").get_html_string(1, "|", add_ws=False))
    t2 = div("a")
    t2.children.data.append(5)
    show("raw int child", lambda: t2.get_html_string())
    t3 = div()
    t3.children.data.append(5)
    show("raw single int child", lambda: t3.get_html_string())
    t4 = div("a", "b")
    t4.attrs = {"k": "v<", "h": HTML("<")}
    show("plain dict attrs", lambda: t4.get_html_string())
    t5 = div()
    t5.children = ["a"]
    show("plain list children single", lambda: t5.get_html_string())
    t5.children = []
    show("plain list children empty", lambda: t5.get_html_string())
    t5.children = ["a", "b"]
    show("plain list children two", lambda: t5.get_html_string())


def entry_section():
    print("== entry points ==")
    doc = HTMLDocument(div("a", span("b")), dep, "c", lang="en")
    show("doc render", lambda: doc.render()["html"])
    show("doc html", lambda: HTMLDocument(tags.html(tags.body("x", div()))).render()["html"])
    show("doc body", lambda: HTMLDocument(tags.body(span("x"), "y")).render()["html"])
    show("doc empty", lambda: HTMLDocument().render()["html"])
    old = htmltools.html_dependency_render_mode
    try:
        htmltools.html_dependency_render_mode = "json"
        show("json str tag", lambda: str(div("a", dep, div("b"), dep)))
        show("json str list", lambda: str(TagList(dep, "a", dep)))
        show("json str nodeps", lambda: str(div("a", "b")))
        show("json str two deps", lambda: str(TagList(dep, HTMLDependency("o", "2", source={"subdir": "."}, stylesheet={"href": "s.css"}), span())))
        show("json repr", lambda: repr(div(dep)))
        show("json untagified", lambda: str(div(Lazy())))
    finally:
        htmltools.html_dependency_render_mode = old
    show("mode other", lambda: str(div(dep, "x", "y")))
    show("normalize str", lambda: _core._normalize_text("<a&b>\"'"))
    show("normalize HTML", lambda: _core._normalize_text(HTML("<a&b>")))
    show("normalize empty", lambda: _core._normalize_text(""))
    show("normalize int", lambda: _core._normalize_text(5))
    show("normalize None", lambda: _core._normalize_text(None))
    show("normalize bytes", lambda: _core._normalize_text(b"<"))

    class MyStr(str):
        pass

    show("normalize strsub", lambda: _core._normalize_text(MyStr("<x>")))
    show("void br", lambda: "br" in _core._VOID_TAG_NAMES)
    show("void sorted", lambda: sorted(_core._VOID_TAG_NAMES))
    show("noescape sorted", lambda: sorted(_core._NO_ESCAPE_TAG_NAMES))
    show("void len", lambda: len(_core._VOID_TAG_NAMES))
    show("void unhashable", lambda: ["br"] in _core._VOID_TAG_NAMES)
    show("void set key", lambda: {"br"} in _core._VOID_TAG_NAMES)
    for nm in sorted(_core._VOID_TAG_NAMES) + ["div", "span", "script", "style", "Br", " br", ""]:
        show(f"empty <{nm}>", lambda: Tag(nm).get_html_string(1, "|"))
        show(f"full <{nm}>", lambda: Tag(nm, "<", ">").get_html_string(1, "|"))


def main():
    layout_section()
    error_section()
    entry_section()


if __name__ == "__main__":
    main()


# ---------------------------------------------------------------------------
# Extra checks aimed at TagList.get_html_string (sibling layout walker)
# ---------------------------------------------------------------------------
def taglist_extras():
    print("== TagList extras ==")

    class Grower:
        """Appends a sibling to its own list while being rendered."""

        def __init__(self):
            self.owner = None
            self.n = 0

        def _repr_html_(self):
            self.n += 1
            if self.n <= 2:
                self.owner.append("late<", div("late"))
            return "<g/>"

    g = Grower()
    tl = TagList("a", g, span("b"))
    g.owner = tl
    show("grow during render", lambda: tl.get_html_string(1, "|"))
    show("grow again", lambda: tl.get_html_string(1, "|", add_ws=False))
    show("grown len", lambda: len(tl))

    class Shrinker:
        def __init__(self):
            self.owner = None

        def _repr_html_(self):
            del self.owner[-1]
            return "<s/>"

    sh = Shrinker()
    tl2 = TagList(div("x"), sh, "gone1", "gone2")
    sh.owner = tl2
    show("shrink during render", lambda: tl2.get_html_string(2, "\n"))
    show("shrunk len", lambda: len(tl2))

    # metadata nodes in every position: the first *rendered* node never gets an eol
    for n_lead in range(3):
        for n_mid in range(2):
            items = [dep] * n_lead + [div("a")] + [dep] * n_mid + ["b", dep, span("c"), div("d"), dep]
            for add_ws in (True, False):
                show(
                    f"deps lead={n_lead} mid={n_mid} add_ws={add_ws}",
                    lambda: TagList(*items).get_html_string(1, "|", add_ws=add_ws),
                )

    # every pair / triple of sibling kinds
    kinds = {
        "txt": lambda: "t<",
        "html": lambda: HTML("<h>"),
        "rep": lambda: Rep("<r/>"),
        "inl": lambda: span("i"),
        "blk": lambda: div("b"),
        "inl2": lambda: span("i", "j"),
        "blk2": lambda: div("b", "c"),
        "dep": lambda: dep,
        "inl_ws": lambda: span("w", _add_ws=True),
        "blk_nows": lambda: div("n", "m", _add_ws=False),
    }
    for k1, k2 in itertools.product(kinds, repeat=2):
        for add_ws in (True, False):
            show(
                f"pair {k1},{k2} add_ws={add_ws}",
                lambda: TagList(kinds[k1](), kinds[k2]()).get_html_string(1, "|", add_ws=add_ws),
            )
        show(f"pair-in-div {k1},{k2}", lambda: div(kinds[k1](), kinds[k2]()).get_html_string(1, "|"))
        show(f"pair-in-span {k1},{k2}", lambda: span(kinds[k1](), kinds[k2]()).get_html_string(1, "|"))
        show(f"pair-in-script {k1},{k2}", lambda: tags.script(kinds[k1](), kinds[k2]()).get_html_string(1, "|"))
    for k1, k2, k3 in itertools.product(["txt", "rep", "inl", "blk", "dep"], repeat=3):
        show(
            f"triple {k1},{k2},{k3}",
            lambda: TagList(kinds[k1](), kinds[k2](), kinds[k3]()).get_html_string(2, "\n", add_ws=False),
        )

    class MyList(TagList):
        def get_html_string(self, *args, **kwargs):
            return "[" + super().get_html_string(*args, **kwargs) + "]"

    t = div("a", span("b"))
    t.children = MyList("a", div("b"), "c")
    show("subclass children", lambda: t.get_html_string(1, "|"))
    show("subclass direct", lambda: MyList("a", div("b"), dep, "c").get_html_string())

    # a non-bool add_ws argument / attribute is only ever used for its truthiness
    show("add_ws=0", lambda: TagList("a", "b", div()).get_html_string(1, "|", add_ws=0))
    show("add_ws='y'", lambda: TagList("a", "b", div()).get_html_string(1, "|", add_ws="y"))
    s1 = span("q")
    s1.add_ws = []
    s2 = span("r")
    s2.add_ws = [0]
    show("child add_ws lists", lambda: TagList("x", s1, s2, "y").get_html_string(1, "|", add_ws=False))
    s3 = span("r")
    del s3.add_ws
    show("child missing add_ws (prev False)", lambda: TagList("x", s3).get_html_string(1, "|", add_ws=False))
    show("child missing add_ws (prev True)", lambda: TagList(s3, "x").get_html_string(1, "|", add_ws=True))

    del Rep.log[:]
    show("untagified after indent", lambda: TagList(Rep("<1/>"), div(), Lazy(), Rep("<2/>")).get_html_string(None))
    print("log", Rep.log)
    del Rep.log[:]
    show("untagified indent None add_ws", lambda: TagList(Lazy()).get_html_string(None))
    show("string indent None", lambda: TagList("s").get_html_string(None))
    show("string indent None no ws", lambda: TagList("s").get_html_string(None, add_ws=False))
    show("noescape raw int", lambda: _raw_list(5).get_html_string(_escape_strings=False))
    show("escape raw int", lambda: _raw_list(5).get_html_string())
    show("raw None child", lambda: _raw_list(None).get_html_string(_escape_strings=False))


def _raw_list(*items):
    tl = TagList("a")
    tl.data.extend(items)
    return tl


taglist_extras()
