# Probe for refactoring 2: _tagchilds_to_tagnodes via generator helper.
from htmltools import HTML, TagList, Tag, div, span, tags, HTMLDependency
from htmltools._core import _tagchilds_to_tagnodes, MetadataNode

LOG = []


def show(label, fn):
    try:
        r = fn()
        print(label, "->", type(r).__name__, repr(r))
    except Exception as e:  # noqa: BLE001
        print(label, "-> EXC", type(e).__name__, str(e))


def kinds(lst):
    # deterministic: never print default object reprs (they contain addresses)
    return [
        (type(v).__name__, str(v) if isinstance(v, (str, HTML, Tag, TagList)) else "-")
        for v in lst
    ]


class Tf:
    def __init__(self, *kids):
        self.kids = kids

    def tagify(self):
        return TagList(*self.kids)


class Tf1:
    def tagify(self):
        return span("tf1")


class Rh:
    def _repr_html_(self):
        return "<em>rh</em>"


class NoisyInt(int):
    def __str__(self):
        LOG.append(("str", int(self)))
        return "N" + int.__repr__(self)


class Probe:
    """Neither a node nor a number; records attribute probing order."""

    def __init__(self, tag):
        self.tag = tag

    def __getattr__(self, name):
        LOG.append((self.tag, name))
        raise AttributeError(name)


class F(float):
    pass


dep = HTMLDependency("d", "1.0")
inputs = {
    "empty": (),
    "emptylist": [],
    "str": "abc",
    "strs": ["a", "b"],
    "nums": [1, 2.5, -0.0, True, False, 10**30, float("inf"), float("nan"), F(2.0)],
    "none": [None, "a", None],
    "nested": ["a", ["b", ("c", [None, 3]), TagList("d", 4)], []],
    "tags": [div("x"), span(1), TagList(div(), "t")],
    "html": [HTML("<b>"), "<b>"],
    "dep": [dep, MetadataNode()],
    "tf": [Tf("a", 1), Tf1(), Rh()],
    "gen": (i for i in [1, "a", None, [2]]),
    "range": range(3),
    "dictitem": ["a", {"k": "v"}],
    "bytes": [b"x"],
    "obj": ["a", 1, object()],
    "set": [{1}],
    "cplx": [1j],
    "notiter": 5,
    "nonearg": None,
    "dictarg": {"a": 1},
    "bytesarg": b"ab",
    "strkeep": ["", " "],
}
for k, v in inputs.items():
    show(f"conv[{k}]", lambda: kinds(_tagchilds_to_tagnodes(v)))

# result is always a fresh plain list, input untouched
src = ["a", 1, ["b", None]]
out = _tagchilds_to_tagnodes(src)
show("fresh", lambda: (type(out).__name__, out, src, out is src))
s = "zz"
show("str-arg", lambda: (_tagchilds_to_tagnodes(s), _tagchilds_to_tagnodes(s)[0] is s))
node = div("q")
show("identity", lambda: _tagchilds_to_tagnodes([node, [node]])[0] is node)

# order of side effects: all of flatten first, then per-item conversion / validation
LOG.clear()
show("order1", lambda: kinds(_tagchilds_to_tagnodes([NoisyInt(1), [NoisyInt(2)], "x", NoisyInt(3)])))
print("LOG1", LOG)
LOG.clear()
show("order2", lambda: _tagchilds_to_tagnodes([NoisyInt(1), Probe("p1"), NoisyInt(2), Probe("p2")]))
print("LOG2", LOG)


def gen_with_log():
    for i in (1, 2):
        LOG.append(("gen", i))
        yield NoisyInt(i)
    LOG.append(("gen", "done"))


LOG.clear()
show("order3", lambda: kinds(_tagchilds_to_tagnodes(gen_with_log())))
print("LOG3", LOG)

# public entry points
show("TagList()", lambda: (TagList().data, str(TagList())))
show("TagList(mixed)", lambda: kinds(TagList("a", 1, None, [2.5, ("b",)], div(), HTML("<i>"), dep)))
tl = TagList("a")
show("extend-ok", lambda: (tl.extend([1, None, ["b"]]), kinds(tl))[1])
show("extend-bad", lambda: tl.extend(["c", object()]))
show("after-bad", lambda: kinds(tl))
show("extend-str", lambda: (tl.extend("xyz"), kinds(tl))[1])
show("append", lambda: (tl.append(7, [8, None], "n"), kinds(tl))[1])
show("append-bad", lambda: tl.append({"a": 1}))
show("insert", lambda: (tl.insert(0, [0, 0.5]), tl.insert(-1, None), tl.insert(100, "end"), kinds(tl))[3])
show("insert-bad", lambda: tl.insert(0, 1j))
show("add", lambda: kinds(tl + [1, None]))
show("add-str", lambda: kinds(TagList(1) + "str"))
show("radd", lambda: kinds([1, 2] + TagList("z")))
show("radd-str", lambda: kinds("str" + TagList(3)))
tl2 = TagList()
tl2 += (1, "a", None)
show("iadd", lambda: kinds(tl2))
show("tagify", lambda: kinds(TagList("a", Tf("x", 2, None, [3]), Tf(), Tf1(), 5).tagify()))
show("tag-kids", lambda: str(div(1, 2.0, None, [True, "t"], span(3), _add_ws=False)))
show("tag-bad", lambda: div("a", object))
d = div("a")
show("tag-append", lambda: (d.append(1, [2]), d.extend([None, 3.5]), d.insert(0, 0), str(d))[3])
show("tag-extend-bad", lambda: d.extend([1, b"b"]))
show("tag-after", lambda: str(d))
show("render-tf", lambda: str(div(Tf("in", 1, span("s")), Rh())))
show("doc", lambda: str(tags.ul([tags.li(i) for i in range(3)])))
