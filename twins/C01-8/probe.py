# Probe for refactoring 3: TagAttrDict.__setitem__/update share _normalize_item.
from htmltools import HTML, TagList, Tag, div, span, tags
from htmltools._core import TagAttrDict, consolidate_attrs

LOG = []


def show(label, fn):
    try:
        r = fn()
        print(label, "->", type(r).__name__, repr(r))
    except Exception as e:  # noqa: BLE001
        print(label, "-> EXC", type(e).__name__, str(e))


def items(d):
    return [(k, type(v).__name__, str(v)) for k, v in dict.items(d)]


VALUES = [None, False, True, "", "v", "a<&\"'b", 0, 1, -2.5, float("nan"), 10**20, HTML("<h>"), HTML("")]
NAMES = ["id", "class_", "class", "data_foo_bar", "_x", "x_", "x__", "_", "__", "", "aria_label_", "for_", "A_b", "a-b", "é_"]

for n in NAMES:
    for v in VALUES:
        def f():
            d = TagAttrDict()
            d[n] = v
            return items(d)
        show(f"set[{n!r}]={v!r}", f)
        show(f"ctor{{{n!r}:{v!r}}}", lambda: items(TagAttrDict({n: v})))

# invalid values / names; which error wins; dropped values never look at the name
BADV = [[1], (1,), {"a": 1}, b"b", 1j, object, {1}]
BADN = [1, None, 2.5, b"x", ("a",)]
for v in BADV:
    def f():
        d = TagAttrDict(a="1")
        d["k_"] = v
        return items(d)
    show(f"set-badv[{v!r}]", f)
    show(f"upd-badv[{v!r}]", lambda: items(TagAttrDict({"a": "1"}, {"k_": v})))
for n in BADN:
    for v in ["v", None, False, True, 1, [1]]:
        def f():
            d = TagAttrDict(a="1")
            d[n] = v
            return items(d)
        show(f"set-badn[{n!r}]={v!r}", f)

        def g():
            d = TagAttrDict(a="1")
            try:
                d.update({"b": "2"}, {n: v}, {"c": "3"})
            finally:
                print("   state:", items(d))
            return items(d)
        show(f"upd-badn[{n!r}]={v!r}", g)

# merging, ordering, insertion order
show("merge1", lambda: items(TagAttrDict({"class": "a"}, {"class_": "b", "id": "i"}, class_="c", id=None)))
show("merge2", lambda: items(TagAttrDict({"class": "a<"}, {"class": HTML("<b>")}, {"class": "c'"})))
show("merge3", lambda: items(TagAttrDict({"x": HTML("&")}, {"x": 1}, {"x": True}, {"x": False}, {"x": None})))
show("merge4", lambda: items(TagAttrDict({"a_b": 1, "a-b": 2, "a_b_": 3})))
d = TagAttrDict(z="1", a="2")
show("upd-order", lambda: (d.update({"m": 1, "z": "9"}, a=None, b=True), items(d))[1])
show("upd-empty", lambda: (d.update(), d.update({}), d.update({}, {}), items(d))[3])
show("upd-kw-only", lambda: (d.update(q_r=5), items(d))[1])
d["z"] = "over"
d["z_"] = None
d["new_"] = 3
show("setitem-seq", lambda: items(d))
show("upd-nonmapping", lambda: TagAttrDict().update([("a", 1)]))
show("upd-none", lambda: TagAttrDict().update(None))


# subclass hooks are still dispatched through self, in the same order
class Sub(TagAttrDict):
    @staticmethod
    def _normalize_attr_name(x):
        LOG.append(("name", x))
        return "p-" + TagAttrDict._normalize_attr_name(x)

    @staticmethod
    def _normalize_attr_value(x):
        LOG.append(("value", x))
        return TagAttrDict._normalize_attr_value(x)


def sub():
    s = Sub({"a_": 1, "b": None}, c=True)
    s["d_e"] = "x"
    s["f"] = False
    return items(s)


show("sub", sub)
print("LOG", LOG)
LOG.clear()
show("sub-bad", lambda: Sub({"a": 1, 5: [1], "z": 2}))
print("LOG", LOG)

# via Tag / rendering / other entry points
show("tag1", lambda: str(div({"class": "a", "data_x": 1}, {"class": "b"}, "kid", id="i", hidden=True, disabled=False, title=None, class_="c")))
show("tag2", lambda: str(tags.input(type="checkbox", checked=True, value=0, min_=1.5)))
t = span("s", class_="k")
t.attrs["data_a_"] = 5
t.attrs["class"] = HTML("<raw>")
t.attrs["gone"] = None
t.attrs.update({"style": "a:b;"}, style="c:d;")
show("tag3", lambda: (str(t), items(t.attrs)))
show("tag4", lambda: str(div().add_class("a").add_class("b", prepend=True).add_style("x:y;").add_style(HTML("p:q;"), prepend=True)))
show("tag5", lambda: str(div(class_="a b c").remove_class("b")))
show("tag-bad", lambda: div(id=[1]))
show("tag-badname", lambda: div({1: "a"}))
show("consolidate", lambda: consolidate_attrs({"class": "a", "x_y": None}, "child", {"class": "b"}, 1, id_=3, k=False))
