"""Probe for refactoring 5: HTML.__add__ (htmltools/_core.py), used when attribute values are merged."""
import itertools

from htmltools import HTML, TagList, div, tags
from htmltools._core import TagAttrDict


class MyStr(str):
    pass


class SubHTML(HTML):
    def as_string(self):
        return "SUB[" + self.data + "]"


class Noisy:
    def __init__(self, log):
        self.log = log

    def __str__(self):
        self.log.append("Noisy.__str__")
        return "<noisy & 'q'>"


class BadStr:
    def __str__(self):
        raise ValueError("no str for you")


class LoggingHTML(HTML):
    LOG = []

    def as_string(self):
        LoggingHTML.LOG.append("as_string:" + self.data)
        return self.data + ""


def show(label, fn):
    try:
        res = fn()
        print(label, "->", type(res).__name__, repr(str(res)), repr(getattr(res, "data", None)))
    except Exception as e:  # noqa: BLE001
        print(label, "-> EXC", type(e).__name__, str(e))


OPERANDS = [
    "",
    " ",
    "plain",
    "a&b",
    "<b>",
    "q\"'",
    "nl\r\n",
    "&amp;",
    MyStr("m<"),
    HTML(""),
    HTML("<h>&\"'\n"),
    SubHTML("<s>"),
    0,
    1.5,
    True,
    None,
    ["<"],
    ("&",),
    b"<b>",
    tags.b("x", title="<"),
    TagList("a<", HTML("<r>")),
]

for h in [HTML("<i>&"), HTML(""), SubHTML("<p>")]:
    for o in OPERANDS:
        show(f"{h.data!r}({type(h).__name__}) + {o!r}", lambda: h + o)
        show(f"{o!r} + {h.data!r}({type(h).__name__})", lambda: o + h)
        show(f"explicit __add__ {o!r}", lambda: h.__add__(o))
        show(f"explicit __radd__ {o!r}", lambda: h.__radd__(o))

# += and chains, sum(), join
def iadd():
    x = HTML("<a>")
    x += "<b>"
    x += HTML("<c>")
    x += 3
    return x


show("iadd", iadd)
show("chain", lambda: "a<" + HTML("<b>") + "c>" + HTML("&") + "'")
show("chain2", lambda: HTML("<b>") + " " + "x&y" + " " + HTML("<z>"))
show("sum", lambda: sum([HTML("<a>"), "<b>", HTML("<c>")], HTML("")))
show("sum str start", lambda: sum([HTML("<a>"), "<b>"], "s<"))
show("result type of sub", lambda: type(SubHTML("<p>") + "x").__name__)
show("mul", lambda: HTML("<a>") * 2)
show("join", lambda: HTML(" & ").join(["<a>", "<b>"]))

# Order of side effects / exceptions
log = []
show("noisy", lambda: HTML("<x>") + Noisy(log))
show("noisy r", lambda: Noisy(log) + HTML("<x>"))
print("log", log)
show("badstr", lambda: HTML("<x>") + BadStr())
show("badstr r", lambda: BadStr() + HTML("<x>"))
LoggingHTML.LOG.clear()
show("logging + logging", lambda: LoggingHTML("L1") + LoggingHTML("L2"))
show("logging + str", lambda: LoggingHTML("L3") + "s<")
show("html + logging", lambda: HTML("H") + LoggingHTML("L4"))
show("str + logging", lambda: "s>" + LoggingHTML("L5"))
show("logging + badstr", lambda: LoggingHTML("L6") + BadStr())
print("LOG", LoggingHTML.LOG)


def corrupt_both():
    h = HTML("ok")
    h.data = 5  # as_string() now fails
    return h + BadStr()


def corrupt_self():
    h = HTML("ok")
    h.data = 5
    return h + "x"


def corrupt_other():
    h = HTML("ok")
    o = HTML("o")
    o.data = None
    return h + o


show("corrupt both", corrupt_both)
show("corrupt self", corrupt_self)
show("corrupt other", corrupt_other)

# The attribute-merge path that relies on HTML.__add__
VALUES = ["p<'", HTML("<h>\""), MyStr("m&"), SubHTML("<s>"), 2, True, "", HTML("")]
for a, b in itertools.product(VALUES, repeat=2):
    show(f"merge ({a!r}, {b!r})", lambda: TagAttrDict({"class": a}, class_=b).get("class"))
    show(f"div   ({a!r}, {b!r})", lambda: div({"class": a}, class_=b))
for a, b, c in itertools.product(["x<", HTML("<y>"), SubHTML("z&")], repeat=3):
    show(f"tri ({a!r}, {b!r}, {c!r})", lambda: div({"k": a}, {"k": b}, k=c))
show("add_class", lambda: div(class_=HTML("<a>")).add_class("b&").add_class(HTML("<c>")))
show("add_class prepend", lambda: div(class_="a'").add_class(HTML("<c>"), prepend=True))
show("add_style", lambda: div(style=HTML("a:'1';")).add_style("b:\"2\";"))
show("child concat", lambda: div(HTML("<em>") + "a<b" + HTML("</em>")))
