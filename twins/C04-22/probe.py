# Probe for refactoring 2: Tag.get_html_string (attribute writer, empty / void /
# single-text-child paths, <script>/<style>).
from htmltools import HTML, Tag, TagList, tags, div, span, HTMLDependency, HTMLDocument

LOG = []


class Repr:
    def __init__(self, s, name="r"):
        self.s = s
        self.name = name

    def _repr_html_(self):
        LOG.append(("repr", self.name))
        return self.s


class S(str):
    pass


def show(label, thunk):
    del LOG[:]
    try:
        out = thunk()
        print(label, "->", type(out).__name__, repr(out), "| log:", LOG)
    except BaseException as e:  # noqa
        print(label, "-> EXC", type(e).__name__, str(e)[:90], "| log:", LOG)


RAW = "<b a='1' c=\"2\">&amp; & \r\n</b>"
dep = HTMLDependency(name="x", version="1.0")

NAMES = ["div", "span", "script", "style", "br", "img", "input", "link", "meta", "p", "pre", "SCRIPT", "Style", "textarea", "title", ""]

ATTRS = [
    {},
    {"id": "a"},
    {"title": RAW},
    {"title": HTML(RAW)},
    {"class_": "a<b", "data_x_": True, "hidden": False, "n": 3, "f": 1.5, "none": None},
    {"onclick": HTML("f('x' && \"y\")"), "style": "a:'b';", "class": "c&d"},
    {"empty": "", "hempty": HTML("")},
]

CHILDREN = {
    "none": (),
    "deponly": (dep,),
    "emptystr": ("",),
    "emptyhtml": (HTML(""),),
    "str": (RAW,),
    "html": (HTML(RAW),),
    "strsub": (S("s<&>b"),),
    "htmlsub": (HTML(S("s<&>b")),),
    "str+dep": (dep, RAW, dep),
    "html+dep": (HTML(RAW), dep),
    "repr": (Repr(RAW),),
    "num": (3,),
    "float": (2.5,),
    "tag": (span(RAW),),
    "two": (RAW, HTML(RAW)),
    "two-rev": (HTML(RAW), RAW),
    "three": (RAW, Repr(RAW), HTML(RAW)),
    "nested": (div(RAW, tags.script(RAW), tags.style(HTML(RAW))), RAW),
    "list": ([RAW, [HTML(RAW), None]],),
    "taglist": (TagList(RAW),),
    "emptylist": ([], None, TagList()),
}

for name in NAMES:
    for ck in CHILDREN:
        for ai, attrs in enumerate(ATTRS):
            if ai > 1 and ck not in ("none", "str", "html", "two"):
                continue
            for ws in (True, False):
                mk = lambda: Tag(name, attrs, *CHILDREN[ck], _add_ws=ws)
                show(f"{name!r} {ck} a{ai} ws={ws}", lambda: mk().get_html_string())
                if ai <= 1:
                    show(f"{name!r} {ck} a{ai} ws={ws} ind", lambda: mk().get_html_string(2, "\r\n"))
                    show(f"{name!r} {ck} a{ai} ws={ws} str", lambda: str(mk()))

# attribute merging then rendering (HTML + plain in both orders)
show("merge1", lambda: div({"class": "a'b"}, class_=HTML("<c>")).get_html_string())
show("merge2", lambda: div({"class": HTML("<c>")}, class_="a'b").get_html_string())
show("merge3", lambda: div({"class": "x\"y"}, {"class": "a'b"}).get_html_string())
t = div(id="<i>")
t.add_class("k&k").add_class(HTML("<h>"), prepend=True).add_style("a:'b';").add_style(HTML("c:\"d\";"))
show("add_class/add_style", lambda: t.get_html_string())
show("render", lambda: t.render()["html"])
show("_repr_html_", lambda: t._repr_html_())
show("in document", lambda: HTMLDocument(tags.script(RAW), tags.style(HTML(RAW)), div(HTML(RAW), title=HTML(RAW))).render()["html"])

# values smuggled past TagAttrDict normalisation
t = div("x")
dict.__setitem__(t.attrs, "n", 5)
show("smuggled int attr", lambda: t.get_html_string())
t = div("x")
dict.__setitem__(t.attrs, "n", None)
show("smuggled None attr", lambda: t.get_html_string())
t = div("x")
dict.__setitem__(t.attrs, "ok", "fine")
dict.__setitem__(t.attrs, 5, "five")
dict.__setitem__(t.attrs, "s", S("a'b"))
dict.__setitem__(t.attrs, "h", HTML(S("a'b")))
show("smuggled int key", lambda: t.get_html_string())
t = div("x")
t.attrs = {"plain": "dict'", "h": HTML("'")}
show("plain dict attrs", lambda: t.get_html_string())
t.attrs = None
show("attrs None", lambda: t.get_html_string())

# odd tag state / arguments
t = div(Repr("r", "r"))
t.name = None
show("name None", lambda: t.get_html_string())
t.name = 5
show("name int", lambda: t.get_html_string())
t = div(Repr("r", "r"), id="x")
show("indent str", lambda: t.get_html_string("x"))
show("indent neg", lambda: t.get_html_string(-1))
show("eol None", lambda: t.get_html_string(0, None))
t = span(Repr("r", "r"), "y")
show("eol None inline", lambda: t.get_html_string(0, None))
t = div("x")
t.children.data.append(7)
show("smuggled child", lambda: t.get_html_string())
t = div()
t.children.data.append(7)
show("smuggled only child", lambda: t.get_html_string())
t = tags.script()
t.children.data.append(b"<")
show("smuggled bytes in script", lambda: t.get_html_string())
t = div("a")
t.children = ["a<b"]
show("children plain list 1", lambda: t.get_html_string())
t.children = []
show("children plain list 0", lambda: t.get_html_string())
t.children = ["a", "b"]
show("children plain list 2", lambda: t.get_html_string())
t.children = ()
show("children tuple 0", lambda: t.get_html_string())
t.children = None
show("children None", lambda: t.get_html_string())
