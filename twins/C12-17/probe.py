# Probe for refactoring 2: HTMLDependency.source_path_map / as_dict (URL computation).
import os
import tempfile

from htmltools import (
    HTML,
    HTMLDependency,
    HTMLDocument,
    HTMLTextDocument,
    TagList,
    div,
    tags,
)

ROOT = os.path.realpath(tempfile.mkdtemp(prefix="c12probe"))
CWD = os.path.realpath(os.getcwd())
import htmltools as _h

PKG = os.path.dirname(_h.__file__)


def scrub(s):
    return str(s).replace(ROOT, "<ROOT>").replace(PKG, "<PKG>").replace(CWD, "<CWD>")


def show(label, fn):
    try:
        print(label, "->", scrub(repr(fn())))
    except BaseException as e:  # noqa
        print(label, "raised", type(e).__name__)


SRC = os.path.join(ROOT, "src dir")
os.makedirs(SRC)

sources = {
    "none": None,
    "local": {"subdir": SRC},
    "local_rel": {"subdir": "some/rel/../dir"},
    "local_empty": {"subdir": ""},
    "pkg_none": {"package": None, "subdir": SRC},
    "pkg": {"package": "htmltools", "subdir": "lib/x"},
    "pkg_abs_subdir": {"package": "htmltools", "subdir": "/abs"},
    "badpkg": {"package": "no_such_pkg_xyz", "subdir": "x"},
    "emptypkg": {"package": "", "subdir": "x"},
    "url": {"href": "https://cdn.example.org/lib@1"},
    "url_slash": {"href": "https://cdn.example.org/lib/"},
    "url_empty": {"href": ""},
    "url_and_subdir": {"href": "//x", "subdir": SRC},
    "url_nonstr": {"href": 7},
}

scripts = [
    None,
    {"src": "a.js"},
    [{"src": "sub dir/b c.js", "defer": True}, {"src": "/abs.js"}, {"src": "é%20?.js#x", "type": "module"}],
    [{"src": ""}, {"src": "a/../b.js"}],
]
sheets = [
    None,
    {"href": "s.css"},
    [{"href": "x y/s&t.css", "rel": "preload", "media": "print"}, {"href": "/root.css"}],
]

prefixes = ["lib", None, "", "a/b", "a/b/", "/abs/lib", "my lib", "..", 0]

for sname, source in sources.items():
    for sc in scripts:
        for st in sheets:
            dep = HTMLDependency(
                "na me", "1.10.0", source=source, script=sc, stylesheet=st,
                meta={"name": "m", "content": "c"},
                head=None if sc is None else "<x>",
            )
            before = (repr(dep.script), repr(dep.stylesheet), repr(dep.meta))
            for pre in prefixes:
                for iv in (True, False):
                    lab = "%s sc=%d st=%d pre=%r iv=%s" % (
                        sname, scripts.index(sc), sheets.index(st), pre, iv)
                    show("spm " + lab, lambda: dep.source_path_map(lib_prefix=pre, include_version=iv))
                    show("dict " + lab, lambda: dep.as_dict(lib_prefix=pre, include_version=iv))
                    show("tags " + lab, lambda: str(dep.as_html_tags(lib_prefix=pre, include_version=iv)))
            assert before == (repr(dep.script), repr(dep.stylesheet), repr(dep.meta))
            show("defaults " + sname, lambda: (dep.source_path_map(), dep.as_dict(), str(dep)))

# as_dict gives fresh copies each time and does not alias the dependency's own dicts
dep = HTMLDependency("n", "1", source={"subdir": SRC}, script={"src": "a.js"}, stylesheet={"href": "s.css"})
d1, d2 = dep.as_dict(), dep.as_dict()
print(d1 == d2, d1["script"] is d2["script"], d1["script"][0] is dep.script[0],
      d1["stylesheet"][0] is dep.stylesheet[0], d1["meta"] is dep.meta)
print(list(d1), list(d1["script"][0]), list(d1["stylesheet"][0]))

# key order / rel handling when the dependency was mutated after construction
dep.stylesheet[0].pop("rel")
dep.stylesheet.append({"media": "x", "href": "late.css"})
show("mutated rel", lambda: dep.as_dict())
show("mutated rel tags", lambda: str(dep.as_html_tags()))
dep.script.append({"nosrc": 1})
show("script without src", lambda: dep.as_dict())
dep.script[:] = [{"src": 3}]
show("script int src", lambda: dep.as_dict())
dep.script[:] = [{"src": b"bytes.js"}]
show("script bytes src", lambda: dep.as_dict())
dep.script[:] = [{"src": "ok.js"}]
dep.stylesheet[:] = [{"href": None}]
show("sheet None href", lambda: dep.as_dict())
dep.stylesheet[:] = ({"href": "t.css"},)
show("sheet tuple container", lambda: dep.as_dict())
dep.stylesheet = ({"href": "t.css"},)
show("sheet tuple attr", lambda: (dep.as_dict(), type(dep.as_dict()["stylesheet"]).__name__))

# odd names / versions
for name in ["", "a/b", "é", 5, None, HTML("h")]:
    for iv in (True, False):
        for pre in ("lib", None):
            def f():
                d = HTMLDependency("x", "2.0.1", source={"subdir": SRC}, script={"src": "a.js"})
                d.name = name
                return (d.source_path_map(lib_prefix=pre, include_version=iv),
                        d.as_dict(lib_prefix=pre, include_version=iv)["script"])
            show("name=%r iv=%s pre=%r" % (name, iv, pre), f)
            def g():
                d = HTMLDependency("x", "2.0.1", source={"package": "no_such_pkg_xyz", "subdir": "s"})
                d.name = name
                return d.source_path_map(lib_prefix=pre, include_version=iv)
            show("badpkg name=%r iv=%s pre=%r" % (name, iv, pre), g)
for ver in ["1", "1.0.0.0", "2.0rc1", "1!2.3"]:
    show("version " + ver, lambda: HTMLDependency("v", ver, source={"subdir": SRC}, script={"src": "a.js"}).as_dict())

# source mutated to something without subdir
d = HTMLDependency("x", "1", source={"subdir": SRC})
d.source = {}
show("empty source dict", lambda: d.source_path_map())
d.source = {"package": "htmltools"}
show("package without subdir", lambda: d.source_path_map())
d.source = {"package": None}
show("package None without subdir", lambda: d.as_dict())

# head variants in as_dict
for head in [None, "", "<b>", tags.title("t"), TagList("a", tags.b("b")), [tags.i("i"), "s"]]:
    show("head %r" % (head,), lambda: HTMLDependency("h", "1", head=head).as_dict())

# document-level rendering
e = HTMLDependency("e", "1.0", source={"subdir": SRC}, script={"src": "a b.js"}, stylesheet={"href": "c/d.css"})
u = HTMLDependency("u", "2.0", source={"href": "https://x.org/u"}, script={"src": "u.js"})
n = HTMLDependency("n", "3.0", script={"src": "n.js"})
for pre in ("lib", None, "", "p/q"):
    for iv in (True, False):
        show("doc %r %s" % (pre, iv), lambda: HTMLDocument(div(e, u, n)).render(lib_prefix=pre, include_version=iv))
        show("textdoc %r %s" % (pre, iv), lambda: HTMLTextDocument(
            "<html><head>@@</head></html>", deps=[e, u, n], deps_replace_pattern="@@"
        ).render(lib_prefix=pre, include_version=iv))
os.rmdir(SRC)
os.rmdir(ROOT)
