# Probe for Tag.add_class / Tag.add_style (and the TagAttrDict.update merge they rely on)
from htmltools import HTML, Tag, TagList, css, div, span, tags


def state(t):
    return "attrs=%r types=%r html=%r" % (
        dict(t.attrs),
        {k: type(v).__name__ for k, v in t.attrs.items()},
        str(t),
    )


def run(label, make, op):
    t = make()
    try:
        r = op(t)
        print(label, "-> same" if r is t else "-> OTHER %r" % (r,), state(t))
    except Exception as e:  # noqa: BLE001
        print(label, "-> EXC", type(e).__name__, str(e), "|", state(t))


class Truthy:
    def __bool__(self):
        return True


class Falsy:
    def __bool__(self):
        return False


makers = [
    ("none", lambda: div()),
    ("cls", lambda: div(class_="a b")),
    ("empty", lambda: div(class_="", style="")),
    ("html", lambda: div(class_=HTML("x&y"), style=HTML("a:1;"))),
    ("both", lambda: div("child", id="i", class_="a", style="color:red;", title="t")),
    ("ws", lambda: span(class_="  a \t b\n", style=" c:d; ")),
]
values = ["new", "", "a", "two words", "<&\">'", HTML("<&>"), HTML(""), None, True, False, 3, 2.5, ["x"], b"b"]
for mlabel, make in makers:
    for v in values:
        for prepend in (False, True):
            run("add_class[%s](%r, prepend=%r)" % (mlabel, v, prepend), make,
                lambda t, v=v, p=prepend: t.add_class(v, prepend=p))

styles = ["x:y;", ";", "x:y", "", "a:b; c:d;", "<&\">';", HTML("u:<&>;"), HTML("u:v"), HTML(";"), HTML(""),
          None, True, False, 3, 2.5, ["x;"], b"b;", css(fontSize="1px"), css(), css("\n", a=1)]
for mlabel, make in makers:
    for v in styles:
        for prepend in (False, True):
            run("add_style[%s](%r, prepend=%r)" % (mlabel, v, prepend), make,
                lambda t, v=v, p=prepend: t.add_style(v, prepend=p))

# non-bool prepend values
for p in (0, 1, "", "yes", None, [], Truthy(), Falsy()):
    run("add_class prepend=%s" % type(p).__name__, lambda: div(class_="a"), lambda t, p=p: t.add_class("n", prepend=p))
    run("add_style prepend=%s" % type(p).__name__, lambda: div(style="a:1;"), lambda t, p=p: t.add_style("n:2;", prepend=p))

# positional prepend is keyword-only
run("add_class positional", lambda: div(), lambda t: t.add_class("a", True))
run("add_style positional", lambda: div(), lambda t: t.add_style("a;", True))

# chaining and attribute order
t = div(id="x")
r = t.add_class("a").add_style("s:1;").add_class("b", prepend=True).add_style("s:0;", prepend=True).add_class("a")
print(r is t, list(t.attrs.items()), str(t))
print(t.has_class("a"), t.has_class("b"), t.has_class("c"))
t.remove_class("a")
print(list(t.attrs.items()))

# key order when the attribute is new vs existing
t = div(class_="k", id="i")
t.add_style("q:1;")
t.add_class("z", prepend=True)
print(list(t.attrs.keys()), str(t))

# other tag kinds / subclass
class MyTag(Tag):
    pass

m = MyTag("custom", class_="c")
print(type(m.add_class("d")).__name__, type(m.add_style("e:f;")).__name__, str(m))
print(str(tags.input(type="text").add_class("form-control").add_style("width:1px;")))

# HTML mixes: escaping of the plain operand
t = div(class_="a&b")
t.add_class(HTML("c&d"))
print(state(t))
t.add_class("e&f", prepend=True)
print(state(t))
t = div(style=HTML("a:'1';"))
t.add_style('b:"2";')
print(state(t))
t.add_style(HTML("c:<3>;"), prepend=True)
print(state(t))
