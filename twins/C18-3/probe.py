"""Probe for refactoring 3: HTMLTextDocument._static_extract_serialized_html_deps."""
import json

from htmltools import HTMLDependency, HTMLTextDocument, TagList, div, head_content, tags

extract = HTMLTextDocument._static_extract_serialized_html_deps


def show(label, fn):
    try:
        res = fn()
    except BaseException as e:  # noqa: BLE001
        print(label, "-> EXC", type(e).__name__)
    else:
        print(label, "->", repr(res))


def depinfo(d):
    return (
        d.name,
        str(d.version),
        d.source,
        d.script,
        d.stylesheet,
        d.meta,
        d.all_files,
        None if d.head is None else d.head.get_html_string(),
    )


def run(html):
    out, deps = extract(html)
    return (out, type(out).__name__, type(deps).__name__, [depinfo(d) for d in deps])


OPEN = '<script type="application/json" data-html-dependency="">'
CLOSE = "</script>"


def ser(d, indent=None):
    return str(d.serialize_to_script_json(indent=indent))


a1 = HTMLDependency("a", "1.0", source={"subdir": "libtest/testdep"}, script={"src": "a.js"})
a2 = HTMLDependency("a", "2.0", source={"href": "https://x.test/a"}, stylesheet={"href": "a b.css"})
b1 = HTMLDependency("b", "1.2.3", meta={"name": "viewport", "content": "w"}, all_files=True)
hc = head_content(tags.title("T </script> & <b>"))
hc2 = head_content(tags.script("var x = '</SCRIPT>';"))

raw = lambda obj: OPEN + json.dumps(obj) + CLOSE  # noqa: E731
mini = {"name": "m", "version": "1"}

cases = {
    "empty": "",
    "no deps": "<html><head></head><body>hi</body></html>",
    "one": "<p>x</p>" + ser(a1) + "<p>y</p>",
    "one indented json": "<p>x</p>" + ser(a1, indent=2) + "<p>y</p>",
    "exact duplicates collapse": ser(a1) + "|" + ser(a1) + "|" + ser(b1) + "|" + ser(a1),
    "same dep different text not collapsed": ser(a1) + ser(a1, indent=2) + ser(a1, indent=4),
    "same name different versions both kept": ser(a1) + ser(a2) + ser(a1),
    "order is first occurrence": ser(b1) + ser(a2) + ser(a1) + ser(a2) + ser(b1) + ser(hc),
    "head content deps": ser(hc) + "mid" + ser(hc2) + ser(hc),
    "only deps": ser(a1) + ser(b1),
    "adjacent": "A" + ser(a1) + ser(a1) + "B",
    "minimal json": raw(mini),
    "whitespace variants distinct": raw(mini) + OPEN + ' {"name": "m", "version": "1"}' + CLOSE,
    "json with newlines": OPEN + '{\n"name":\r\n"nl",\r"version": "1"\n}' + CLOSE,
    "empty payload": "x" + OPEN + CLOSE + "y",
    "malformed json": "x" + OPEN + "{not json" + CLOSE + "y",
    "malformed after good": raw(mini) + OPEN + "{oops" + CLOSE,
    "good dup then malformed": raw(mini) + raw(mini) + OPEN + "[" + CLOSE,
    "json list": raw([1, 2]),
    "json string": raw("str"),
    "json null": raw(None),
    "json number": raw(5),
    "missing version": raw({"name": "m"}),
    "unknown key": raw({"name": "m", "version": "1", "bogus": 1}),
    "bad version": raw({"name": "m", "version": "not a version"}),
    "bad source": raw({"name": "m", "version": "1", "source": {"nope": 1}}),
    "bad script": raw({"name": "m", "version": "1", "script": [{"nosrc": 1}]}),
    "numeric version": raw({"name": "m", "version": 3}),
    "empty dict": raw({}),
    "non-greedy": raw(mini) + "<script>keep()</script>" + raw({"name": "n", "version": "2"}),
    "unterminated": "x" + OPEN + json.dumps(mini),
    "unterminated then good": OPEN + '{"a": 1} <p>' + raw(mini),
    "uppercase tag not matched": OPEN.upper() + json.dumps(mini) + CLOSE,
    "uppercase close not matched": OPEN + json.dumps(mini) + "</SCRIPT>",
    "attr order swapped not matched": '<script data-html-dependency="" type="application/json">{}</script>',
    "single quotes not matched": OPEN.replace('"', "'") + "{}" + CLOSE,
    "extra space not matched": OPEN.replace("<script ", "<script  ") + "{}" + CLOSE,
    "unicode": raw({"name": "café-日本", "version": "1", "head": "<title>\U0001f600</title>"}),
    "head with escaped close": raw({"name": "h", "version": "1", "head": "<\\/script>"}),
    "payload containing open marker": OPEN + OPEN + json.dumps(mini) + CLOSE,
    "many": "".join(raw({"name": "d%d" % (i % 7), "version": str(i % 3)}) for i in range(40)),
}
for label, html in cases.items():
    show(label, lambda: run(html))

show("input None", lambda: run(None))
show("input bytes", lambda: run(b"<p>" + ser(a1).encode()))
show("input int", lambda: run(7))
show("input list", lambda: run([ser(a1)]))


class S(str):
    pass


show("input str subclass", lambda: run(S("q" + raw(mini) + "r")))
show("no args", lambda: extract())

# Through the public class
tree = TagList(div("body", a1, hc), b1, a1)
body_html = tree.get_html_string() + "".join(ser(d) for d in tree.get_dependencies(dedup=False))
tmpl = "<html><head><!--DEPS--></head><body>" + body_html + "</body></html>"
show("doc no pattern", lambda: HTMLTextDocument("<p>" + ser(b1) + "</p>")._deps)
show("doc html stripped", lambda: HTMLTextDocument("<p>" + ser(b1) + "</p>")._html)
doc = HTMLTextDocument(tmpl, deps=[a2], deps_replace_pattern="<!--DEPS-->")
show("doc deps", lambda: [repr(d) for d in doc._deps])
show("doc render html", lambda: doc.render(lib_prefix="L")["html"])
show("doc render deps", lambda: [depinfo(d) for d in doc.render()["dependencies"]])
show("doc render twice equal", lambda: doc.render() == doc.render())
show("doc deps without pattern", lambda: HTMLTextDocument("x", deps=[a1]))
show("doc malformed", lambda: HTMLTextDocument(OPEN + "{" + CLOSE))
user_list = []
HTMLTextDocument(ser(a1) + ser(a1), deps=user_list, deps_replace_pattern="zz")
show("caller list extended in place", lambda: [repr(d) for d in user_list])

# history independence: same text again after unrelated work
first = run(cases["order is first occurrence"])
for k in ("many", "unicode", "head content deps"):
    run(cases[k])
show("stable after history", lambda: run(cases["order is first occurrence"]) == first)
r1 = extract(ser(a1))[1]
r2 = extract(ser(a1))[1]
show("fresh objects", lambda: (r1 is not r2, r1[0] is not r2[0], r1[0] == r2[0]))
