"""Probe for C13: dependency serialisation and HTMLTextDocument round trip.

Prints deterministic reprs of outputs / exception types.
"""
import json

import htmltools as ht
from htmltools import (
    HTML,
    HTMLDependency,
    HTMLDocument,
    HTMLTextDocument,
    Tag,
    TagList,
    div,
    tags,
)
from packaging.version import Version


def show(label, fn):
    try:
        out = fn()
    except BaseException as e:  # noqa: BLE001
        print(label, "-> EXC", type(e).__name__, repr(str(e))[:200])
        return None
    print(label, "->", repr(out))
    return out


def dep_fields(d):
    return (
        d.name,
        str(d.version),
        type(d.version).__name__,
        d.source,
        d.script,
        d.stylesheet,
        d.meta,
        d.all_files,
        None if d.head is None else (type(d.head).__name__, d.head.get_html_string()),
    )


class Weird:
    """An object whose str() has a visible side effect (records order)."""

    log = []

    def __init__(self, tag):
        self.tag = tag

    def __str__(self):
        Weird.log.append(self.tag)
        return "9.9." + str(len(Weird.log))


def make_deps():
    deps = []
    deps.append(HTMLDependency("a", "1.0"))
    deps.append(
        HTMLDependency(
            "b",
            "2.1.3",
            source={"subdir": "libtest/testdep"},
            script={"src": "testdep.js"},
            stylesheet={"href": "testdep.css"},
            meta={"name": "viewport", "content": "width=device-width"},
            all_files=True,
            head="<script>alert('x < y')</script>",
        )
    )
    deps.append(
        HTMLDependency(
            "c</script><SCRIPT>",
            "3",
            source={"href": "https://example.com/</ScRiPt >x"},
            script=[{"src": "a b.js", "defer": ""}, {"src": "</script>.js"}],
            stylesheet=[{"href": "s.css", "media": "</SCRIPT"}],
            meta=[{"name": "</", "content": "<\\/   é \"q\""}],
            head=TagList(tags.title("t</script"), "x & y", HTML("<!-- </script -->")),
        )
    )
    deps.append(
        HTMLDependency(
            "d",
            Version("4.5"),
            source={"package": "htmltools", "subdir": "libtest"},
            head=div("hi", ht.span("there"), id="x"),
        )
    )
    deps.append(HTMLDependency("e", "0.0.1", head=""))
    deps.append(HTMLDependency("f", "1", head=TagList()))
    deps.append(HTMLDependency("g\n\r\t", "1.2", head=["a", 1, 2.5, None, ["b"]]))
    return deps


print("=== serialize_to_script_json ===")
for i, d in enumerate(make_deps()):
    for indent in (None, 0, 2, 4):
        t = show(f"ser[{i}] indent={indent}", lambda: d.serialize_to_script_json(indent=indent))
        if t is not None:
            s = t.get_html_string()
            print("   str:", repr(s))
            inner = s[s.index(">") + 1 : s.rindex("</script>")]
            print("   has </script inside:", "</script" in inner.lower())
            print("   attrs:", list(t.attrs.items()), "n_children:", len(t.children), type(t.children[0]).__name__)
            print("   json keys:", list(json.loads(inner).keys()))
    show(f"ser[{i}] default", lambda: d.serialize_to_script_json().get_html_string())
    show(f"ser[{i}] positional", lambda: str(d.serialize_to_script_json(1)))

# odd attribute values set after construction
d = HTMLDependency("w", "1.0")
d.version = Weird("v")
d.head = TagList(div("h"))
show("weird version", lambda: d.serialize_to_script_json().get_html_string())
print("weird log", Weird.log)

d = HTMLDependency("w", "1.0")
d.script = [{"src": object}]  # not JSON serialisable
show("unserialisable", lambda: d.serialize_to_script_json())
d = HTMLDependency("w", "1.0")
d.version = Weird("order")
d.head = 5  # TagList(5) -> "5"
show("head int", lambda: d.serialize_to_script_json().get_html_string())
d.head = object()
Weird.log.clear()
show("head bad object", lambda: d.serialize_to_script_json())
print("weird log after bad head", Weird.log)
d = HTMLDependency("w", "1.0")
d.head = "raw <b> & string"
show("head str", lambda: d.serialize_to_script_json().get_html_string())
show("bad indent", lambda: d.serialize_to_script_json(indent="--").get_html_string())
show("bad indent type", lambda: d.serialize_to_script_json(indent=1.5).get_html_string())
d = HTMLDependency("w", "1.0")
del d.head
show("missing head attr", lambda: d.serialize_to_script_json())
d = HTMLDependency("w", "1.0")
del d.meta
show("missing meta attr", lambda: d.serialize_to_script_json())


print("=== _static_extract_serialized_html_deps ===")
ex = HTMLTextDocument._static_extract_serialized_html_deps
deps = make_deps()
ser = [d.serialize_to_script_json().get_html_string() for d in deps]
ser2 = [d.serialize_to_script_json(indent=2).get_html_string() for d in deps]

texts = {
    "empty": "",
    "nodeps": "<html><head></head><body>hello</body></html>",
    "one": "<html><body>A" + ser[0] + "B</body></html>",
    "all": "<html>" + "|".join(ser) + "</html>",
    "all_indent": "<html>" + "|".join(ser2) + "</html>",
    "dups": ser[1] + "x" + ser[0] + "y" + ser[1] + "z" + ser2[1] + ser[0] + ser[1],
    "adjacent": ser[2] + ser[2] + ser[3],
    "reverse": "".join(reversed(ser)),
    "unterminated": '<script type="application/json" data-html-dependency="">{"name": "a"',
    "other_script": '<script type="application/json">{"name":"a","version":"1"}</script>' + ser[0],
    "upper_close": '<script type="application/json" data-html-dependency="">{"name":"a","version":"1"}</SCRIPT>tail' + ser[4] + "end",
    "newlines": '<script type="application/json" data-html-dependency="">\r\n{"name":\n"nl",\r"version":"1"}\n</script>',
    "empty_payload": 'p<script type="application/json" data-html-dependency=""></script>q',
    "bad_json": 'p<script type="application/json" data-html-dependency="">{nope}</script>q',
    "json_list": 'p<script type="application/json" data-html-dependency="">[1,2]</script>q',
    "json_num": 'p<script type="application/json" data-html-dependency="">3</script>q',
    "missing_version": 'p<script type="application/json" data-html-dependency="">{"name":"a"}</script>q',
    "extra_key": 'p<script type="application/json" data-html-dependency="">{"name":"a","version":"1","zzz":2}</script>q',
    "bad_source": 'p<script type="application/json" data-html-dependency="">{"name":"a","version":"1","source":{"x":1}}</script>q',
    "good_then_bad": ser[0] + '<script type="application/json" data-html-dependency="">{bad</script>',
    "bad_twice": '<script type="application/json" data-html-dependency="">{bad</script>' * 2 + ser[0],
    "nested_open": '<script type="application/json" data-html-dependency=""><script type="application/json" data-html-dependency="">{"name":"n","version":"1"}</script></script>',
    "whitespace_variants": ser[0].replace('data-html-dependency=""', "data-html-dependency") + ser[0].replace("<script ", "<script  "),
    "unicode": "é中" + ser[2] + "\U0001f600",
}
for k, text in texts.items():
    r = show(f"extract[{k}]", lambda: ex(text))
    if r is not None:
        print("   type:", type(r).__name__, type(r[0]).__name__, type(r[1]).__name__)
        print("   deps:", [dep_fields(x) for x in r[1]])
        print("   distinct objects:", len({id(x) for x in r[1]}) == len(r[1]))

for bad in (None, b"bytes", 5, ["<html>"], bytearray(b"x")):
    show(f"extract bad input {type(bad).__name__}", lambda: ex(bad))


class MyStr(str):
    pass


r = show("extract str subclass", lambda: ex(MyStr("x" + ser[0] + "y")))
if r is not None:
    print("   html type:", type(r[0]).__name__)
r = show("extract str subclass nodeps", lambda: ex(MyStr("xy")))
if r is not None:
    print("   html type:", type(r[0]).__name__)

# round trip equality
for i, d in enumerate(make_deps()):
    for indent in (None, 3):
        s = d.serialize_to_script_json(indent=indent).get_html_string()
        html, got = ex("<p>" + s + "</p>" + s)
        print(f"roundtrip[{i}] indent={indent}", repr(html), len(got), dep_fields(got[0]) == dep_fields(d))


print("=== HTMLTextDocument.__init__ / render ===")


def doc_state(doc):
    return (doc._html, [dep_fields(x) for x in doc._deps], doc._deps_replace_pattern)


PH = "<!-- deps -->"
base = "<html><head>" + PH + "</head><body>" + PH + "BODY</body></html>"

show("init no deps no pattern", lambda: doc_state(HTMLTextDocument(base)))
show("init deps no pattern", lambda: HTMLTextDocument(base, deps=[deps[0]]))
show("init empty deps no pattern", lambda: HTMLTextDocument(base, deps=[]))
show("init pattern no deps", lambda: doc_state(HTMLTextDocument(base, deps_replace_pattern=PH)))
show("init both", lambda: doc_state(HTMLTextDocument(base, [deps[0], deps[1]], PH)))
show("init positional", lambda: doc_state(HTMLTextDocument(base, None, PH)))
show("init html None", lambda: HTMLTextDocument(None, None, PH))
show("init html None, deps, no pattern", lambda: HTMLTextDocument(None, [deps[0]]))
show("init html bytes", lambda: HTMLTextDocument(b"abc", None, "x"))
show("init deps tuple", lambda: HTMLTextDocument(base, (deps[0],), PH))
show("init deps tuple with ser", lambda: HTMLTextDocument(base + ser[0], (deps[0],), PH))
show("init deps falsy non-list", lambda: doc_state(HTMLTextDocument(base, (), PH)))
show("init bad json body", lambda: HTMLTextDocument(texts["bad_json"], [], PH))
show("init empty pattern", lambda: doc_state(HTMLTextDocument(base, [], "")))

# the caller's list is used as-is (aliased) and extended
mine = [deps[0]]
doc = HTMLTextDocument(base + ser[1] + ser[0] + ser[1], mine, PH)
print("aliased list:", doc._deps is mine, [x.name for x in mine], mine[0] is deps[0])
print("html after init:", repr(doc._html))

# two documents without deps do not share a list
d1 = HTMLTextDocument(ser[0])
d2 = HTMLTextDocument("nothing")
print("separate default lists:", d1._deps is not d2._deps, len(d1._deps), len(d2._deps))


class SubDoc(HTMLTextDocument):
    calls = []

    def _extract_serialized_html_deps(self):
        SubDoc.calls.append(sorted(self.__dict__.keys()))
        super()._extract_serialized_html_deps()


sd = show("subclass init", lambda: doc_state(SubDoc(base + ser[0], None, PH)))
print("subclass calls:", SubDoc.calls)
show("subclass init error", lambda: SubDoc(base, [deps[0]]))
print("subclass calls after error:", SubDoc.calls)


class Recorder(HTMLTextDocument):
    def __setattr__(self, k, v):
        print("   setattr", k, type(v).__name__)
        object.__setattr__(self, k, v)


show("recorder init", lambda: doc_state(Recorder(base + ser[0], None, PH)))
show("recorder init err", lambda: Recorder(base + ser[0], [deps[0]], None))


def render_all(doc):
    out = []
    for kw in (
        {},
        {"lib_prefix": None},
        {"lib_prefix": ""},
        {"lib_prefix": "my/lib", "include_version": False},
        {"include_version": False},
    ):
        r = doc.render(**kw)
        out.append((sorted(r.keys()), r["html"], [dep_fields(x) for x in r["dependencies"]]))
    return out


bodies = {
    "nodeps": base,
    "one": base + ser[0],
    "many": "<html><head>" + PH + "</head><body>" + "".join(ser) + PH + ser[1] + "</body></html>",
    "no_placeholder": "<html>" + ser[1] + "</html>",
    "placeholder_only": PH,
    "thrice": PH * 3 + ser[2],
}
for k, text in bodies.items():
    for extra in (None, [], [deps[3]], [deps[2], deps[2], deps[0]]):
        label = f"render[{k}] extra={None if extra is None else [x.name for x in extra]}"
        show(label, lambda: render_all(HTMLTextDocument(text, None if extra is None else list(extra), PH)))

# No pattern: render fails in str.replace
show("render no pattern", lambda: HTMLTextDocument(base + ser[0]).render())
show("render no pattern no deps", lambda: HTMLTextDocument(base).render())
show("render positional args", lambda: HTMLTextDocument(base, None, PH).render("lib"))
show("render empty pattern", lambda: HTMLTextDocument("abc" + ser[0], [], "").render()["html"])

# returned dependencies are deep copies, and render is repeatable
doc = HTMLTextDocument(base + ser[1], [deps[0]], PH)
r1 = doc.render()
r2 = doc.render()
print("repeatable:", r1["html"] == r2["html"])
print("deepcopied:", all(a is not b for a, b in zip(r1["dependencies"], doc._deps)), r1["dependencies"] is not doc._deps)
print("dep types:", [type(x).__name__ for x in r1["dependencies"]], type(r1["dependencies"]).__name__)
print("doc html unchanged:", repr(doc._html))

# broken dependency inside the list: which exception wins
bad = HTMLDependency("bad", "1.0")
bad.name = 5  # int + str -> TypeError in the listing
bad.source = {"package": "no_such_pkg_xyz", "subdir": "x"}  # as_html_tags would fail differently
show("render bad name first", lambda: HTMLTextDocument(base, [bad], PH).render())
bad2 = HTMLDependency("bad2", "1.0", source={"package": "no_such_pkg_xyz", "subdir": "x"})
show("render bad source", lambda: HTMLTextDocument(base, [bad2], PH).render())
show("render bad source, href", lambda: HTMLTextDocument(base, [HTMLDependency("h", "1", source={"href": "http://x/"}, script={"src": "a.js"})], PH).render()["html"])

order = []


class LoudDep(HTMLDependency):
    def as_html_tags(self, **kw):
        order.append(("tags", self.name, sorted(kw.items())))
        return super().as_html_tags(**kw)


ld = LoudDep("loud", "1.0", head="<x>")
ld.version = Weird("loud")
Weird.log.clear()
orig_str = Weird.__str__


def logged_str(self):
    order.append(("str", self.tag))
    return orig_str(self)


Weird.__str__ = logged_str
doc = HTMLTextDocument(base, [ld, LoudDep("loud2", "2")], PH)
show("render order html", lambda: doc.render(lib_prefix="L")["html"])
print("order:", order)
Weird.__str__ = orig_str

# dependency whose head itself contains a dependency
inner = HTMLDependency("inner", "1.0", script={"src": "i.js"}, source={"href": "/i"})
outer = HTMLDependency("outer", "1.0", head=TagList(div("o"), inner))
show("render nested dep in head", lambda: HTMLTextDocument(base, [outer], PH).render())

# equivalence with HTMLDocument rendering
ui = TagList(
    tags.head(HTML(PH)),
    tags.body(div("content", deps[1], deps[2]), deps[0], deps[1]),
)
direct = HTMLDocument(tags.html(*ui)).render()
print("direct:", repr(direct["html"]), [x.name for x in direct["dependencies"]])
ui_json = TagList(
    tags.head(HTML(PH)),
    tags.body(
        div("content", HTML(deps[1].serialize_to_script_json()), HTML(deps[2].serialize_to_script_json(indent=2))),
        HTML(deps[0].serialize_to_script_json()),
        HTML(deps[1].serialize_to_script_json()),
    ),
)
text = HTMLDocument(tags.html(*ui_json)).render()["html"]
post = HTMLTextDocument(text, deps=[], deps_replace_pattern=PH).render()
print("post:", repr(post["html"]), [x.name for x in post["dependencies"]])

print("=== extra: extraction stress / shapes ===")
import hashlib

many = []
for i in range(300):
    dd = HTMLDependency(f"n{i % 50}", f"1.{i % 7}", head=f"<i>{i % 3}</i>\n</p>" if i % 2 else None)
    many.append(dd.serialize_to_script_json(indent=None if i % 3 else 1).get_html_string())
text = "<html>" + "<hr>".join(many + many[::3] + many[::-1]) + "</html>"
html, got = ex(text)
print("many:", len(got), hashlib.sha256(html.encode()).hexdigest(), [(x.name, str(x.version)) for x in got][:12])
print("many html:", repr(html[:80]), len(html))

long_payload = HTMLDependency("long", "1", head="x\n" * 20000 + "</div>").serialize_to_script_json().get_html_string()
html, got = ex("A" + long_payload + "B" + long_payload + "C")
print("long:", repr(html), len(got), len(got[0].head.get_html_string()))

# text containing the opening marker only partially / in attribute order variants
for t in (
    '<script data-html-dependency="" type="application/json">{"name":"a","version":"1"}</script>',
    '<SCRIPT type="application/json" data-html-dependency="">{"name":"a","version":"1"}</script>',
    '<script type="application/json" data-html-dependency="">{"name":"a","version":"1"}</script >',
    '<script type="application/json" data-html-dependency="">{"name":"a","version":"1"}</script></script>',
    '</script><script type="application/json" data-html-dependency="">{"name":"a","version":"1"}',
):
    r = show("variant", lambda: ex(t))
    if r is not None:
        print("   ", [dep_fields(x) for x in r[1]])

# calling through an instance and through a subclass
inst = HTMLTextDocument("q")
print("via instance:", inst._static_extract_serialized_html_deps("a" + ser[0] + "b")[0])
print("via subclass:", SubDoc._static_extract_serialized_html_deps("a" + ser[0] + "b")[0])
# the same text twice gives equal but distinct dependency objects
r1 = ex(ser[1])
r2 = ex(ser[1])
print("fresh objects:", r1[1][0] is not r2[1][0], dep_fields(r1[1][0]) == dep_fields(r2[1][0]))
