"""Deterministic probe for HTMLDocument / dependency hoisting code paths."""
import os
import tempfile
from copy import copy

import htmltools
from htmltools import (
    HTML,
    HTMLDependency,
    HTMLDocument,
    Tag,
    TagList,
    div,
    head_content,
    span,
    tags,
)
from htmltools import _core


def show(label, fn):
    try:
        res = fn()
    except BaseException as e:  # noqa: BLE001
        print(f"[{label}] EXC {type(e).__name__}: {e}")
        return None
    print(f"[{label}] {res!r}")
    return res


def rendered(doc, **kw):
    r = doc.render(**kw)
    return (sorted(r.keys()), r["html"], [repr(d) for d in r["dependencies"]])


def mkdep(name, version, **kw):
    return HTMLDependency(name=name, version=version, **kw)


d_a1 = mkdep("a", "1.0", source={"subdir": "libs/a"}, script={"src": "a.js"})
d_a2 = mkdep(
    "a",
    "2.0.1",
    source={"subdir": "libs/a2"},
    script=[{"src": "a 2.js", "defer": ""}, {"src": "sub/b.js"}],
    stylesheet={"href": "a.css"},
    meta={"name": "viewport", "content": "width=device-width"},
    head="<link rel='x' href='y'>",
)
d_b = mkdep(
    "b",
    "0.1",
    source={"href": "https://cdn.example.com/b"},
    stylesheet=[{"href": "b one.css", "media": "print"}, {"href": "c.css", "rel": "alt"}],
    head=tags.title("T & <b>"),
)
d_c = mkdep("c", "3", head=TagList(tags.meta(name="x", content="y"), "txt<&>", HTML("<raw/>")))
d_nosrc = mkdep("nosrc", "1.2.3", script={"src": "n.js"}, stylesheet={"href": "n.css"})
d_pkg = mkdep(
    "pkg", "1.0", source={"package": "htmltools", "subdir": "lib"}, script={"src": "x.js"}, all_files=True
)
hc1 = head_content(tags.title("Title"), tags.style("p{color:red}"))
hc2 = head_content(tags.title("Title"), tags.style("p{color:red}"))
hc3 = head_content("plain <text>")
ALL = [d_a1, d_a2, d_b, d_c, d_nosrc, d_pkg, hc1, hc2, hc3]


class Widget:
    """Tagifiable that expands to something given at construction."""

    def __init__(self, out, log=None, label=""):
        self.out = out
        self.log = log
        self.label = label

    def tagify(self):
        if self.log is not None:
            self.log.append(self.label)
        return self.out


class MyTag(Tag):
    pass


class ReprOnly:
    def _repr_html_(self):
        return "<i>repr</i>"


print("== version", htmltools.__version__)

# ---------------------------------------------------------------- documents
docs = {
    "empty": lambda: HTMLDocument(),
    "empty_attrs": lambda: HTMLDocument(lang="en", class_="x y", data_foo=None),
    "text": lambda: HTMLDocument("hello <world> & co"),
    "html_str": lambda: HTMLDocument(HTML("<p>raw</p>")),
    "none_only": lambda: HTMLDocument(None, [], TagList()),
    "numbers": lambda: HTMLDocument(1, 2.5, [3, "x"]),
    "div": lambda: HTMLDocument(div("a", span("b")), lang="fr"),
    "two_divs": lambda: HTMLDocument(div("a"), div("b")),
    "inline_span": lambda: HTMLDocument(span("a"), span("b"), "c"),
    "dep_only": lambda: HTMLDocument(d_a1),
    "dep_first": lambda: HTMLDocument(d_a1, div("x")),
    "deps_nested": lambda: HTMLDocument(div(d_b, div(d_a1, span(d_c, "t")), d_a2), d_nosrc),
    "deps_dups": lambda: HTMLDocument(d_a2, d_a1, d_a2, d_a1, div(d_a1)),
    "deps_lower_then_higher": lambda: HTMLDocument(d_a1, d_b, d_a2),
    "deps_higher_then_lower": lambda: HTMLDocument(d_a2, d_b, d_a1),
    "head_content": lambda: HTMLDocument(div(hc1, "x", hc2), hc3),
    "all_deps": lambda: HTMLDocument(*ALL, div(*reversed(ALL))),
    "body_sole": lambda: HTMLDocument(tags.body("in body", d_a1, class_="bd"), lang="en"),
    "body_sole_in_list": lambda: HTMLDocument([[tags.body("x")]]),
    "body_plus_text": lambda: HTMLDocument(tags.body("x"), "tail"),
    "body_plus_dep": lambda: HTMLDocument(tags.body("x"), d_a1),
    "two_bodies": lambda: HTMLDocument(tags.body("x"), tags.body("y")),
    "body_noadd_ws": lambda: HTMLDocument(Tag("body", "x", span("y"), _add_ws=False)),
    "BODY_upper": lambda: HTMLDocument(Tag("BODY", "x")),
    "mytag_body": lambda: HTMLDocument(MyTag("body", "x", d_b)),
    "head_sole": lambda: HTMLDocument(tags.head(tags.title("t"))),
    "html_sole_empty": lambda: HTMLDocument(tags.html()),
    "html_sole_attrs": lambda: HTMLDocument(tags.html(lang="de", class_="u"), lang="en", class_="k", id="i"),
    "html_head_body": lambda: HTMLDocument(
        tags.html(tags.head(tags.title("t"), tags.meta(name="m", content="c")), tags.body("b", d_a2, hc1))
    ),
    "html_no_head": lambda: HTMLDocument(tags.html(tags.body("b", d_a1))),
    "html_head_not_first": lambda: HTMLDocument(tags.html(d_b, "txt", tags.body("b"), tags.head(tags.title("t")))),
    "html_two_heads": lambda: HTMLDocument(
        tags.html(tags.head(tags.title("first")), tags.head(tags.title("second"), d_c), tags.body(d_a1))
    ),
    "html_head_nested_only": lambda: HTMLDocument(tags.html(div(tags.head("inner")), tags.body())),
    "html_head_with_dep": lambda: HTMLDocument(tags.html(tags.head(d_a1, tags.title("t")), tags.body())),
    "html_plus_text": lambda: HTMLDocument(tags.html(tags.body("b")), "extra"),
    "html_plus_none": lambda: HTMLDocument(tags.html(tags.body("b")), None),
    "html_inline": lambda: HTMLDocument(Tag("html", span("s"), _add_ws=False)),
    "mytag_html": lambda: HTMLDocument(MyTag("html", Tag("head", "h"), Tag("body", d_nosrc))),
    "HTML_upper": lambda: HTMLDocument(Tag("HTML", Tag("body"))),
    "widget_div": lambda: HTMLDocument(Widget(div("w", d_a1))),
    "widget_html": lambda: HTMLDocument(Widget(tags.html(tags.body("w", d_b))), lang="x"),
    "widget_body": lambda: HTMLDocument(Widget(tags.body("w", Widget(span("inner", d_c))))),
    "widget_list": lambda: HTMLDocument(Widget(TagList(tags.body("w"), "more"))),
    "widget_list_one_body": lambda: HTMLDocument(Widget(TagList(tags.body("w")))),
    "widget_empty": lambda: HTMLDocument(Widget(TagList())),
    "widget_str": lambda: HTMLDocument(Widget("just text")),
    "widget_dep": lambda: HTMLDocument(Widget(d_a2)),
    "widget_in_html_head": lambda: HTMLDocument(tags.html(tags.head(Widget(tags.title("wt"))), Widget(tags.body(d_a1)))),
    "widget_returns_head_in_html": lambda: HTMLDocument(tags.html(Widget(tags.head("wh")), tags.body())),
    "repr_html": lambda: HTMLDocument(ReprOnly(), div(ReprOnly())),
    "script_style": lambda: HTMLDocument(tags.script("a < b && c"), tags.style("x > y"), d_a1),
    "attrs_special": lambda: HTMLDocument("x", data_x='q"<&>', title=HTML("<raw&>"), hidden=True, nothing=False),
}

for name, mk in docs.items():
    doc = show(f"doc:{name}:construct", lambda: type(mk()).__name__)
    if doc is None:
        continue
    show(f"doc:{name}:default", lambda: rendered(mk()))
    show(f"doc:{name}:noprefix", lambda: rendered(mk(), lib_prefix=None, include_version=False))
    show(f"doc:{name}:emptyprefix", lambda: rendered(mk(), lib_prefix="", include_version=True))
    show(f"doc:{name}:custom", lambda: rendered(mk(), lib_prefix="my/lib dir", include_version=False))

# Rendering twice / does not mutate user's objects
user_head = tags.head(tags.title("t"))
user_html = tags.html(user_head, tags.body("b", d_a1), lang="q")
doc = HTMLDocument(user_html, class_="added")
show("twice:1", lambda: rendered(doc))
show("twice:2", lambda: rendered(doc))
show("twice:user_html", lambda: str(user_html))
show("twice:user_head_children", lambda: list(user_head.children))
show("twice:user_html_attrs", lambda: dict(user_html.attrs))

user_body = tags.body("b", d_a1)
doc = HTMLDocument(user_body, id="i")
show("bodytwice:1", lambda: rendered(doc))
show("bodytwice:2", lambda: rendered(doc))
show("bodytwice:user_body", lambda: (str(user_body), len(user_body.children)))

# append / copy
doc = HTMLDocument(div("one"))
doc.append(d_b, span("two"))
doc2 = copy(doc)
doc2.append("three")
show("append:orig", lambda: rendered(doc))
show("append:copy", lambda: rendered(doc2))

# order of tagify side effects
log = []
doc = HTMLDocument(Widget(div("1"), log, "w1"), div(Widget("2", log, "w2"), Widget(d_a1, log, "w3")), Widget(TagList(), log, "w4"))
show("tagify_order:render", lambda: rendered(doc))
show("tagify_order:log", lambda: list(log))
log.clear()
doc = HTMLDocument(Widget(tags.html(Widget(tags.head(), log, "h"), Widget(tags.body(Widget("x", log, "x")), log, "b")), log, "top"))
show("tagify_order2:render", lambda: rendered(doc))
show("tagify_order2:log", lambda: list(log))

# error cases
show("err:_add_ws_kw", lambda: rendered(HTMLDocument("x", _add_ws=False)))
show("err:_add_ws_kw_html", lambda: rendered(HTMLDocument(tags.html(), _add_ws=False)))
show("err:bad_child", lambda: HTMLDocument(object()))
show("err:bad_attr", lambda: rendered(HTMLDocument("x", foo=object())))
show("err:bad_attr_html", lambda: rendered(HTMLDocument(tags.html(), foo=object())))
show("err:dict_child", lambda: HTMLDocument({"class": "x"}))
show("err:widget_bad", lambda: rendered(HTMLDocument(Widget(object()))))
show("err:widget_none", lambda: rendered(HTMLDocument(Widget(None))))
show("err:hoist_non_html", lambda: HTMLDocument._hoist_head_content(div("x"), "lib", True))
show("err:hoist_body", lambda: HTMLDocument._hoist_head_content(tags.body("x"), None, False))
bad_dep = mkdep("bad", "1.0", head=TagList(Widget(div("never tagified"))))
show("err:untagified_dep_head", lambda: rendered(HTMLDocument(div(bad_dep))))
show("err:untagified_dep_head_html", lambda: rendered(HTMLDocument(tags.html(tags.body(d_a1, bad_dep)))))
mixed1 = mkdep("mix", "1.0")
mixed2 = mkdep("mix", "1.0")
mixed2.version = "2.0"  # str vs Version comparison
show("err:mixed_version_types", lambda: rendered(HTMLDocument(mixed1, mixed2)))
show("err:mixed_version_types_rev", lambda: rendered(HTMLDocument(mixed2, mixed1)))
nameless = mkdep("nm", "1.0")
nameless.name = 5
show("err:int_name", lambda: rendered(HTMLDocument(nameless)))
unhash = mkdep("uh", "1.0")
unhash.name = ["list"]
show("err:unhashable_name", lambda: rendered(HTMLDocument(unhash)))
broken = mkdep("br", "1.0", script={"src": "s.js"})
del broken.script[0]["src"]
show("err:missing_src", lambda: rendered(HTMLDocument(d_a1, broken)))
broken2 = mkdep("br2", "1.0", stylesheet={"href": "s.css"})
del broken2.stylesheet[0]["href"]
show("err:missing_href", lambda: rendered(HTMLDocument(broken2, broken)))
norel = mkdep("norel", "1.0", stylesheet={"href": "s.css", "title": "t"})
del norel.stylesheet[0]["rel"]
show("norel", lambda: rendered(HTMLDocument(norel)))
show("norel:after", lambda: norel.stylesheet)
badmeta = mkdep("bm", "1.0", meta={"name": "n", "content": "c"})
badmeta.meta.append({"_add_ws": 3})
show("err:bad_meta", lambda: rendered(HTMLDocument(badmeta)))
show("err:dep_bad_script", lambda: mkdep("x", "1", script="s.js"))
show("err:dep_bad_script2", lambda: mkdep("x", "1", script={"href": "s.js"}))
show("err:dep_bad_source", lambda: mkdep("x", "1", source={"foo": "bar"}))
show("err:dep_bad_source2", lambda: mkdep("x", "1", source="dir"))

# _hoist_head_content directly
h = tags.html(tags.body(d_a2, div(d_b)))
show("hoist:direct", lambda: str(HTMLDocument._hoist_head_content(h, "L", True).get_html_string()))
show("hoist:direct_children", lambda: [type(c).__name__ for c in HTMLDocument._hoist_head_content(h, "L", True).children])
show("hoist:orig_untouched", lambda: (h.get_html_string(), len(h.children)))
h2 = tags.html(tags.head("H"))
r2 = HTMLDocument._hoist_head_content(h2, None, True)
show("hoist:identity", lambda: (r2 is h2, r2.children[0] is h2.children[0], r2.children is h2.children))
show("hoist:h2", lambda: (h2.get_html_string(), r2.get_html_string()))
h3 = MyTag("html", Tag("head", _add_ws=False), "x")
r3 = HTMLDocument._hoist_head_content(h3, "", False)
show("hoist:subclass", lambda: (type(r3).__name__, type(r3.children[0]).__name__, r3.get_html_string()))

# _gen_html_tag_tree directly
show("gen:frag", lambda: HTMLDocument("x", d_a1)._gen_html_tag_tree("lib", True).get_html_string())
show("gen:frag_kw", lambda: HTMLDocument("x", d_a1, lang="z")._gen_html_tag_tree(None, include_version=False).get_html_string())
show("gen:type", lambda: type(HTMLDocument(MyTag("html"))._gen_html_tag_tree("lib", True)).__name__)

# ---------------------------------------------------------------- dependencies
for d in ALL + [norel]:
    for kw in ({}, {"lib_prefix": None}, {"lib_prefix": ""}, {"include_version": False}, {"lib_prefix": "p/q", "include_version": False}):
        tag = f"dep:{d.name[:14]}-{d.version}:{sorted(kw.items())}"
        if d is d_pkg:
            show(tag + ":spm_href", lambda: d.source_path_map(**kw)["href"])
        else:
            show(tag + ":spm", lambda: d.source_path_map(**kw)["href"])
        show(tag + ":as_dict", lambda: d.as_dict(**kw))
        show(tag + ":tags", lambda: (type(d.as_html_tags(**kw)).__name__, str(d.as_html_tags(**kw).get_html_string()), len(d.as_html_tags(**kw))))
    show(f"dep:{d.name[:14]}:str", lambda: str(d))
    show(f"dep:{d.name[:14]}:json", lambda: d.serialize_to_script_json().get_html_string())
    show(f"dep:{d.name[:14]}:unchanged", lambda: (d.script, d.stylesheet, d.meta))

# as_dict returns fresh copies
ad = d_a2.as_dict()
ad["script"][0]["src"] = "MUTATED"
ad["stylesheet"][0]["href"] = "MUTATED"
show("as_dict:fresh", lambda: (d_a2.script, d_a2.stylesheet, d_a2.as_dict()["meta"] is d_a2.meta))


class LoudDict(dict):
    def __setitem__(self, k, v):
        super().__setitem__(k, "set:" + str(v))

    def update(self, *a, **k):
        for kk, vv in dict(*a, **k).items():
            dict.__setitem__(self, kk, "upd:" + str(vv))


loud = mkdep("loud", "1", source={"subdir": "s"}, script=LoudDict(src="l.js"), stylesheet=LoudDict(href="l.css"))
show("loud:as_dict", lambda: loud.as_dict())
show("loud:tags", lambda: loud.as_html_tags().get_html_string())
show("loud:doc", lambda: rendered(HTMLDocument(loud)))

# ---------------------------------------------------------------- resolve / get_dependencies
rd = _core._resolve_dependencies
show("resolve:empty", lambda: rd([]))
show("resolve:order", lambda: rd([d_b, d_a1, d_c, d_a2, d_b, d_a1]))
show("resolve:order2", lambda: rd([d_a2, d_c, d_a1, d_b]))
e1 = mkdep("e", "1.0", script={"src": "first.js"})
e2 = mkdep("e", "1.0", script={"src": "second.js"})
res = rd([e1, e2, e1])
show("resolve:equal_keeps_first", lambda: (res[0] is e1, len(res)))
res = rd([e2, e1])
show("resolve:equal_keeps_first2", lambda: (res[0] is e2, len(res)))
inp = [d_a1, d_a2]
out = rd(inp)
show("resolve:input_untouched", lambda: (inp, out, out is inp))
show("resolve:versions", lambda: rd([mkdep("v", "1.10"), mkdep("v", "1.9"), mkdep("v", "1.10.0"), mkdep("w", "1.0a1"), mkdep("w", "1.0")]))
show("resolve:tuple", lambda: rd((d_a1, d_a2)))
show("resolve:gen", lambda: rd(x for x in (d_a2, d_a1)))
show("resolve:none", lambda: rd(None))
show("resolve:nondep", lambda: rd([d_a1, "str"]))

tl = TagList(d_a1, div(d_a2, span(d_b, d_a1)), "t", d_b, Widget(d_c))
show("getdeps:tl", lambda: tl.get_dependencies())
show("getdeps:tl_nodedup", lambda: tl.get_dependencies(dedup=False))
show("getdeps:tl_dedup0", lambda: tl.get_dependencies(dedup=0))
show("getdeps:tl_dedup_str", lambda: tl.get_dependencies(dedup="yes"))
show("getdeps:empty", lambda: (TagList().get_dependencies(), TagList().get_dependencies(dedup=False)))
show("getdeps:fresh_list", lambda: TagList().get_dependencies(dedup=False) is not TagList().get_dependencies(dedup=False))
tg = div(d_a1, div(d_a2, span(d_b, d_a1)), "t", d_b)
show("getdeps:tag", lambda: tg.get_dependencies())
show("getdeps:tag_nodedup", lambda: tg.get_dependencies(False))
show("getdeps:tag_kw", lambda: tg.get_dependencies(dedup=False))
show("getdeps:tl_pos", lambda: tl.get_dependencies(False))


class CountingTag(Tag):
    calls = []

    def get_dependencies(self, dedup=True):
        CountingTag.calls.append((self.name, dedup))
        return super().get_dependencies(dedup=dedup)

    def tagify(self):
        CountingTag.calls.append((self.name, "tagify"))
        return super().tagify()

    def get_html_string(self, indent=0, eol="\n"):
        CountingTag.calls.append((self.name, "html"))
        return super().get_html_string(indent, eol)


ct = CountingTag("section", d_a1, CountingTag("article", d_a2))
show("counting:render", lambda: (lambda r: (r["html"], r["dependencies"], sorted(r)))(ct.render()))
show("counting:calls", lambda: list(CountingTag.calls))
CountingTag.calls.clear()
show("counting:tl_render", lambda: (lambda r: (r["html"], r["dependencies"], sorted(r)))(TagList(ct, "x").render()))
show("counting:calls2", lambda: list(CountingTag.calls))
CountingTag.calls.clear()
show("counting:doc", lambda: rendered(HTMLDocument(ct)))
show("counting:calls3", lambda: list(CountingTag.calls))
CountingTag.calls.clear()
show("counting:doc_html", lambda: rendered(HTMLDocument(CountingTag("html", CountingTag("head"), CountingTag("body", ct)))))
show("counting:calls4", lambda: list(CountingTag.calls))

# render() of Tag / TagList
for label, obj in {
    "tag": div("x", d_a1, span(d_a2), hc1),
    "taglist": TagList("x", d_a1, span(d_a2), hc1, None, 3),
    "empty_tl": TagList(),
    "widget_tl": TagList(Widget(TagList(d_b, "w")), "z"),
    "untagified_nested": div(Widget(Widget(div(d_c)))),
}.items():
    r = show(f"render:{label}", lambda: obj.render())
    show(f"render:{label}:keys", lambda: (list(obj.render().keys()), type(obj.render()).__name__))
    show(f"render:{label}:str", lambda: str(obj))
    show(f"render:{label}:fresh", lambda: obj.render() is not obj.render() and obj.render()["dependencies"] is not obj.render()["dependencies"])

# save_html
with tempfile.TemporaryDirectory() as td:
    td = os.path.realpath(td)
    f = os.path.join(td, "out.html")
    show("save:doc", lambda: os.path.relpath(HTMLDocument(div("x"), d_b, hc1).save_html(f), td))
    show("save:doc_content", lambda: open(f).read())
    show("save:tag", lambda: os.path.relpath(div("y", d_b).save_html(f, libdir=None, include_version=False), td))
    show("save:tag_content", lambda: open(f).read())
    show("save:tl", lambda: os.path.relpath(TagList("z", d_c).save_html(f, libdir="deps"), td))
    show("save:tl_content", lambda: open(f).read())
    show("save:ls", lambda: sorted(os.listdir(td)))

# html_dependency_render_mode json
htmltools.html_dependency_render_mode = "json"
show("jsonmode:tag", lambda: str(div("x", d_a2)))
show("jsonmode:doc", lambda: rendered(HTMLDocument(div("x", d_a2))))
htmltools.html_dependency_render_mode = "none"

# HTMLTextDocument shares resolve code
from htmltools import HTMLTextDocument

show(
    "textdoc",
    lambda: HTMLTextDocument(
        "<html><head>@@</head><body></body></html>", deps=[d_a1, d_b, d_a2], deps_replace_pattern="@@"
    ).render(lib_prefix="L"),
)
print("== done")
