"""Probe for refactoring 3: conversion of flattened children to tag nodes
(_tagchilds_to_tagnodes, reached from TagList.__init__/extend/insert/tagify and hence
from every tag function)."""
import enum

import htmltools
from htmltools import HTML, HTMLDependency, MetadataNode, Tag, TagList, div, span, svg, tags
from htmltools._core import _tagchilds_to_tagnodes

LOG = []


def show(label, fn):
    try:
        res = fn()
    except Exception as e:  # noqa: BLE001
        print(label, "->", "EXC", type(e).__name__, str(e))
    else:
        print(label, "->", repr(res))


def kids(t):
    ch = t.children if isinstance(t, Tag) else t
    return [
        (type(c).__name__, str(c) if isinstance(c, (str, HTML, Tag, HTMLDependency)) else "<obj>")
        for c in ch
    ]


def desc(t):
    return (t.name, t.add_ws, dict(t.attrs), kids(t), str(t))


class LoudInt(int):
    def __str__(self):
        LOG.append(("str", int(self)))
        return "loud%d" % int(self)


class IntTagifiable(int):
    """Both a number and Tagifiable: the number rule applies first."""

    def tagify(self):
        return span("never")


class FloatSub(float):
    pass


class Color(enum.IntEnum):
    RED = 1


class Repr:
    def _repr_html_(self):
        return "<u>repr</u>"


class Tagif:
    def __init__(self, ret):
        self.ret = ret

    def tagify(self):
        return self.ret


class StrSub(str):
    pass


class Probe:
    """Not a tag node; records the attribute lookups done by the protocol checks."""

    def __getattr__(self, name):
        LOG.append(("getattr", name))
        raise AttributeError(name)


dep = HTMLDependency("dep", "1.0", source={"subdir": "x"}, script={"src": "a.js"})
CHILDSETS = [
    (),
    ("a",),
    ("",),
    (None,),
    (1, 2.5, True, False, 0, -0.0, float("nan"), 10**20),
    (LoudInt(7), FloatSub(1.5), Color.RED, IntTagifiable(3)),
    (["a", ["b", ("c", [None, 4])]], ("d",), []),
    (TagList("x", TagList("y", 1)), span("s"), HTML("<b>"), StrSub("sub")),
    (Repr(), dep, MetadataNode()),
    ("ab", "cd", ["ef"]),
    (Tagif(TagList("t", None, 2)), Tagif("plain"), Tagif(span("in"))),
    (b"bytes",),
    (object(),),
    ({"a", "b"},),
    (1j,),
    ("ok", LoudInt(1), object(), LoudInt(2)),
    ([LoudInt(3), [object()]], LoudInt(4)),
    (range(3),),
    (iter("xy"),),
    (Probe(),),
]

FNS = [("div", div), ("top.span", htmltools.span), ("tags.map", tags.map), ("tags.time", tags.time),
       ("svg.g", svg.g), ("svg.tspan", svg.tspan), ("TagList", None)]

for i, cs in enumerate(CHILDSETS):
    for label, f in FNS:
        LOG.clear()
        if f is None:
            show(f"{label} #{i}", lambda: kids(TagList(*cs)))
        else:
            show(f"{label} #{i}", lambda: desc(f(*cs, {"id": "i"}, k="v")))
        print("   log", [e for e in LOG if e[0] == "str" or not e[1].startswith("__")])

# direct helper: str special case, iterables, result is a new list
src = ["a", 1, None, ["b"]]
out = _tagchilds_to_tagnodes(src)
print(out, src, out is src, type(out).__name__)
show("helper str", lambda: _tagchilds_to_tagnodes("abc"))
show("helper StrSub", lambda: [type(x).__name__ for x in _tagchilds_to_tagnodes(StrSub("abc"))])
show("helper gen", lambda: _tagchilds_to_tagnodes(x for x in (1, "a", None)))
show("helper taglist", lambda: _tagchilds_to_tagnodes(TagList("a", 1)))
show("helper tuple nested", lambda: _tagchilds_to_tagnodes(((1, (2, (3,))),)))
show("helper bad", lambda: _tagchilds_to_tagnodes([1, object(), 2]))
show("helper non-iterable", lambda: _tagchilds_to_tagnodes(5))
show("helper None", lambda: _tagchilds_to_tagnodes(None))

# thin wrappers on tags created by tag functions
t = div("a", id="x")
t.append(1, [2, None], True)
t.extend(["e", 3.5, ("f",)])
t.extend("gh")
t.insert(0, 0)
t.insert(1, ["i1", "i2", None])
t.insert(-1, None)
t.children.insert(2, "str-item")
print(desc(t))
show("append bad", lambda: t.append("fine", object()))
show("extend bad", lambda: t.extend(["fine2", {"k": 1}]))
show("insert bad", lambda: t.insert(0, object()))
show("append dict", lambda: t.append({"k": 1}))
print(kids(t))
tl = TagList("a")
tl += [1, None, [2]]
tl2 = tl + "str"
tl3 = 5.5 if False else ["pre", 0] + tl
print(kids(tl), kids(tl2), kids(tl3), type(tl3).__name__)
show("iadd bad", lambda: tl.__iadd__([object()]))
print(kids(tl))

# tagify flattens a returned TagList through the same helper
tg = div(Tagif(TagList("t", None, 2, [LoudInt(9)])), Tagif("plain"), "z").tagify()
print(desc(tg))
show("tagify bad", lambda: div(Tagif(TagList.__new__(TagList))).tagify())

for nm in tags.__all__:
    f = getattr(htmltools, nm)
    show("top " + nm, lambda: desc(f(1, [None, 2.0, [True]], "s", HTML("<h>"), span(3))))
