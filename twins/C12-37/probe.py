"""Probe for property C12 (dependency URLs and copied files agree).

Prints deterministic output: every temporary path is replaced by a placeholder.
"""
import os
import re
import shutil
import sys
import tempfile
import urllib.parse
from pathlib import Path

import htmltools
from htmltools import HTMLDependency, HTMLDocument, TagList, div, tags

ROOT = os.path.realpath(tempfile.mkdtemp(prefix="c12probe"))
PKG_DIR = os.path.dirname(os.path.realpath(htmltools.__file__))


def clean(s):
    return str(s).replace(ROOT, "<ROOT>").replace(PKG_DIR, "<PKG>")


def show(label, fn):
    try:
        out = fn()
        print(label, "->", clean(repr(out)))
    except BaseException as e:  # noqa
        print(label, "!!", type(e).__name__, clean(e))


def tree(d):
    out = []
    for base, dirs, files in os.walk(d):
        dirs.sort()
        for f in sorted(files):
            p = os.path.join(base, f)
            with open(p, "rb") as fh:
                out.append((clean(os.path.relpath(p, d)), fh.read()))
        if not dirs and not files:
            out.append((clean(os.path.relpath(base, d)) + "/", None))
    return sorted(out, key=lambda t: t[0])


def write(p, data):
    os.makedirs(os.path.dirname(p), exist_ok=True)
    with open(p, "wb") as fh:
        fh.write(data)


# ---------------------------------------------------------------- sources
SRC = os.path.join(ROOT, "src")
write(os.path.join(SRC, "a.js"), b"a-js")
write(os.path.join(SRC, "a b.css"), b"a b css")
write(os.path.join(SRC, "sub", "deep", "x%y.js"), b"deep \x00\xff")
write(os.path.join(SRC, "sub", "s.css"), b"s-css")
write(os.path.join(SRC, ".hidden"), b"hidden")
write(os.path.join(SRC, "été.js"), b"ete")
os.makedirs(os.path.join(SRC, "emptydir"))
EMPTY = os.path.join(ROOT, "emptysrc")
os.makedirs(EMPTY)


def mk():
    deps = {}
    deps["plain"] = HTMLDependency(
        "plain", "1.2.3", source={"subdir": SRC},
        script={"src": "a.js"}, stylesheet={"href": "a b.css"},
    )
    deps["multi"] = HTMLDependency(
        "multi", "2.0", source={"subdir": SRC},
        script=[{"src": "a.js", "defer": ""}, {"src": "sub/deep/x%y.js", "type": "module"},
                {"src": "été.js"}],
        stylesheet=[{"href": "sub/s.css", "media": "print"}, {"href": "a b.css", "rel": "preload"}],
        meta={"name": "viewport", "content": "w"},
        head="<title>t</title>",
    )
    deps["all"] = HTMLDependency(
        "all", "0.1", source={"subdir": SRC}, script={"src": "a.js"}, all_files=True
    )
    deps["all_nolist"] = HTMLDependency("alln", "0.1", source={"subdir": SRC}, all_files=True)
    deps["all_missing"] = HTMLDependency(
        "allm", "3", source={"subdir": SRC}, script={"src": "nope.js"}, all_files=True
    )
    deps["all_empty"] = HTMLDependency("alle", "3", source={"subdir": EMPTY}, all_files=True)
    deps["missing"] = HTMLDependency(
        "missing", "1", source={"subdir": SRC},
        script=[{"src": "a.js"}, {"src": "nope.js"}], stylesheet={"href": "also-nope.css"},
    )
    deps["missing_css"] = HTMLDependency(
        "missingcss", "1", source={"subdir": SRC},
        script=[{"src": "a.js"}], stylesheet={"href": "also-nope.css"},
    )
    deps["dirsrc"] = HTMLDependency(
        "dirsrc", "1", source={"subdir": SRC}, script={"src": "sub"},
    )
    deps["nofiles"] = HTMLDependency("nofiles", "1", source={"subdir": SRC})
    deps["url"] = HTMLDependency(
        "url", "9", source={"href": "https://cdn.example/x y"},
        script={"src": "u v.js"}, stylesheet={"href": "u.css"},
    )
    deps["url_all"] = HTMLDependency(
        "urla", "9", source={"href": "/abs/"}, script={"src": "/rooted.js"}, all_files=True
    )
    deps["nosrc"] = HTMLDependency("nosrc", "1.0", script={"src": "n.js"}, stylesheet={"href": "n.css"})
    deps["headonly"] = HTMLDependency("headonly", "1", head=tags.title("hi"))
    deps["pkg"] = HTMLDependency(
        "pkg", "1.0.0", source={"package": "htmltools", "subdir": "lib/shared"},
        script={"src": "nothing.js"},
    )
    deps["pkg_bad"] = HTMLDependency(
        "pkgbad", "1", source={"package": "no_such_pkg_zzz", "subdir": "x"}, script={"src": "a.js"}
    )
    deps["pkg_none"] = HTMLDependency(
        "pkgnone", "1", source={"package": None, "subdir": SRC}, script={"src": "a.js"}
    )
    deps["relsub"] = HTMLDependency(
        "relsub", "1", source={"subdir": os.path.join(SRC, "sub", "..")}, script={"src": "a.js"}
    )
    deps["abs_script"] = HTMLDependency(
        "abss", "1", source={"subdir": SRC}, script={"src": "/a.js"}
    )
    deps["odd name"] = HTMLDependency(
        "odd name/x", "1.0.0.0", source={"subdir": SRC}, script={"src": "a.js"}
    )
    # Mutated after construction
    d = HTMLDependency("mut", "1", source={"subdir": SRC}, stylesheet={"href": "a b.css"})
    del d.stylesheet[0]["rel"]
    d.script.append({"src": "a.js"})
    deps["mut"] = d
    d = HTMLDependency("nosub", "1", source={"subdir": SRC}, script={"src": "a.js"})
    d.source = {"package": "htmltools"}  # type: ignore
    deps["nosub_pkg"] = d
    d = HTMLDependency("nosub2", "1", source={"subdir": SRC}, script={"src": "a.js"})
    d.source = {}  # type: ignore
    deps["nosub_nopkg"] = d
    d = HTMLDependency("nokey", "1", source={"subdir": SRC}, script={"src": "a.js"})
    d.script[0].pop("src")
    deps["nokey"] = d
    d = HTMLDependency("nonstr", "1", source={"subdir": SRC}, script={"src": "a.js"})
    d.script[0]["src"] = 5  # type: ignore
    deps["nonstr"] = d
    d = HTMLDependency("intname", "1", source={"subdir": SRC}, script={"src": "a.js"})
    d.name = 5  # type: ignore
    deps["intname"] = d
    d = HTMLDependency("intname2", "1", script={"src": "a.js"})
    d.name = 5  # type: ignore
    deps["intname_nosrc"] = d
    return deps


PREFIXES = ["lib", None, "", "a/b", "/abs/p", "with space", "trail/"]


def section_urls():
    print("== source_path_map / as_dict / as_html_tags")
    for key, dep in mk().items():
        for prefix in PREFIXES:
            for iv in (True, False):
                lab = f"{key} prefix={prefix!r} iv={iv}"
                show(lab + " map", lambda: dep.source_path_map(lib_prefix=prefix, include_version=iv))
                show(lab + " dict", lambda: dep.as_dict(lib_prefix=prefix, include_version=iv))
                show(lab + " tags", lambda: str(dep.as_html_tags(lib_prefix=prefix, include_version=iv)))
        show(key + " default map", dep.source_path_map)
        show(key + " default dict", dep.as_dict)
        show(key + " str", lambda: str(dep))
        # as_dict must not alias / mutate the dependency's own items
        before = repr((dep.script, dep.stylesheet, dep.meta))
        try:
            d = dep.as_dict()
            for it in d["script"] + d["stylesheet"]:
                it["zz"] = 1
        except BaseException:
            pass
        print(key, "unchanged", before == repr((dep.script, dep.stylesheet, dep.meta)))


def section_copy():
    print("== copy_to")
    n = 0
    for key, dep in mk().items():
        for iv in (True, False):
            n += 1
            target = os.path.join(ROOT, "copy%d" % n)
            os.makedirs(target)
            # stale contents of the target directories, and a bystander
            for nm in ("plain", "multi", "all", "alln", "allm", "alle", "missing", "missingcss",
                       "dirsrc", "nofiles", "url", "nosrc", "pkg", "mut", "relsub", "abss"):
                for suffix in ("", "-" + str(dep.version)):
                    write(os.path.join(target, nm + suffix, "stale", "old.txt"), b"stale")
            write(os.path.join(target, "bystander", "keep.txt"), b"keep")
            before = tree(target)
            show(f"{key} iv={iv} copy_to", lambda: dep.copy_to(target, include_version=iv))
            after = tree(target)
            print("   touched:", before != after)
            for item in after:
                if item not in before:
                    print("   +", item)
            for item in before:
                if item not in after:
                    print("   -", item)
    # default include_version, relative path and a Path target
    dep = mk()["multi"]
    cwd = os.getcwd()
    os.chdir(ROOT)
    try:
        show("rel copy_to", lambda: dep.copy_to("reltarget"))
        print(tree(os.path.join(ROOT, "reltarget")))
        show("Path copy_to", lambda: dep.copy_to(Path(ROOT) / "pathtarget", False))  # type: ignore
        print(tree(os.path.join(ROOT, "pathtarget")))
        # target is a file
        write(os.path.join(ROOT, "filetarget", "multi-2.0"), b"i am a file")
        show("file-in-the-way copy_to", lambda: dep.copy_to(os.path.join(ROOT, "filetarget")))
        print(tree(os.path.join(ROOT, "filetarget")))
        # copy twice: second replaces first
        show("again copy_to", lambda: dep.copy_to("reltarget"))
        print(tree(os.path.join(ROOT, "reltarget")))
    finally:
        os.chdir(cwd)


def check_saved(file):
    """Resolve every local URL of the written file against the file's directory."""
    with open(file) as fh:
        html = fh.read()
    print("   html:", clean(html).replace("\n", "\\n"))
    base = os.path.dirname(os.path.realpath(file))
    for url in re.findall(r'(?:src|href)="([^"]*)"', html):
        if re.match(r"^(https?:)?/", url):
            print("   url", url, "(not local)")
            continue
        p = os.path.join(base, urllib.parse.unquote(url))
        print("   url", url, "exists" if os.path.isfile(p) else "MISSING",
              open(p, "rb").read() if os.path.isfile(p) else None)


def section_save():
    print("== save_html")
    n = 0
    deps = mk()
    combos = [
        ["plain"], ["multi", "url", "nosrc"], ["all", "plain"], ["headonly"], [],
        ["missing", "plain"], ["plain", "missing"], ["odd name"], ["all_empty", "pkg_none"],
        ["plain", "plain"], ["intname_nosrc"], ["nokey"],
    ]
    for combo in combos:
        for libdir in ("lib", None, "", "my lib/x", "../up"):
            for iv in (True, False):
                for kind in ("doc", "tag", "list", "htmltag", "bodytag"):
                    n += 1
                    if n % 3 and kind in ("htmltag", "bodytag") and libdir not in ("lib", None):
                        continue
                    outdir = os.path.join(ROOT, "save%d" % n, "site")
                    os.makedirs(outdir)
                    file = os.path.join(outdir, "index.html")
                    ds = [deps[k] for k in combo]
                    if kind == "doc":
                        obj = HTMLDocument(div("x", *ds), lang="en")
                    elif kind == "tag":
                        obj = div("x", *ds, id="t")
                    elif kind == "list":
                        obj = TagList("x", *ds, div("y"))
                    elif kind == "htmltag":
                        obj = tags.html(tags.body("b", *ds), tags.head(tags.title("T")))
                    else:
                        obj = tags.body("b", *ds, class_="c")
                    # stale content
                    stale_base = os.path.join(outdir, libdir) if libdir else outdir
                    write(os.path.join(stale_base, "plain-1.2.3", "old.txt"), b"stale")
                    write(os.path.join(stale_base, "plain", "old.txt"), b"stale")
                    lab = f"{combo} libdir={libdir!r} iv={iv} {kind}"

                    def run():
                        if kind == "doc":
                            return obj.save_html(file, libdir, iv)
                        return obj.save_html(file, libdir=libdir, include_version=iv)

                    show(lab, run)
                    if os.path.exists(file):
                        check_saved(file)
                    print("   tree:", tree(os.path.dirname(outdir)))
    # defaults, relative file names
    cwd = os.getcwd()
    os.chdir(ROOT)
    try:
        show("default doc", lambda: HTMLDocument(deps["plain"]).save_html("d.html"))
        show("default tag", lambda: div(deps["plain"]).save_html("t.html"))
        show("default list", lambda: TagList(deps["plain"]).save_html("l.html"))
        show("positional libdir tag", lambda: div().save_html("t.html", "lib"))  # type: ignore
        show("positional libdir list", lambda: TagList().save_html("t.html", "lib"))  # type: ignore
        show("nonexistent dir", lambda: div(deps["plain"]).save_html("nodir/t.html"))
        show("Path file", lambda: div(deps["plain"]).save_html(Path("p.html")))  # type: ignore
        show("bytes file", lambda: div(deps["plain"]).save_html(b"b.html"))  # type: ignore
        show("dir file", lambda: TagList(deps["plain"]).save_html("src"))
        print(tree(ROOT)[:0], sorted(os.listdir(ROOT))[:0])
        print([t[0] for t in tree(ROOT) if not t[0].startswith(("save", "copy", "src"))])
    finally:
        os.chdir(cwd)


def section_render():
    print("== render / hoisting")
    deps = mk()
    p, m, u = deps["plain"], deps["multi"], deps["url"]
    objs = {
        "doc": HTMLDocument(div(p, m), u),
        "doc_html": HTMLDocument(tags.html(p, tags.head(tags.title("x")), tags.body(m))),
        "doc_html_nohead": HTMLDocument(tags.html(tags.body(m), p)),
        "doc_html_twoheads": HTMLDocument(tags.html(tags.div(), tags.head("1"), tags.head("2"), p)),
        "doc_body": HTMLDocument(tags.body(m, "z"), lang="fr"),
        "doc_nodeps": HTMLDocument(div("q")),
        "doc_empty": HTMLDocument(),
        "doc_dupe": HTMLDocument(p, mk()["plain"], HTMLDependency("plain", "9.9")),
    }
    for k, o in objs.items():
        for prefix in ("lib", None, "x/y"):
            for iv in (True, False):
                show(f"{k} {prefix!r} {iv}", lambda: o.render(lib_prefix=prefix, include_version=iv))
        show(f"{k} default", o.render)
    show("hoist non-html", lambda: HTMLDocument._hoist_head_content(div(), "lib", True))
    show("hoist intname", lambda: HTMLDocument(deps["intname_nosrc"]).render())
    x = tags.html(tags.head("h"), p)
    r = HTMLDocument._hoist_head_content(x, None, False)
    print("original untouched:", str(x).replace("\n", "\\n"))
    print("result:", clean(str(r)).replace("\n", "\\n"))


def main():
    try:
        section_urls()
        section_copy()
        section_save()
        section_render()
    finally:
        shutil.rmtree(ROOT, ignore_errors=True)
        sys.modules.pop("no_such_pkg_zzz", None)


main()
