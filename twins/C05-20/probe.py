# Probe for refactoring 5: TagList.tagify (the copy/expand step every render goes through)
import itertools
from htmltools import HTML, Tag, TagList, HTMLDependency, div, span, a, p, tags

events = []


class Repr:
    def __init__(self, s):
        self.s = s

    def _repr_html_(self):
        return self.s


class T:
    """Tagifiable that records when it is expanded."""

    def __init__(self, name, out):
        self.name = name
        self.out = out

    def tagify(self):
        events.append(("tagify", self.name))
        out = self.out() if callable(self.out) else self.out
        if isinstance(out, BaseException):
            raise out
        return out


class Mutator:
    """Tagifiable that changes the list it came from while being expanded."""

    def __init__(self):
        self.owner = None

    def tagify(self):
        events.append(("mutator", len(self.owner)))
        self.owner.append("added-by-mutator")
        del self.owner[0]
        return span("mut")


def describe(x):
    if isinstance(x, TagList):
        return ["TL"] + [describe(c) for c in x]
    if isinstance(x, Tag):
        return [f"<{x.name} ws={x.add_ws}>"] + [describe(c) for c in x.children]
    if isinstance(x, HTMLDependency):
        return f"dep:{x.name}"
    if isinstance(x, (str, HTML)):
        return f"{type(x).__name__}:{x}"
    return type(x).__name__


def show(label, fn):
    try:
        r = fn()
        if isinstance(r, (Tag, TagList)):
            print(label, "->", describe(r))
        else:
            print(label, "->", type(r).__name__, repr(r))
    except BaseException as e:  # noqa
        print(label, "!!", type(e).__name__, str(e))
    if events:
        print("   events:", events)
        events.clear()


dep1 = HTMLDependency("d1", "1.0", source={"subdir": "."}, script={"src": "x.js"})
dep2 = HTMLDependency("d2", "2.0", source={"subdir": "."}, stylesheet={"href": "x.css"})

makers = {
    "s": lambda: "txt",
    "h": lambda: HTML("<h>"),
    "r": lambda: Repr("<r/>"),
    "i": lambda: span("in"),
    "b": lambda: div("bl"),
    "d": lambda: dep1,
    "0": lambda: T("t0", TagList()),
    "1": lambda: T("t1", lambda: TagList(span("one"))),
    "3": lambda: T("t3", lambda: TagList("x", div("y"), dep2, [None, 7])),
    "t": lambda: T("tt", lambda: span("single")),
    "S": lambda: T("ts", "plain-str"),
    "H": lambda: T("th", HTML("<raw>")),
    "D": lambda: T("td", dep2),
    "n": lambda: T("tn", lambda: TagList(T("inner", lambda: span("nested")), "after")),
    "w": lambda: T("tw", lambda: div(T("deep", lambda: TagList("a", span("b"))), "c")),
}
keys = sorted(makers)
for n in range(0, 4):
    for combo in itertools.product(keys, repeat=n):
        if n == 3 and len(set(combo) & set("013tSHDnw")) < 2:
            continue
        name = "".join(combo)
        tl = TagList(*[makers[k]() for k in combo])
        before = describe(tl)
        show(f"tagify[{name}]", lambda: tl.tagify())
        if describe(tl) != before:
            print("   ORIGINAL CHANGED", name)
        show(f"render[{name}]", lambda: tl.render()["html"])
        show(f"in div[{name}]", lambda: str(div(*[makers[k]() for k in combo])))
        show(f"in span[{name}]", lambda: str(span(*[makers[k]() for k in combo])))

# identity: tags and dependencies are copied, text is kept, original list untouched
sp, dv, r = span("a"), div("b"), Repr("r")
tl = TagList("s", sp, dv, dep1, r, HTML("h"))
out = tl.tagify()
print(
    "identity:",
    [o is i for o, i in zip(out, tl)],
    [o == i for o, i in zip(out, tl)],
    out is tl,
    out.data is tl.data,
    len(out),
    len(tl),
)

# errors half-way: the later children have been expanded already, earlier ones never are
show(
    "raise in middle",
    lambda: TagList(T("first", span("f")), T("boom", ValueError("boom")), T("last", span("l"))).tagify(),
)
show(
    "non-TagList odd result",
    lambda: TagList(T("none", lambda: None), T("int", lambda: 5), T("list", lambda: ["a", "b"])).tagify(),
)
show("odd result rendered", lambda: str(TagList("a", T("int", lambda: 5))))
bad = TagList("ok")
bad.data.append(object())
show("TagList result with invalid item", lambda: TagList(T("x", span("never")), T("bad", bad), T("z", span("z"))).tagify())
show("tagify returns self-like TagList", lambda: TagList(T("same", lambda: TagList(T("again", lambda: TagList("end"))))).tagify())

# a child that mutates the list it came from while being expanded
m = Mutator()
owner = TagList("first", "second", m, "fourth", T("tail", span("tail")))
m.owner = owner
show("mutator", lambda: owner.tagify())
show("owner afterwards", lambda: owner)
m.owner = TagList("unrelated", "x")
show("mutator again", lambda: owner.tagify())

# children put in behind the API
odd = TagList("a")
odd.data.extend([None, 5, T("late", span("late"))])
show("odd children", lambda: odd.tagify())

# Tag.tagify goes through the same path; add_ws is preserved on the copies
t = Tag("section", "a", T("k", lambda: TagList(span("k1"), "k2")), span(T("q", "q!")), _add_ws=False)
show("Tag.tagify", lambda: t.tagify())
show("Tag original", lambda: t)
show("Tag str", lambda: str(t))
inline = span("x", a("y"), T("z", lambda: TagList(HTML("<b>z</b>"), Repr("<i>w</i>"))), "  sp  ")
flat = str(inline)
print(repr(flat))
for out in (
    str(div(inline)),
    str(div("t", inline, div(inline))),
    str(TagList(inline, inline)),
    str(p(T("wrap", lambda: inline.tagify()))),
):
    print(out.count(flat), repr(out))
events.clear()
# a tagify() result is not expanded again: a Tagifiable left inside it is an error at render time
show("unexpanded result", lambda: str(p(T("wrap", inline))))
print("events left:", len(events))
