"""Deterministic probe for the JSX component code (htmltools/_jsx.py).

Prints repr()s of outputs / exception type names only.  Uses only entry points
whose signature is the same on the unmodified and on the patched tree.
"""

import copy
import sys

import htmltools
from htmltools import (
    HTML,
    HTMLDependency,
    HTMLDocument,
    Tag,
    TagList,
    css,
    div,
    span,
    tags,
)
from htmltools import _jsx
from htmltools._jsx import (
    JSXTag,
    JSXTagAttrDict,
    jsx,
    jsx_tag_create,
    _serialize_attr,
    _serialize_style_attr,
    _walk_attrs_and_children,
)

CALL_RENDER_DIRECTLY = True  # overwritten per refactoring


def show(label, fn):
    try:
        res = fn()
    except BaseException as e:  # noqa: BLE001
        print(label, "-> EXC", type(e).__name__, repr(str(e)))
    else:
        print(label, "->", repr(res))


Foo = jsx_tag_create("Foo")
Bar = jsx_tag_create("Bar")
Lim = jsx_tag_create("Lim", allowedProps=["a", "class_", "style"])
NoProps = jsx_tag_create("NoProps", allowedProps=[])


def dep(name="d1"):
    return HTMLDependency(name=name, version="1.0")


class Widget:
    """Tagifiable, not a Tag/JSXTag; expands to a tag with a dependency."""

    def __init__(self, n):
        self.n = n
        self.calls = 0

    def __repr__(self):
        return "<Widget %d>" % self.n

    def tagify(self):
        self.calls += 1
        return span("w%d" % self.n, dep("wdep%d" % self.n), id="w%d" % self.n)


class JSXWidget:
    def tagify(self):
        return Bar("inner", dep("jw"), x=1)


class DepWidget:
    def tagify(self):
        return dep("bare")


class StrSub(str):
    pass


class ReplSub(str):
    """str subclass whose replace() is observable."""

    def replace(self, old, new, *a):
        return "<R %s|%s|%s>" % (str(self), old, new)


class SplitSub(str):
    """str subclass whose split() yields a non-string piece."""

    def split(self, sep=None, maxsplit=-1):
        if sep == ";":
            return [1, "a:b"]
        return str.split(self, sep, maxsplit)


class OddStr:
    def __str__(self):
        return ReplSub("from-odd")


class Odd:
    def __str__(self):
        return 'odd "thing"'


# ---------------------------------------------------------------- construction
print("== construction")
show("name lower", lambda: JSXTag("foo"))
show("name dotted lower", lambda: JSXTag("Foo.bar"))
show("name dotted upper", lambda: JSXTag("foo.Bar").name)
show("name empty", lambda: JSXTag("").name)
show("name trailing dot", lambda: JSXTag("Foo.").name)
show("name digit", lambda: JSXTag("1x").name)
show("name underscore", lambda: JSXTag("_x").name)
show("name nonstr", lambda: JSXTag(None))
show("name int", lambda: JSXTag(3))
show("allowed ok", lambda: dict(Lim(a=1, class_="k").attrs))
show("allowed bad", lambda: Lim(b=1))
show("allowed bad second", lambda: Lim(a=1, zz=2, b=3))
show("allowed normalised name rejected", lambda: Lim(**{"class": "x"}))
show("allowed empty list", lambda: dict(NoProps(q=1).attrs))
show("allowed tuple", lambda: dict(JSXTag("T", allowedProps=("a",), a=1).attrs))
show("allowed tuple bad", lambda: JSXTag("T", allowedProps=("a",), b=1))
show("allowed str", lambda: dict(JSXTag("T", allowedProps="abc", b=1).attrs))
show("allowed str bad", lambda: JSXTag("T", allowedProps="abc", d=1))
show("create_tag name", lambda: (Foo.__name__, Lim.__name__))
show("children flattening", lambda: list(Foo("a", ["b", [None, 3]], TagList("c"), 1.5).children))
show("bad name before bad prop", lambda: JSXTag("lim", allowedProps=["a"], b=1))

# ---------------------------------------------------------------- attr dict
print("== JSXTagAttrDict")
show("init", lambda: dict(JSXTagAttrDict(class_="a", data_x=1, for_="f", _lead=2, a__b_=3, __=4, _=5)))
show("init empty", lambda: dict(JSXTagAttrDict()))


def attrdict_ops():
    d = JSXTagAttrDict(a_b=1)
    d["c_d_"] = 2
    d["_"] = 3
    d[""] = 4
    d.update({"e_f": 5, "a_b": 6}, {"g_": 7}, h_i=8, a_b_=9)
    d.update()
    d.update({})
    out = [list(d.items())]
    d2 = JSXTagAttrDict()
    d2.update({"x_y": 1, "x-y": 2, "x_y_": 3})
    out.append(list(d2.items()))
    return out


show("ops", attrdict_ops)
show("update non-mapping", lambda: JSXTagAttrDict().update(StrSub("k_k_")))
show("update pairs", lambda: JSXTagAttrDict().update([("a", 1)]))
show("update nonstr key", lambda: JSXTagAttrDict().update({1: 2}))
show("setitem nonstr key", lambda: JSXTagAttrDict().__setitem__(1, 2))


def attrdict_subkey():
    d = JSXTagAttrDict()
    d[StrSub("q_r_")] = 1
    d.update({StrSub("nosuffix"): 2, StrSub("s_t"): 3})
    return [(type(k).__name__, k, v) for k, v in d.items()]


show("str-subclass keys", attrdict_subkey)
show("type of update result", lambda: JSXTagAttrDict(a=1).update(b=2))
show("setdefault bypass", lambda: dict(JSXTagAttrDict(a_b=1), c_d=2))
show("normalize static", lambda: [JSXTagAttrDict._normalize_attr_name(n) for n in ("", "_", "__", "a_", "a__", "_a", "a_b_c", "a-b_", "A_B")])
show("normalize static kw", lambda: JSXTagAttrDict()._normalize_attr_name(x="k_w_"))
show("normalize is function", lambda: type(JSXTagAttrDict.__dict__["_normalize_attr_name"]).__name__)


class UpperAttrDict(JSXTagAttrDict):
    @staticmethod
    def _normalize_attr_name(x):
        return x.upper()


def upper_ops():
    d = UpperAttrDict(a_b=1)
    d["c_d"] = 2
    d.update({"e_f": 3}, g_h=4)
    return list(d.items())


show("subclass override normalize", upper_ops)
if hasattr(JSXTagAttrDict, "_update"):
    show("_update direct", lambda: (lambda d: (d._update({"m_n_": 1}), dict(d)))(JSXTagAttrDict()))

# ---------------------------------------------------------------- serialisers
print("== _serialize_attr")
vals = [
    None,
    True,
    False,
    0,
    1,
    -3,
    2.0,
    float("inf"),
    float("nan"),
    1e100,
    "",
    "plain",
    'with "quotes" and \'single\'',
    StrSub('sub"class'),
    jsx("() => 1"),
    jsx("a", "b"),
    jsx('"q"'),
    [],
    (),
    [1, "a", None, True, [2, (3,)]],
    (jsx("x"), {"k": jsx("y")}),
    {},
    {"a": 1, "b": {"c": [True, None]}},
    {1: 2, None: 3, True: 4, 2.5: "v", (1, 2): "t"},
    {'k"q': 'v"q'},
    {StrSub("sk"): 1},
    Odd(),
    ReplSub('rs"'),
    OddStr(),
    [ReplSub("in-list")],
    {ReplSub("k"): ReplSub("v")},
    b"bytes",
    3 + 4j,
    {1, 2}.__class__(),
    frozenset(),
    range(3),
    HTML("<b>&</b>"),
    HTML('he said "hi"'),
    css(color="red", font_size="12px"),
    TagList("a", "b"),
    dep(),
    Foo(),
    Foo("x", a=1),
    span(),
    span("t", class_="c"),
    div(Foo(span("deep")), id="i"),
    [Foo(), span()],
    {"t": Bar(k=[span()])},
    Widget(1),
    object,
    Ellipsis,
]
for i, v in enumerate(vals):
    show("attr %02d %s" % (i, type(v).__name__), lambda v=v: _serialize_attr(v))

print("== _serialize_style_attr")
styles = [
    None,
    "",
    ";",
    "color:red",
    "color:red;",
    "color: red; font-size: 12px",
    " color : red ;; ",
    "novalue",
    "novalue;color:blue",
    "a:b:c",
    "a:b;c:d:e",
    "a:b;a:c",
    ":",
    "::",
    ":;:",
    'q:"x"',
    StrSub("k:v"),
    SplitSub("x:y;z:w"),
    "a:b\nc:d;e\n:f",
    "url(http://x)",
    css(color="red", margin_top="1px"),
    css(),
    {},
    {"color": "red"},
    {"a": 1, "b": None, "c": True, "d": [1], "e": {"f": jsx("g")}},
    {"t": span()},
    HTML("color:red"),
    jsx("color:red"),
    1,
    1.5,
    True,
    [("a", "b")],
    (),
    b"a:b",
    Foo(),
    span(),
]
for i, v in enumerate(styles):
    show("style %02d %s" % (i, type(v).__name__), lambda v=v: _serialize_style_attr(v))

# ---------------------------------------------------------------- direct render
if CALL_RENDER_DIRECTLY:
    print("== _render_react_js")
    from htmltools._jsx import _render_react_js

    nodes = [
        "",
        "txt",
        'q"q',
        StrSub('s"s'),
        jsx("`e`"),
        ReplSub('child"'),
        Foo(ReplSub("c"), a=ReplSub("p")),
        dep(),
        Foo(),
        Foo(a=1),
        Foo("c"),
        Foo(dep()),
        Foo(dep(), "c", dep("d2")),
        Foo(span("a", "b"), Bar(Foo()), style="a:b", x_y_=None),
        span(),
        span(class_="k"),
        span("c", dep(), id="i", style="color:red"),
        tags.input(type="checkbox", checked=True, disabled=False, value=None),
        div(div(div("x"))),
        HTML("<b>"),
        TagList("a"),
        None,
        3,
        2.5,
        Widget(2),
        Foo(HTML("raw")),
        Foo(Widget(3)),
        Foo(a=Widget(3)),
        Foo(style=3),
        Foo("ok", Foo(style=[1])),
    ]
    for i, n in enumerate(nodes):
        for indent, eol in ((0, "\n"), (2, "\n"), (1, ""), (3, "\r\n"), (0, " ")):
            show(
                "render %02d %s %d %r" % (i, type(n).__name__, indent, eol),
                lambda n=n, indent=indent, eol=eol: _render_react_js(n, indent, eol=eol),
            )

# ---------------------------------------------------------------- walk
print("== _walk_attrs_and_children")


def walk_trace(x):
    seen = []

    def fn(y):
        seen.append(type(y).__name__ + ":" + (y if isinstance(y, str) else getattr(y, "name", "?")))
        return copy.copy(y)

    res = _walk_attrs_and_children(x, fn)
    return seen, res is x, str(res) if not isinstance(res, (Widget, int)) else repr(type(res))


walk_inputs = [
    "s",
    3,
    dep(),
    Widget(4),
    span(),
    span("a", span("b", Foo("c", p=span("d"))), dep("z")),
    Foo(),
    Foo("a", Bar("b", q=Foo(r=span("deep"))), span(Foo("e")), k1=1, k2=[span("not walked")], k3=span("walked")),
]
for i, w in enumerate(walk_inputs):
    show("walk %02d" % i, lambda w=w: walk_trace(w))


def walk_identity():
    # fn returning the same object: the walk mutates in place
    t = Foo("a", span("b"), k=Bar("c"))
    order = []

    def fn(y):
        order.append(id(y) == id(t))
        return y

    r = _walk_attrs_and_children(t, fn)
    return r is t, order, str(t)


show("walk identity", walk_identity)


def walk_replace():
    t = Foo("a", span("b", "a"), k="a", style="a")
    r = _walk_attrs_and_children(copy.deepcopy(t), lambda y: "A!" if y == "a" else y)
    return str(r), list(r.attrs.items()), list(r.children)


show("walk replace", walk_replace)
show("walk fn raises", lambda: _walk_attrs_and_children(Foo("a", span(1 and "b")), lambda y: 1 / 0 if y == "b" else y))

# ---------------------------------------------------------------- tagify / str
print("== tagify")


def snapshot(x):
    """Structural snapshot of a component tree (for purity checks)."""
    if isinstance(x, JSXTag):
        return ("JSX", x.name, [(k, snapshot(v)) for k, v in x.attrs.items()], [snapshot(c) for c in x.children])
    if isinstance(x, Tag):
        return ("Tag", x.name, list(x.attrs.items()), [snapshot(c) for c in x.children])
    if isinstance(x, (list, tuple)):
        return (type(x).__name__, [snapshot(c) for c in x])
    if isinstance(x, dict):
        return ("dict", [(k, snapshot(v)) for k, v in x.items()])
    if isinstance(x, Widget):
        return ("Widget", x.n)
    if isinstance(x, HTMLDependency):
        return ("dep", x.name)
    return (type(x).__name__, repr(x))


def ids(x, acc=None):
    acc = [] if acc is None else acc
    acc.append(id(x))
    if isinstance(x, JSXTag):
        acc.append(id(x.attrs))
        acc.append(id(x.children))
        for v in x.attrs.values():
            ids(v, acc)
        for c in x.children:
            ids(c, acc)
    elif isinstance(x, Tag):
        acc.append(id(x.attrs))
        acc.append(id(x.children))
        for c in x.children:
            ids(c, acc)
    return acc


def full(x):
    before, before_ids = snapshot(x), ids(x)
    t = x.tagify()
    s1 = str(t)
    s2 = str(x)
    r = repr(x)
    h = x._repr_html_()
    after, after_ids = snapshot(x), ids(x)
    deps = [(d.name, str(d.version), d.source, d.script) for d in t.get_dependencies()]
    kids = [type(c).__name__ for c in t.children]
    return (
        s1,
        s1 == s2 == r == h,
        before == after,
        before_ids == after_ids,
        t.name,
        list(t.attrs.items()),
        kids,
        deps,
    )


w5 = Widget(5)
w6 = Widget(6)
shared_dep = dep("shared")
components = [
    Foo(),
    Foo(a=1),
    Foo("only child"),
    Foo(None),
    Foo([]),
    Foo(""),
    Foo("a", "", "b"),
    Foo(dep("only-meta")),
    Foo(dep("m1"), "x", dep("m2"), p=dep("m3")),
    Foo(shared_dep, span(shared_dep), p=Bar(shared_dep)),
    Foo(span(), "childtext", jsx("`childexpression`"), Foo(), [Foo(), Bar()], TagList(Foo(), Bar()),
        span(Foo(span()), Bar()), int=1, float=2.0, bool=True, None_=None, string="string", list=[1, 2, 3]),
    Foo("Hello", span("world"), dict={"a": 1, "b": 2}, jsxTag=Bar(), style=css(color="red")),
    Foo(style=None),
    Foo(style=""),
    Foo(style={"a": "b"}, class_="c", data_x_y="d", for_="e", aria_label_="f"),
    Foo(tagProp=span("p", dep("in-tag-prop"), id="x"), jsxProp=Bar(span(dep("in-jsx-prop")), z=jsx("z()"))),
    Foo(listProp=[span(dep("hidden-in-list"))], dictProp={"k": Bar(dep("hidden-in-dict"))}),
    Foo(w5, span(w6), p=Widget(7)),
    Foo(JSXWidget(), q=JSXWidget()),
    Foo(DepWidget(), "after"),
    Foo(p=DepWidget()),
    Foo(div(div(div(Bar(div("deep", dep("deep-dep"))))))),
    Foo('quo"te', p='quo"te', q={'k"': 'v"'}, r=['l"']),
    Foo("unié中", p="é"),
    Foo("<&>", p="<&>", q=HTML("<&>")),
    Foo(1, 2.5, True),
    Foo(StrSub("sub")),
    Foo(ReplSub("rc"), p=ReplSub("rp"), q=OddStr()),
    Foo(tags.script("alert(1)"), tags.style("a{}")),
    Foo(tags.head(tags.title("t"))),
    JSXTag("Ns.Comp", "c", a=1),
    JSXTag("Weird\"Name'", a=1),
    Lim("c", a=[1], class_="k", style="x:y"),
    Foo(b=True, c=False, d=0, e=-1.5e-7, f=(), g={}, h=[[]], i=[{}], j={"n": None}),
    Foo(Bar(Bar(Bar(a=Bar(a=Bar("leaf")))))),
]
for i, c in enumerate(components):
    show("comp %02d" % i, lambda c=c: full(c))
show("widget call counts", lambda: (w5.calls, w6.calls))

print("== tagify errors")
bad = [
    Foo(HTML("raw")),
    Foo(span(HTML("raw"))),
    Foo(style=3),
    Foo(style=[("a", "b")]),
    Foo(style="a:b:c"),
    Foo(Bar(style=True)),
    Foo(p=Bar(HTML("x"))),
    Foo(p=span(HTML("x"))),
]
for i, c in enumerate(bad):
    show("bad %02d" % i, lambda c=c: str(c))
    show("bad %02d snapshot" % i, lambda c=c: snapshot(c))

# ---------------------------------------------------------------- mutation after build
print("== append / extend / insert / attrs mutation")


def mutate():
    x = Foo("a", k_=1)
    x.append("b", span("c"))
    x.extend(["d", [Bar(), None]])
    x.extend([])
    x.extend(iter(["it"]))
    x.children.insert(0, "first")
    x.children.append(dep("late"))
    x.attrs["new_attr_"] = jsx("f")
    x.attrs.update({"data_a": 1}, style="p:q")
    x.attrs["k"] = 2
    return str(x), list(x.attrs.items()), [type(c).__name__ for c in x.children]


show("mutate", mutate)
show("append nothing", lambda: Foo().append())
show("extend non-iterable", lambda: Foo().extend(3))
show("extend string", lambda: list((lambda x: (x.extend("ab"), x)[1])(Foo()).children))

# ---------------------------------------------------------------- copy
print("== copy")


def copying():
    inner = span("s")
    x = Foo("a", inner, k=[1], t=inner)
    x.extra = {"z": 1}
    y = copy.copy(x)
    res = [
        type(y) is type(x),
        y is x,
        y.attrs is x.attrs,
        y.children is x.children,
        y.attrs == x.attrs,
        list(y.children) == list(x.children),
        y.children[1] is inner,
        y.attrs["t"] is inner,
        y.attrs["k"] is x.attrs["k"],
        type(y.attrs).__name__,
        type(y.children).__name__,
        y.name,
        y.extra is x.extra,
        y.extra == x.extra,
        list(y.__dict__.keys()),
    ]
    y.append("only-in-copy")
    y.attrs["only_"] = 1
    res.append(str(x))
    res.append(str(y))
    z = copy.deepcopy(x)
    res.append(str(z) == str(x))
    res.append(z.children[1] is inner)
    return res


show("copy", copying)


class SubJSX(JSXTag):
    def __str__(self):
        return "custom-str"


def subclass():
    s = SubJSX("Sub", "c", a=1)
    c = copy.copy(s)
    return str(s), repr(s), s._repr_html_(), type(c).__name__, str(c.tagify()) == str(JSXTag("Sub", "c", a=1).tagify())


show("subclass", subclass)

# ---------------------------------------------------------------- embedding
print("== embedding in documents / tags")


def embed():
    x = div(Foo("in div", p=span(dep("pd"))), Bar(), id="outer")
    r1 = x.render()
    doc = HTMLDocument(TagList(Foo(Bar("n", dep("n1"))), span("after"))).render()
    return (
        r1["html"],
        [d.name for d in r1["dependencies"]],
        doc["html"],
        [d.name for d in doc["dependencies"]],
    )


show("embed", embed)
show("TagList str", lambda: str(TagList(Foo(), "t", Bar(a=1))))


def deep(n, kind):
    x = "leaf"
    for i in range(n):
        if kind == 0:
            x = Foo(x, depth=i)
        elif kind == 1:
            x = Foo(p=x)
        else:
            x = Foo(span(x)) if i % 2 else Bar(k=span(x, dep("dd%d" % i)))
    s = str(x)
    return len(s), s.count("createElement"), s[-200:], [d.name for d in x.tagify().get_dependencies()][:6]


for kind in range(3):
    show("deep %d" % kind, lambda kind=kind: deep(120, kind))
show("tagified twice equal", lambda: (lambda x: str(x.tagify()) == str(x.tagify()))(Foo(Widget(9), p=Widget(10))))

# ---------------------------------------------------------------- jsx str
print("== jsx")
show("jsx new", lambda: (jsx(), jsx("a"), jsx("a", "b", ""), type(jsx("a")).__name__))
show("jsx add", lambda: [(type(v).__name__, v) for v in (jsx("a") + jsx("b"), jsx("a") + "b", "a" + jsx("b"), jsx("a") + StrSub("c"))])
show("jsx add bad", lambda: jsx("a") + 1)
show("jsx nonstr", lambda: jsx(1))

# ---------------------------------------------------------------- deps
print("== lib dependency")
import os


def libdeps():
    out = []
    for d in Foo().tagify().get_dependencies():
        sp = d.source_path_map()
        out.append(
            (
                d.name,
                str(d.version),
                d.script,
                os.path.relpath(sp["source"], os.path.dirname(htmltools.__file__)),
                sp["href"],
                [os.path.isfile(os.path.join(sp["source"], s["src"])) for s in d.script],
            )
        )
    return out


show("libdeps", libdeps)
show("_lib_dependency unknown", lambda: _jsx._lib_dependency("nope", script={"src": "x.js"}))
show("_lib_dependency react", lambda: _jsx._lib_dependency("react", script={"src": "other.js"}).script)
show("module all", lambda: _jsx.__all__)
