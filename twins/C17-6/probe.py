"""Probe for C17 / refactoring 1: wrap_displayhook_handler and the Tag context manager."""
import sys

from htmltools import HTML, TagList, div, span, tags, wrap_displayhook_handler
from htmltools._core import MetadataNode

out = []


def show(label, value):
    print(f"{label}: {value}")


class Repr:
    def __init__(self, s):
        self.s = s

    def _repr_html_(self):
        return self.s


class Tagifiable:
    def tagify(self):
        return span("tagified")


class Both:
    def tagify(self):
        return span("both")

    def _repr_html_(self):
        return "<i>both-html</i>"


class EqAll:
    """Compares equal to everything (so it is `in (None, ...)`)."""

    def __eq__(self, other):
        return True

    __hash__ = None


class EqRaises:
    def __eq__(self, other):
        raise ValueError("ambiguous")


class Meta(MetadataNode):
    pass


class NoneSub:
    def __eq__(self, other):
        return other is None


def desc(x):
    from htmltools import Tag

    if isinstance(x, (str, HTML, Tag, TagList, int, float, list, tuple, dict, bytes)):
        return f"{type(x).__name__}:{str(x)!r}"
    return type(x).__name__


# ---- 1. the wrapper in isolation -------------------------------------------
seen = []
w = wrap_displayhook_handler(seen.append)
values = [
    None,
    ...,
    Ellipsis,
    "text",
    "",
    0,
    1,
    2.5,
    True,
    False,
    HTML("<b>x</b>"),
    div("a"),
    TagList("p", "q"),
    TagList(),
    Repr("<u>r</u>"),
    Tagifiable(),
    Both(),
    EqAll(),
    NoneSub(),
    Meta(),
    [1, 2],
    (),
    {"a": 1},
    object,
    NotImplemented,
    b"bytes",
]
for v in values:
    before = len(seen)
    try:
        r = w(v)
        new = seen[before:]
        show(
            f"wrap({type(v).__name__})",
            f"ret={r!r} n={len(new)} " + ",".join(desc(x) for x in new),
        )
    except Exception as e:
        show(f"wrap({type(v).__name__})", f"EXC {type(e).__name__}: {e}")
try:
    w(EqRaises())
    show("wrap(EqRaises)", "no exc")
except Exception as e:
    show("wrap(EqRaises)", f"EXC {type(e).__name__}: {e}")

# wrapper passes identical objects for pass-through values
d = div("same")
seen.clear()
w(d)
show("identity kept", seen[0] is d)
r = Repr("<x>")
seen.clear()
w(r)
show("repr -> HTML", (type(seen[0]).__name__, str(seen[0])))


# handler that raises propagates
def bad(v):
    raise KeyError("bad handler")


wb = wrap_displayhook_handler(bad)
for v in [None, ..., "x", Repr("r"), div()]:
    try:
        wb(v)
        show(f"bad({type(v).__name__})", "no exc")
    except Exception as e:
        show(f"bad({type(v).__name__})", f"EXC {type(e).__name__}")

# ---- 2. context manager -----------------------------------------------------
top = []
orig = sys.displayhook
base = top.append
sys.displayhook = base
try:
    outer = div(id="outer")
    inner = span(id="inner")
    with outer:
        h_outer = sys.displayhook
        show("hook replaced", h_outer is not base)
        sys.displayhook("a")
        sys.displayhook(None)
        sys.displayhook(...)
        sys.displayhook(1)
        sys.displayhook(2.5)
        sys.displayhook(Repr("<em>e</em>"))
        sys.displayhook(["l1", None, ("l2", [3])])
        with inner:
            show("inner hook differs", sys.displayhook is not h_outer)
            sys.displayhook("in1")
            sys.displayhook(HTML("<hr>"))
            sys.displayhook(Tagifiable())
            sys.displayhook(EqAll())
            try:
                sys.displayhook(object())
            except TypeError as e:
                show("invalid", f"TypeError: {e}")
            try:
                sys.displayhook({"a": 1})
            except TypeError as e:
                show("invalid dict", f"TypeError: {e}")
            try:
                sys.displayhook(b"b")
            except TypeError as e:
                show("invalid bytes", f"TypeError: {e}")
            sys.displayhook("in2")
        show("restored to outer", sys.displayhook is h_outer)
        show("inner prev cleared", inner.prev_displayhook is None)
        sys.displayhook("z")
    show("restored to base", sys.displayhook == base)
    show("top", [str(x) for x in top])
    show("top is outer", len(top) == 1 and top[0] is outer)
    show("outer html", repr(str(outer)))
    show("inner children", [type(c).__name__ for c in inner.children])

    # exception inside the block
    top.clear()
    t = div()
    try:
        with t:
            sys.displayhook("before")
            raise ZeroDivisionError("boom")
    except ZeroDivisionError as e:
        show("exc propagated", repr(e))
    show("after exc hook", sys.displayhook == base)
    show("after exc top", [str(x) for x in top])
    show("after exc prev", t.prev_displayhook)

    # nested exception
    top.clear()
    a, b, c = div(id="a"), div(id="b"), div(id="c")
    try:
        with a:
            with b:
                with c:
                    sys.displayhook("deep")
                    raise IndexError("deep")
    except IndexError:
        pass
    show("nested exc hook", sys.displayhook == base)
    show("nested exc", repr(str(top[0])) if len(top) == 1 else top)

    # re-entry
    top.clear()
    t = div(id="re")
    try:
        with t:
            hk = sys.displayhook
            try:
                with t:
                    show("re-entered", "unexpected")
            except RuntimeError as e:
                show("re-entry", f"RuntimeError: {e}")
            show("chain intact", sys.displayhook is hk)
            show("prev intact", t.prev_displayhook == base)
            sys.displayhook("still works")
    finally:
        pass
    show("re-entry after", (sys.displayhook == base, [str(x) for x in top]))

    # reuse after exit
    top.clear()
    with t:
        sys.displayhook("second time")
    show("reuse", [str(x) for x in top])

    # tag functions from `tags`
    top.clear()
    with tags.ul():
        with tags.li():
            sys.displayhook("one")
        with tags.li():
            sys.displayhook("two")
    show("ul", repr(str(top[0])))

    # __enter__ returns None
    t = div()
    with t as got:
        pass
    show("as-target", got)
finally:
    sys.displayhook = orig
