"""Probe for refactoring 5: TagList.get_html_string() handling of non-Tag children."""
import itertools
from collections import UserString

from htmltools import HTML, HTMLDependency, Tag, TagList, div, head_content, span, tags


def show(label, fn):
    try:
        res = fn()
        shown = str(res) if isinstance(res, UserString) else res
        print(label, "->", type(res).__name__, repr(shown))
    except Exception as e:  # noqa: BLE001
        print(label, "-> EXC", type(e).__name__)


class Repr:
    def __init__(self, s):
        self.s = s

    def _repr_html_(self):
        return self.s

    def __repr__(self):
        return f"Repr({self.s!r})"


class Tg:
    def tagify(self):
        return span("tg<")

    def __repr__(self):
        return "Tg()"


class Both:
    """Has tagify() and _repr_html_(): when left untagified, _repr_html_ wins."""

    def tagify(self):
        return span("both-tagified<")

    def _repr_html_(self):
        return "<both-repr>"

    def __repr__(self):
        return "Both()"


class Boom:
    def _repr_html_(self):
        raise KeyError("boom")

    def __repr__(self):
        return "Boom()"


class MyStr(str):
    pass


dep = HTMLDependency("probe-dep", "1.0", source={"subdir": "."}, script={"src": "x.js"})


def raw_taglist(*items):
    """TagList holding items exactly as given (no flattening/conversion)."""
    tl = TagList()
    tl.data = list(items)
    return tl


ITEMS = {
    "str": "a<b&c",
    "empty": "",
    "mystr": MyStr("<m>"),
    "html": HTML("<i>&amp;</i>"),
    "htmlempty": HTML(""),
    "repr": Repr("<r>&</r>"),
    "reprempty": Repr(""),
    "block": div("d<"),
    "inline": span("s<", _add_ws=False),
    "script": tags.script("if (a<b) {}"),
    "dep": dep,
    "hc": head_content("h<"),
    "both": Both(),
    "nested": TagList("n<", HTML("<n>")),
}

# 1. direct calls, all parameter combinations, pairs and triples of child kinds
PARAMS = [
    {},
    {"indent": 2},
    {"indent": 1, "eol": "|"},
    {"add_ws": False},
    {"indent": 3, "add_ws": False, "eol": "\r\n"},
    {"_escape_strings": False},
    {"indent": 2, "_escape_strings": False, "add_ws": False},
]
names = list(ITEMS)
combos = [(n,) for n in names] + list(itertools.product(names, repeat=2))
combos += list(itertools.permutations(["str", "html", "repr", "block", "inline", "dep"], 3))
for combo in combos:
    kids = [ITEMS[n] for n in combo]
    for kw in PARAMS:
        show(f"TagList{combo!r} {kw!r}", lambda: TagList(*kids).get_html_string(**kw))
    show(f"str TagList{combo!r}", lambda: str(TagList(*kids)))
    show(f"div{combo!r}", lambda: str(div(*kids)))
    show(f"span-nows{combo!r}", lambda: str(span(*kids, _add_ws=False)))
    show(f"script{combo!r}", lambda: Tag("script", *kids).get_html_string())
    show(f"style-indented{combo!r}", lambda: div(Tag("style", *kids)).get_html_string(1))

# 2. empty list
for kw in PARAMS:
    show(f"empty {kw!r}", lambda: TagList().get_html_string(**kw))
    show(f"only-metadata {kw!r}", lambda: TagList(dep, head_content("x")).get_html_string(**kw))

# 3. untagified / odd objects stored raw
RAW = {
    "tg": Tg(),
    "both": Both(),
    "boom": Boom(),
    "int": 5,
    "none": None,
    "list": ["<"],
    "bytes": b"<",
    "repr-none": Repr(None),
    "repr-int": Repr(3),
    "repr-html": Repr(HTML("<h>")),
}
for name, obj in RAW.items():
    for kw in PARAMS:
        show(f"raw {name} first {kw!r}", lambda: raw_taglist(obj, "t<").get_html_string(**kw))
        show(f"raw {name} last {kw!r}", lambda: raw_taglist("t<", obj).get_html_string(**kw))
        show(f"raw {name} after tag {kw!r}", lambda: raw_taglist(div("x"), obj, "u<").get_html_string(**kw))
    show(f"tagified {name}", lambda: str(TagList(obj, "t<")))
    show(f"in div {name}", lambda: str(div("t<", obj)))

# 4. bad indent only matters when indentation is actually written
show("indent None, add_ws", lambda: TagList("a<", Repr("<r>")).get_html_string(indent=None))
show("indent None, no ws", lambda: TagList("a<", Repr("<r>")).get_html_string(indent=None, add_ws=False))
show("indent str repr", lambda: TagList(Repr("<r>")).get_html_string(indent="x"))
show("indent str tg", lambda: raw_taglist(Tg()).get_html_string(indent="x"))
show("indent str boom", lambda: raw_taglist(Boom()).get_html_string(indent="x"))
show("eol None", lambda: TagList("a", div("b"), Repr("c")).get_html_string(eol=None))

# 5. other rendering entry points
tl = TagList("x<y", HTML("<b>"), Repr("<r>"), div("z<", HTML("<z>"), Repr("&")))
show("render", lambda: tl.render()["html"])
show("_repr_html_", lambda: tl._repr_html_())
show("repr", lambda: repr(tl))
show("doc", lambda: __import__("htmltools").HTMLDocument(tl).render()["html"])
