from htmltools import HTML, HTMLDependency, TagList, div, span, tags, head_content
from htmltools._jsx import (
    JSXTag,
    _render_react_js,
    _serialize_attr,
    jsx,
    jsx_tag_create,
)


def show(label, fn):
    try:
        res = fn()
        print(label, "->", repr(res))
    except BaseException as e:  # noqa
        print(label, "-> EXC", type(e).__name__, str(e))


Foo = jsx_tag_create("Foo")
Bar = jsx_tag_create("My.Bar")
dep = HTMLDependency("a", "1.1", source={"subdir": "foo"}, script={"src": "a1.js"})


class S(str):
    pass


class Obj:
    def __str__(self):
        return 'obj "quoted"'


class Boom:
    def __str__(self):
        raise StopIteration("stop")


cases = {
    "empty jsx": Foo(),
    "empty tag": div(),
    "dotted": Bar(),
    "only attrs": Foo(a=1),
    "only child": Foo("x"),
    "only metadata child": Foo(dep),
    "metadata children + attr": Foo(dep, head_content("x"), a=None),
    "strings": Foo("", 'say "hi"', "back\\slash", "new\nline", S('sub"'), "é ✓", "'single'"),
    "tag attrs": div("t", class_="c", id="i", data_x='q"q', hidden=True, style="color:red"),
    "tag style obj": Foo(div(style="a:b;c:d")),
    "nested": Foo(div(span("a", Foo("b", x=1), dep), "c"), Bar(Bar(Bar())), "tail"),
    "many attrs": Foo(
        a=None, b=True, c=False, d=1, e=1.5, f="s", g=[1, "2", None, [True]], h=(1,),
        i={"k": 1, "l": {"m": [1]}}, j=jsx("() => 1"), k=div("x", id="a"), l=Foo(z=1),
        style="color: red; border: 1px;", m=Obj(), n=float("inf"), o=-0.0, p=10**30,
        q='q"q', r=b"bytes", s=S("sub"), t={}, u=[], v=(),
    ),
    "style dict": Foo(style={"color": "red", "n": 1}),
    "style None": Foo(style=None),
    "style empty": Foo(style=""),
    "style first": Foo(style="a:b", z=1),
    "style jsx": Foo(style=jsx("a:b")),
    "number children": Foo(1, 2.5, None, [3, [4, "five"]]),
    "taglist child": Foo(TagList("a", div("b")), "c"),
    "script": Foo(tags.script("var x = \"1\";")),
}
for label, x in cases.items():
    for indent, eol in [(0, "\n"), (2, "\n"), (1, ""), (3, "\r\n"), (0, "<EOL>")]:
        show(f"{label} [{indent},{eol!r}]", lambda: _render_react_js(x, indent, eol))
    show(f"{label} str", lambda: str(x))

# direct node kinds
for label, node in [("str", 'a"b'), ("empty str", ""), ("S", S("x")), ("dep", dep), ("jsx str", jsx("a"))]:
    show("node " + label, lambda: _render_react_js(node, 2, "\n"))
for label, node in [("HTML", HTML("<b>")), ("int", 1), ("None", None), ("list", ["a"]), ("TagList", TagList("a")), ("bytes", b"a")]:
    show("bad node " + label, lambda: _render_react_js(node, 1, "\n"))

# untagified content
show("HTML child", lambda: str(Foo(HTML("<b>"))))
show("HTML grandchild", lambda: str(Foo(div(HTML("<b>")))))
show("HTML in attr tag", lambda: str(Foo(a=div(HTML("<b>")))))

# errors half-way through the props
show("bad style", lambda: str(Foo(a=1, style=5, b=Boom())))
show("bad style tuple", lambda: str(Foo(style="a:b:c")))
show("boom attr", lambda: str(Foo(a=1, b=Boom(), style=5)))
show("boom in list", lambda: str(Foo(a=[1, Boom()])))
show("boom in child attr", lambda: str(Foo(div(Foo(a=Boom())))))

# odd eol / indent
show("eol None leaf", lambda: _render_react_js(Foo(), 0, None))
show("eol None attrs", lambda: _render_react_js(Foo(a=1), 0, None))
show("eol None child", lambda: _render_react_js(Foo("a"), 0, None))
show("eol None meta child", lambda: _render_react_js(Foo(dep), 0, None))
show("indent neg", lambda: _render_react_js(Foo("a", b=1), -1, "\n"))
show("indent str", lambda: _render_react_js(Foo("a", b=1), "1", "\n"))
show("indent str leaf", lambda: _render_react_js(Foo(), "1", "\n"))

# state changed after construction
x = Foo("a", b=1)
x.name = 5
show("int name", lambda: _render_react_js(x, 0, "\n"))
y = Foo()
y.name = 5
show("int name empty", lambda: _render_react_js(y, 0, "\n"))
z = Foo(a=1)
z.attrs |= {3: "three", "raw_key": 2, "style": "x:y"}
show("raw keys", lambda: _render_react_js(z, 0, "\n"))
w = div("a")
w.name = None
show("None tag name", lambda: _render_react_js(w, 0, "\n"))
v = Foo("a", b=1)
del v.children
show("no children", lambda: _render_react_js(v, 0, "\n"))
v = Foo("a")
del v.attrs
show("no attrs", lambda: _render_react_js(v, 0, "\n"))
u = Foo("a", b=1)
u.children = ("x", "y")
u.attrs = {"style": None, "k": (1, 2)}
show("plain containers", lambda: _render_react_js(u, 1, "\n"))

# the fallback of _serialize_attr
for val in ['q"q', S('s"'), Obj(), b'b"', 1j, {1, }, frozenset(), range(2), Ellipsis, "\\", "\n"]:
    show("ser %r" % (val if not isinstance(val, Obj) else "Obj",), lambda: _serialize_attr(val))
show("ser Boom", lambda: _serialize_attr(Boom()))
