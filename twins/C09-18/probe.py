import copy
import sys

from htmltools import (
    HTML,
    HTMLDependency,
    HTMLDocument,
    MetadataNode,
    Tag,
    TagList,
    div,
    span,
    tags,
)

LOG = []


def show(label, fn):
    """Run fn, print repr of result or the exception type/message, plus call log."""
    del LOG[:]
    try:
        res = fn()
        out = repr(res)
    except BaseException as e:  # noqa: BLE001
        out = "EXC " + type(e).__name__ + ": " + str(e)
    print("## " + label)
    print(out)
    if LOG:
        print("   log:", LOG)


def dep(name, version="1.0"):
    return HTMLDependency(name, version, source={"subdir": "."}, script={"src": name + ".js"})


def rendered(x):
    r = x.render()
    return (type(r["html"]).__name__, str(r["html"]), [(d.name, str(d.version)) for d in r["dependencies"]])


def doc_rendered(*args, **kwargs):
    r = HTMLDocument(*args, **kwargs).render()
    return (type(r["html"]).__name__, str(r["html"]), [(d.name, str(d.version)) for d in r["dependencies"]])


class Tf:
    """Tagifiable returning a fixed value; logs the call order."""

    def __init__(self, name, value):
        self.name = name
        self.value = value

    def tagify(self):
        LOG.append("tagify:" + self.name)
        v = self.value
        return v() if callable(v) else v


class TfRepr(Tf):
    """Tagifiable that is also self-rendering."""

    def _repr_html_(self):
        LOG.append("repr_html:" + self.name)
        return "<i>" + self.name + "</i>"


class OnlyRepr:
    def __init__(self, name, value=None):
        self.name = name
        self.value = value

    def _repr_html_(self):
        LOG.append("repr_html:" + self.name)
        return "<b>" + self.name + "</b>" if self.value is None else self.value


class TfMeta(MetadataNode):
    """Both a MetadataNode and Tagifiable."""

    def __init__(self, name, value):
        self.name = name
        self.value = value

    def tagify(self):
        LOG.append("tagify:" + self.name)
        return self.value

    def __copy__(self):
        LOG.append("copy:" + self.name)
        return TfMeta(self.name + "'", self.value)


class Meta(MetadataNode):
    def __init__(self, name):
        self.name = name

    def __copy__(self):
        LOG.append("copy:" + self.name)
        return Meta(self.name + "'")

    def __repr__(self):
        return "Meta(" + self.name + ")"


class Boom:
    def __init__(self, name, exc):
        self.name = name
        self.exc = exc

    def tagify(self):
        LOG.append("tagify:" + self.name)
        raise self.exc


def raw(tl):
    """Structural dump of a TagList / Tag without going through render()."""
    if isinstance(tl, Tag):
        return ("Tag", tl.name, dict(tl.attrs), raw(tl.children))
    if isinstance(tl, TagList):
        return [raw(c) for c in tl.data]
    if isinstance(tl, HTMLDependency):
        return ("Dep", tl.name, str(tl.version))
    if isinstance(tl, (Tf, TfMeta, OnlyRepr, Boom)):
        return (type(tl).__name__, tl.name)
    if isinstance(tl, HTML):
        return ("HTML", tl.as_string())
    if tl is None or isinstance(tl, (str, int, float, list, tuple, dict)):
        return tl
    return "<" + type(tl).__name__ + ">"


# ------------------------------------------------- TagList.get_html_string paths
import itertools


class ReprRaises:
    def _repr_html_(self):
        LOG.append("repr_html:raises")
        raise LookupError("no markup")


class ReprBoth:
    """Has both tagify() and _repr_html_(): self-rendering wins when not expanded."""

    def tagify(self):
        LOG.append("tagify:both")
        return span("expanded-both")

    def _repr_html_(self):
        LOG.append("repr_html:both")
        return "<u>both</u>"


def put(*items):
    """TagList holding the items verbatim (no normalisation, no expansion)."""
    tl = TagList()
    tl.data = list(items)
    return tl


def ghs(tl, *a, **k):
    res = tl.get_html_string(*a, **k)
    return (type(res).__name__, str(res))


un = Tf("un", "never")
inline = span("in", _add_ws=False)
block = div("bl")

pool = {
    "str": "a<&>'\"",
    "html": HTML("<h&>"),
    "repr": OnlyRepr("r"),
    "both": ReprBoth(),
    "tag": block,
    "inl": inline,
    "meta": Meta("m"),
    "dep": dep("dp"),
    "un": un,
}

# every ordered pair / triple of node kinds, for the default arguments
for names in itertools.product(pool, repeat=2):
    show("pair " + "+".join(names), lambda: ghs(put(*[pool[n] for n in names])))
for names in itertools.product(["str", "repr", "inl", "tag", "meta", "un"], repeat=3):
    show("triple " + "+".join(names), lambda: ghs(put(*[pool[n] for n in names])))

# argument combinations
seq = put("s1", inline, OnlyRepr("r1"), "s2", block, OnlyRepr("r2"), Meta("m"), "s3 <x>", HTML("<raw>"), inline, inline, "end")
for indent, eol, add_ws, esc in itertools.product([0, 1, 3], ["\n", "", "\r\n"], [True, False], [True, False]):
    show(
        "args indent=%r eol=%r add_ws=%r esc=%r" % (indent, eol, add_ws, esc),
        lambda: ghs(seq, indent, eol, add_ws=add_ws, _escape_strings=esc),
    )
show("positional only indent", lambda: ghs(seq, 2))
show("empty", lambda: ghs(put()))
show("only meta", lambda: ghs(put(Meta("a"), dep("b"))))
show("single str", lambda: ghs(put("x"), 2))
show("single repr", lambda: ghs(put(OnlyRepr("x")), 2))
show("single un", lambda: ghs(put(un), 2))
show("meta then un", lambda: ghs(put(Meta("a"), un)))

# truthy / falsy non-bool flags
show("add_ws=1", lambda: ghs(seq, 1, "\n", add_ws=1))
show("add_ws=''", lambda: ghs(seq, 1, "\n", add_ws=""))
show("add_ws=None esc=0", lambda: ghs(seq, 1, "\n", add_ws=None, _escape_strings=0))
show("esc='yes'", lambda: ghs(seq, 1, "\n", _escape_strings="yes"))

# bad arguments: which error comes first
show("indent str, text first", lambda: ghs(put("t", un), "x"))
show("indent str, un first", lambda: ghs(put(un, "t"), "x"))
show("indent str, repr", lambda: ghs(put(OnlyRepr("r")), "x"))
show("indent str, repr raises", lambda: ghs(put(ReprRaises()), "x"))
show("indent str, add_ws False, repr raises", lambda: ghs(put(ReprRaises()), "x", add_ws=False))
show("indent None add_ws False", lambda: ghs(put("a", OnlyRepr("r")), None, add_ws=False))
show("indent None after tag", lambda: ghs(put("a", block, "b"), None, add_ws=False))
show("negative indent", lambda: ghs(put("a", OnlyRepr("r"), block), -2))
show("eol None", lambda: ghs(put("a", block), 0, None))
show("eol None no tag", lambda: ghs(put("a", "b", OnlyRepr("r")), 0, None))
show("indent float", lambda: ghs(put("a"), 1.0))

# what self-rendering objects return
show("repr returns HTML", lambda: ghs(put("a", OnlyRepr("h", HTML("<H>")), "b<")))
show("repr returns HTML first", lambda: ghs(put(OnlyRepr("h", HTML("<H>")), "b<", block)))
show("repr returns int", lambda: ghs(put("a", OnlyRepr("i", 5), OnlyRepr("after"))))
show("repr returns bytes", lambda: ghs(put(OnlyRepr("i", b"x"))))
show("repr returns empty", lambda: ghs(put("a", OnlyRepr("e", ""), block, OnlyRepr("e2", ""), "z")))
show("repr raises", lambda: ghs(put("a", OnlyRepr("before"), ReprRaises(), OnlyRepr("after"))))
show("un after repr", lambda: ghs(put(OnlyRepr("before"), un, OnlyRepr("after"))))
show("un before raising repr", lambda: ghs(put(un, ReprRaises())))
show("raising repr before un", lambda: ghs(put(ReprRaises(), un)))

# non-string leftovers
show("int child", lambda: ghs(put("a", 5)))
show("int child no escape", lambda: ghs(put("a", 5), _escape_strings=False))
show("None child", lambda: ghs(put(None)))
show("None child no escape", lambda: ghs(put(None), _escape_strings=False))
show("list child no escape", lambda: ghs(put(["x"]), _escape_strings=False))
show("HTML child no escape", lambda: ghs(put("a", HTML("<k>"), "b"), _escape_strings=False))
show("HTML first no escape", lambda: ghs(put(HTML("<k>"), "b"), add_ws=False, _escape_strings=False))

# through the public entry points
show("render un in taglist", lambda: rendered(put("a", un)))
show("tag ghs un", lambda: div("a", un).get_html_string())
show("tag ghs un only child", lambda: div(un).get_html_string())
show("tag ghs both only child", lambda: div(ReprBoth()).get_html_string())
show("tag render both", lambda: rendered(div(ReprBoth(), OnlyRepr("r"))))
show("script children", lambda: tags.script("a<b", HTML("c<d"), "e&f").get_html_string())
show("style children un", lambda: tags.style("a<b", un).get_html_string())
show("script children repr", lambda: tags.script("a<b", OnlyRepr("r"), "x").get_html_string(1, "|"))
show("nested returned unexpanded", lambda: rendered(TagList(Tf("outer", TagList("ok", un)))))
show("nested returned unexpanded in tag", lambda: rendered(TagList(Tf("outer", div("ok", un)))))
show("doc unexpanded", lambda: doc_rendered(Tf("outer", TagList("ok", un))))
show("doc self rendering", lambda: doc_rendered(OnlyRepr("r"), Tf("outer", TagList("ok", ReprBoth()))))
show("str of taglist with un", lambda: str(put(un)))
show("head_content un", lambda: __import__("htmltools").head_content(put(un)))
show("inline whitespace", lambda: rendered(div(span("a", _add_ws=False), OnlyRepr("r"), span("b", _add_ws=False), "t", span("c"), OnlyRepr("r2"), _add_ws=False)))
