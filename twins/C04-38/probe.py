# Probe for refactoring 3: TagList.get_html_string (the child loop)
import itertools
from htmltools import HTML, HTMLDependency, HTMLDocument, Tag, TagList, div, span, tags

LOG = []


def show(label, fn):
    LOG.clear()
    try:
        r = fn()
        print(label, "->", type(r).__name__, repr(str(r)), LOG)
    except BaseException as e:  # noqa: BLE001
        print(label, "-> EXC", type(e).__name__, str(e)[:90], LOG)


class Rep:
    def __init__(self, s):
        self.s = s

    def _repr_html_(self):
        LOG.append("repr_html")
        if isinstance(self.s, Exception):
            raise self.s
        return self.s


class Tagif:
    def tagify(self):
        LOG.append("tagify")
        return span("<tagified>")


class Both(Rep, Tagif):
    pass


class Dyn:
    """Looks up attributes dynamically; records the protocol checks."""

    def __init__(self, have):
        self.have = have

    def __getattr__(self, name):
        if name in ("_repr_html_", "tagify"):
            LOG.append("getattr:" + name)
            if name in self.have:
                return lambda: "<dyn:" + name + ">"
        raise AttributeError(name)


class StrSub(str):
    pass


dep = HTMLDependency("d", "1.0", source={"subdir": "."}, script={"src": "d.js"})
N = "<x a=\"1\">&amp;'\n"

items = {
    "plain": N,
    "html": HTML(N),
    "strsub": StrSub(N),
    "empty": "",
    "ehtml": HTML(""),
    "rep": Rep(N),
    "both": Both("<both>"),
    "dyn-r": Dyn(["_repr_html_"]),
    "dyn-rt": Dyn(["_repr_html_", "tagify"]),
    "block": div(N, HTML(N)),
    "inline": span(N, _add_ws=False),
    "script": tags.script(N),
    "dep": dep,
    "void": tags.br(),
}

def mk(kids):
    # children are put in place directly so that odd objects are not rejected up front
    tl = TagList()
    tl.data.extend(kids)
    return tl


def mkt(name, kids, add_ws):
    t = Tag(name, _add_ws=add_ws)
    t.children.data.extend(kids)
    return t


for r in (1, 2, 3):
    for combo in itertools.product(items, repeat=r):
        if r == 3 and not ({"plain", "html", "rep", "inline", "block", "dep"} >= set(combo)):
            continue
        kids = [items[k] for k in combo]
        for add_ws in (True, False):
            for esc in (True, False):
                show(f"{'+'.join(combo)}|ws={add_ws}|esc={esc}",
                     lambda: mk(kids).get_html_string(1, "\n", add_ws=add_ws, _escape_strings=esc))
        if r <= 2:
            show(f"{'+'.join(combo)}|default", lambda: mk(kids).get_html_string())
            show(f"{'+'.join(combo)}|str", lambda: str(mk(kids)))
            show(f"{'+'.join(combo)}|in style", lambda: mkt("style", kids, True).get_html_string())
            show(f"{'+'.join(combo)}|in div i2", lambda: mkt("div", kids, False).get_html_string(2, "\r\n"))

# non-tagified objects and odd children
show("tagifiable", lambda: TagList("a<", Tagif(), Rep("<never>")).get_html_string())
show("tagifiable tagified", lambda: TagList("a<", Tagif(), Both("<b>")).tagify().get_html_string())
show("dyn tagify only", lambda: mk([Rep("<r>"), Dyn(["tagify"])]).get_html_string())
show("dyn nothing", lambda: mk([Rep("<r>"), Dyn([]), "z"]).get_html_string())
show("repr non-str", lambda: TagList("a", Rep(5), Rep("<after>")).get_html_string())
show("repr none", lambda: TagList(Rep(None)).get_html_string())
show("repr html obj", lambda: TagList("a<b", Rep(HTML("<h>")), "c<d").get_html_string())
show("repr raises", lambda: TagList(Rep("<1>"), Rep(KeyError("k")), Rep("<2>")).get_html_string())
tl = TagList("a")
tl.data.append(7)
tl.data.append(None)
show("int child", lambda: tl.get_html_string())
show("int child noesc", lambda: tl.get_html_string(_escape_strings=False))
tl2 = TagList()
tl2.data.extend([b"<b>", "x"])
show("bytes child", lambda: tl2.get_html_string())
show("bad indent text", lambda: TagList(Rep("<r>")).get_html_string("i"))
show("bad indent text ws0", lambda: TagList(Rep("<r>")).get_html_string("i", add_ws=False))
show("bad indent plain", lambda: TagList("p").get_html_string(None))
show("float indent", lambda: TagList(div("x")).get_html_string(1.0))
show("eol html", lambda: TagList(div("x"), "a<b", Rep("<r>"), div()).get_html_string(1, HTML("<br>")))
show("eol html noesc", lambda: TagList("a<b", div(), "c<d").get_html_string(0, HTML("<br>"), add_ws=True, _escape_strings=False))
show("eol none", lambda: TagList(div(), "a").get_html_string(0, None))
show("empty", lambda: TagList().get_html_string())
show("only deps", lambda: TagList(dep, dep).get_html_string())
show("doc", lambda: HTMLDocument(TagList(N, HTML(N), Rep(N), div(N), dep)).render()["html"])
show("render", lambda: TagList(N, HTML(N), Rep(N), div(N), dep).render()["html"])
