# Probe for refactoring 2: Tag.get_html_string (attribute writing, empty / void /
# single-text-child short cuts)
import dataclasses
from htmltools import HTML, HTMLDependency, HTMLDocument, Tag, TagList, div, span, tags, head_content


def show(label, fn):
    try:
        r = fn()
        print(label, "->", type(r).__name__, repr(str(r)))
    except BaseException as e:  # noqa: BLE001
        print(label, "-> EXC", type(e).__name__, str(e)[:90])


class Rep:
    def __init__(self, s):
        self.s = s

    def _repr_html_(self):
        return self.s


class StrSub(str):
    pass


dep = HTMLDependency("d", "1.0", source={"subdir": "."}, script={"src": "d.js"})
NASTY = "<a href=\"x\" id='y'>&amp; &\r\n</a>"

names = ["div", "span", "script", "style", "br", "img", "input", "SCRIPT", "Style", "custom-el", "", StrSub("style"), HTML("script"), HTML("br"), HTML("p")]
childsets = {
    "none": [],
    "dep-only": [dep],
    "empty-str": [""],
    "plain": [NASTY],
    "html": [HTML(NASTY)],
    "strsub": [StrSub(NASTY)],
    "repr": [Rep(NASTY)],
    "plain+dep": [NASTY, dep],
    "dep+html": [dep, HTML(NASTY)],
    "two": [NASTY, HTML(NASTY)],
    "html-plain-html": [HTML("<1>"), "<2>", HTML("<3>")],
    "tag": [span(NASTY)],
    "mixed": [NASTY, span(HTML(NASTY), _add_ws=False), Rep("<r>"), HTML("<h>"), dep, "t&t"],
    "num": [1, 2.5],
    "nested-list": [[NASTY, [HTML("<h>")]], None],
}
attrsets = {
    "noattr": {},
    "plain": {"title": NASTY},
    "html": {"title": HTML(NASTY)},
    "both": {"class_": "a<b", "data_x": HTML("c<d"), "hidden": True, "n": 3, "skip": None, "f": False},
    "empty": {"value": "", "alt": HTML("")},
}

for name in names:
    for cn, cs in childsets.items():
        for an, at in attrsets.items():
            if an not in ("noattr", "both") and cn not in ("none", "plain", "html"):
                continue
            for add_ws in (True, False):
                def build():
                    return Tag(name, *cs, _add_ws=add_ws, **at)
                label = f"{name!r}|{cn}|{an}|ws={add_ws}"
                show(label + " s0", lambda: build().get_html_string())
                if add_ws and an == "both":
                    show(label + " s2", lambda: build().get_html_string(2, "\r\n"))
                    show(label + " str", lambda: str(build()))
                    show(label + " rh", lambda: build()._repr_html_())
                    show(label + " render", lambda: build().render()["html"])
                    show(label + " doc", lambda: HTMLDocument(build()).render()["html"])
                    show(label + " in", lambda: div(build(), "x<y").get_html_string())
                    show(label + " tl", lambda: TagList("p&", build(), HTML("&q")).get_html_string())

# merged attributes (plain + HTML under the same name), order of attributes
show("merged", lambda: div({"class": "a\"1"}, {"class": HTML("b\"2")}, class_="c'3", id="i&").get_html_string())
show("merged2", lambda: div({"style": HTML("x:'1';")}, style="y:\"2\";").add_style("z:<3>;").add_class("k&k").get_html_string())
show("order", lambda: Tag("a", z="1", a=HTML("2"), m="3").get_html_string())

# attribute values stored behind the back of TagAttrDict
t = div("x")
dict.__setitem__(t.attrs, "raw", 5)
show("bad attr value", lambda: t.get_html_string())
t2 = div()
dict.__setitem__(t2.attrs, "k", StrSub("<\">"))
show("strsub attr", lambda: t2.get_html_string())
t3 = div("x")
t3.name = None
dict.__setitem__(t3.attrs, "raw", 5)
show("bad name", lambda: t3.get_html_string())
t4 = div()
t4.name = 5
show("int name", lambda: t4.get_html_string())
t5 = tags.br()
t5.name = ["br"]
show("list name", lambda: t5.get_html_string())
show("bad indent", lambda: div("x").get_html_string("a"))
show("neg indent", lambda: div(span("x")).get_html_string(-1))
show("eol none", lambda: div(span("x"), span()).get_html_string(1, None))
show("eol html", lambda: div(span("x"), "a<b", span()).get_html_string(1, HTML("<br>")))
show("head_content", lambda: HTMLDocument(div(head_content(tags.style("a>b{}"), tags.script(HTML("1<2"))), "x")).render()["html"])
show("script two", lambda: tags.script("a<b", "c&d").get_html_string())
show("style kids", lambda: tags.style("a>b", span("c>d"), HTML("e>f"), Rep("g>h")).get_html_string())
