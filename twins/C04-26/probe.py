"""Probe for Tag.get_html_string: prints repr of rendered strings / exception types."""
import itertools
from htmltools import HTML, Tag, TagList, HTMLDependency, tags, div, span, head_content


class Repr:
    def __init__(self, s):
        self.s = s

    def _repr_html_(self):
        return self.s


class Tagif:
    def tagify(self):
        return span("<t&>", HTML("<i>&</i>"))


def show(label, fn):
    try:
        out = fn()
        print(label, "=>", type(out).__name__, repr(out))
    except BaseException as e:  # noqa
        print(label, "=> EXC", type(e).__name__)


dep = HTMLDependency("dep<&>", "1.0", source={"subdir": "x"}, script={"src": "a&b.js"})
NASTY = ["", "a", "<b>&\"'</b>", "&amp;", "</script>", "x\ny", "  ", "é<ü>", "&lt;"]

names = ["div", "span", "script", "style", "br", "img", "input", "p", "SCRIPT", "x-y", ""]

# 1. no children, with a spread of attributes
for nm in names:
    show(f"empty {nm!r}", lambda: Tag(nm).get_html_string())
    show(
        f"attrs {nm!r}",
        lambda: Tag(
            nm, {"data-x": "<&\"'>"}, id=HTML("<&\"'>"), title="a&b", class_="c1 c2"
        ).get_html_string(indent=2, eol="\r\n"),
    )
    show(f"onlydep {nm!r}", lambda: Tag(nm, dep).get_html_string())
    show(f"onlydep2 {nm!r}", lambda: Tag(nm, dep, head_content("z")).get_html_string(1))

# 2. a single child of every kind
for nm in names:
    for i, s in enumerate(NASTY):
        show(f"one str {nm!r} {i}", lambda: Tag(nm, s).get_html_string())
        show(f"one HTML {nm!r} {i}", lambda: Tag(nm, HTML(s)).get_html_string(3, "|"))
        show(f"one str+dep {nm!r} {i}", lambda: Tag(nm, dep, s, dep).get_html_string())
        show(f"one repr {nm!r} {i}", lambda: Tag(nm, Repr(s)).get_html_string(1))
        show(f"str() {nm!r} {i}", lambda: str(Tag(nm, s)))
        show(f"render {nm!r} {i}", lambda: Tag(nm, HTML(s), dep).render()["html"])
    show(f"one tag {nm!r}", lambda: Tag(nm, span("<&>")).get_html_string())
    show(f"one tag nows {nm!r}", lambda: Tag(nm, span("<&>"), _add_ws=False).get_html_string(1))
    show(f"one int {nm!r}", lambda: Tag(nm, 12).get_html_string())
    show(f"one float {nm!r}", lambda: Tag(nm, 1.5).get_html_string())
    show(f"one none {nm!r}", lambda: Tag(nm, None).get_html_string())
    show(f"one list {nm!r}", lambda: Tag(nm, ["<a>"]).get_html_string())
    show(f"one taglist {nm!r}", lambda: Tag(nm, TagList(HTML("<a>"))).get_html_string())
    show(f"untagified {nm!r}", lambda: Tag(nm, Tagif()).get_html_string())
    show(f"tagified {nm!r}", lambda: Tag(nm, Tagif()).tagify().get_html_string())

# 3. several children, in every order, ws on/off
kids = ["<s&>", HTML("<h&>"), Repr("<r&>"), span("<in&>"), dep, span("k", _add_ws=False)]
for nm in ["div", "script", "style", "span", "br"]:
    for ws in (True, False):
        for a, b in itertools.permutations(range(len(kids)), 2):
            show(
                f"two {nm!r} ws={ws} {a}{b}",
                lambda: Tag(nm, kids[a], kids[b], _add_ws=ws).get_html_string(1, "\n"),
            )
        show(
            f"all {nm!r} ws={ws}",
            lambda: Tag(nm, *kids, "tail<", _add_ws=ws, id="i<>").get_html_string(2, "~"),
        )

# 4. nesting and script/style inside other tags
show("nest", lambda: div(tags.script("a<b && c>d"), tags.style("p > a { x: '&' }"), "a<b").get_html_string())
show("nest2", lambda: div(tags.script("a<b", "c&d"), tags.style(HTML("x<y"), "z>w")).get_html_string())
show("nest3", lambda: tags.script(tags.b("<in>"), "<out>").get_html_string())
show("nest4", lambda: str(div(div(div("&", HTML("&")), "<"), HTML("<"))))
show("jsx-like void w/ children", lambda: tags.br("x<").get_html_string())
show("img attr", lambda: tags.img(src="a?b=1&c=2", alt=HTML("a&b")).get_html_string())

# 5. attribute corner cases
show("attr none/false", lambda: Tag("div", id=None, hidden=False, checked=True, n=3, f=1.25).get_html_string())
show("attr order", lambda: Tag("div", {"b": "1"}, {"a": HTML("<2>")}, c="3", b="<4>").get_html_string())
show("attr merge html", lambda: Tag("div", {"class": HTML("<a>")}, class_="<b>").get_html_string())
show("attr merge html2", lambda: Tag("div", {"class": HTML("<a>")}, class_=HTML("<b>")).get_html_string())
show("attr newline", lambda: Tag("div", title="l1\nl2\r\n\"q\"").get_html_string())


def poke():
    t = Tag("div", "x")
    t.attrs["weird"] = 5  # not a str: html_escape must fail the same way
    return t.get_html_string()


show("attr non-str injected", poke)


def poke2():
    t = Tag("div")
    t.attrs["h"] = HTML("")
    t.attrs["e"] = ""
    return t.get_html_string()


show("attr empties", poke2)

# 6. bad arguments
show("indent str", lambda: div("x").get_html_string(indent="2"))
show("indent none", lambda: div("x").get_html_string(indent=None))
show("eol none 1child", lambda: div("x").get_html_string(eol=None))
show("eol none 2child", lambda: div("x", "y").get_html_string(eol=None))
show("eol none nows", lambda: div("x", "y", _add_ws=False).get_html_string(eol=None))
show("indent neg", lambda: div("x", span()).get_html_string(indent=-3))
show("indent bool", lambda: div("x", span()).get_html_string(indent=True))


def badname(n):
    t = Tag("div", "x", "y")
    t.name = n
    return t.get_html_string()


for n in (None, 5, ["a"], b"div"):
    show(f"bad name {n!r}", lambda: badname(n))


def badchildren():
    t = Tag("div")
    t.children = None
    return t.get_html_string()


show("bad children", badchildren)


def rawchildren():
    t = Tag("script")
    t.children.data.append(5)  # bypasses normalisation
    return t.get_html_string()


show("raw int child in script", rawchildren)


def rawchildren2():
    t = Tag("script")
    t.children.data.extend([5, "x"])
    return t.get_html_string()


show("raw int children in script", rawchildren2)


def poke3(v):
    t = Tag("div", "x", a="<1>")
    dict.__setitem__(t.attrs, "raw", v)  # bypasses the str conversion
    dict.__setitem__(t.attrs, "z", "<&>")
    return t.get_html_string()


for v in (5, None, b"x", ["a"]):
    show(f"attr raw {v!r}", lambda: poke3(v))
