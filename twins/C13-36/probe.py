import copy
import json

from htmltools import (
    HTML,
    HTMLDependency,
    HTMLDocument,
    HTMLTextDocument,
    Tag,
    TagList,
    div,
    head_content,
    tags,
)
from htmltools._core import _resolve_dependencies  # noqa: F401


def show(label, fn):
    try:
        res = fn()
        print(label, "=>", repr(res))
    except Exception as e:  # noqa: BLE001
        print(label, "=> EXC", type(e).__name__, repr(str(e))[:300])


def dep_fields(d):
    return (
        d.name,
        str(d.version),
        d.source,
        d.script if isinstance(d.script, (list, tuple)) else type(d.script).__name__,
        d.stylesheet,
        d.meta,
        d.all_files,
        None if d.head is None else (type(d.head).__name__, str(d.head)),
    )


def make_deps():
    return [
        HTMLDependency("plain", "1.0"),
        HTMLDependency(
            "a",
            "1.2.3",
            source={"subdir": "lib/a"},
            script={"src": "a.js"},
            stylesheet={"href": "a b.css"},
        ),
        HTMLDependency(
            "b",
            "2.0",
            source={"package": "htmltools", "subdir": "libtest"},
            script=[{"src": "x y.js", "defer": ""}, {"src": "z.js", "type": "module"}],
            stylesheet=[{"href": "s.css", "rel": "preload", "media": "print"}],
            meta=[{"name": "viewport", "content": "width=device-width"}],
            all_files=True,
        ),
        HTMLDependency(
            "c",
            "0.1",
            source={"href": "https://cdn.example.com/c"},
            script={"src": "c.min.js"},
            meta={"name": "m", "content": "</script><SCRIPT>alert(1)</ScRiPt >"},
            head="<title>t</title>",
        ),
        HTMLDependency(
            "d</script>",
            "3",
            head=TagList(
                tags.script("var x = '</script>';"),
                Tag("link", rel="icon", href="</SCRIPT x.png"),
                "text & <b>",
            ),
        ),
        HTMLDependency("e", "1", head=Tag("style", "p{}\r\n\tq{}")),
        HTMLDependency("u\u00e9\u4e2d\n\r\\/", "4.5", head=HTML("</p><//script></")),
        HTMLDependency("emptyhead", "1", head=TagList()),
        HTMLDependency("listhead", "1", head=[tags.meta(name="x"), None, 3, [4.5, "s"]]),
        head_content(tags.title("My </script> title")),
    ]


print("== serialize_to_script_json ==")
for d in make_deps():
    for indent in (None, 0, 2, "\t"):
        t = d.serialize_to_script_json(indent=indent)
        s = str(t)
        print(repr(d.name), repr(indent), type(t).__name__, t.name, dict(t.attrs))
        print(repr(s))
        inner = s[len('<script type="application/json" data-html-dependency="">') : -len("</script>")]
        print("  has-end-tag-inside:", "</script" in inner.lower(), "children:", [type(c).__name__ for c in t.children])
    t0 = d.serialize_to_script_json()
    print("  default==None:", str(t0) == str(d.serialize_to_script_json(None)))

show("serialize nonserialisable source", lambda: str(HTMLDependency("x", "1", source={"subdir": {1, 2}}).serialize_to_script_json()))
show("serialize positional indent", lambda: str(HTMLDependency("x", "1").serialize_to_script_json(1)))


def mutated_head():
    d = HTMLDependency("x", "1")
    d.head = "raw <b>"  # user mutation after construction
    return str(d.serialize_to_script_json())


show("serialize mutated str head", mutated_head)


def mutated_head2():
    d = HTMLDependency("x", "1")
    d.head = div("q")
    return str(d.serialize_to_script_json())


show("serialize mutated tag head", mutated_head2)

print("== round trip ==")
deps = make_deps()
pieces = []
for i, d in enumerate(deps):
    pieces.append(f"<p>piece {i}</p>\r\n")
    pieces.append(str(d.serialize_to_script_json(indent=(None if i % 2 else 2))))
# duplicates of two serialisations, plus near-misses that must stay in the text
pieces.append(str(deps[1].serialize_to_script_json(indent=None)))
pieces.append(str(deps[1].serialize_to_script_json(indent=2)))
pieces.append(str(deps[0].serialize_to_script_json(indent=2)))
pieces.append('<SCRIPT type="application/json" data-html-dependency="">{"name":"up","version":"1"}</SCRIPT>')
pieces.append('<script data-html-dependency="" type="application/json">{"name":"swapped","version":"1"}</script>')
pieces.append('<script type="application/json" data-html-dependency>{"name":"noval","version":"1"}</script>')
pieces.append('<script type="application/json" data-html-dependency="">{"name":"upclose","version":"1"}</SCRIPT>tail')
text = "<html><head>PLACE</head><body>PLACE" + "".join(pieces) + "</body></html>PLACE"

doc = HTMLTextDocument(text, deps_replace_pattern="PLACE")
print(repr(doc._html))
print(len(doc._deps))
for orig, got in zip([*deps, None, None, None, None], doc._deps):
    print(dep_fields(got))
    if orig is not None:
        print("  eq:", got == orig, dep_fields(got) == dep_fields(orig))

for kw in ({}, {"lib_prefix": None}, {"lib_prefix": ""}, {"lib_prefix": "my/lib", "include_version": False}):
    r = doc.render(**kw)
    print(kw, sorted(r.keys()))
    print(repr(r["html"]))
    print([dep_fields(x) for x in r["dependencies"]])
    print("  deepcopied:", all(a is not b for a, b in zip(r["dependencies"], doc._deps)), len(r["dependencies"]))

print("== static extract ==")
ext = HTMLTextDocument._static_extract_serialized_html_deps
P = '<script type="application/json" data-html-dependency="">'
cases = [
    "",
    "no deps here",
    P + '{"name":"a","version":"1"}</script>',
    "x" + P + '{"name":"a","version":"1"}</script>y' + P + '{"name":"a","version":"1"}</script>z',
    "x" + P + '{"name":"a","version":"1"}</script>y' + P + '{"name":"a", "version":"1"}</script>z',
    P + '{"name":"a",\n"version":\r\n"1"}</script>' + P + '\n{"name":"b","version":"2","head":"<b>h<\\/b>"}\n</script>',
    P + "</script>",
    P + P + '{"name":"a","version":"1"}</script></script>',
    P + '{"name":"a","version":"1"}',
    P + '{"name":"a","version":"1"}</script' + ">" * 3,
    P + "not json</script>",
    "pre" + P + '{"name":"ok","version":"1"}</script>' + P + "{bad</script>post",
    P + "[1,2]</script>",
    P + '"str"</script>',
    P + "null</script>",
    P + '{"name":"a"}</script>',
    P + '{"name":"a","version":"1","bogus":1}</script>',
    P + '{"name":"a","version":"not a version"}</script>',
    P + '{"name":"a","version":"1","script":{"href":"x"}}</script>',
    P + '{"name":"a","version":"1","script":[1]}</script>',
    P + '{"name":"a","version":"1","source":"str"}</script>',
    P + '{"name":"a","version":"1","source":{"x":1}}</script>',
    P + '{"name":"a","version":"1","stylesheet":{"href":"s.css"},"meta":{"name":"n","content":"c"},"all_files":true,"head":"<i>h</i>"}</script>',
    P + '{"name":"\\u2028\u2028","version":"1"}</script>\u2028',
]
for c in cases:
    def run(c=c):
        h, ds = ext(c)
        return (h, [dep_fields(d) for d in ds])
    show(repr(c)[:70], run)

for bad in (b"bytes", None, 5, ["<html>"]):
    show("extract " + repr(bad), lambda bad=bad: ext(bad))
    show("doc " + repr(bad), lambda bad=bad: HTMLTextDocument(bad)._html)

print("== HTMLTextDocument ctor / render ==")
show("deps without pattern", lambda: HTMLTextDocument("<html></html>", deps=[HTMLDependency("a", "1")]))
show("no deps no pattern render", lambda: HTMLTextDocument("<html></html>").render())
show("empty deps list no pattern", lambda: HTMLTextDocument("<html></html>", deps=[]))
show("pattern absent", lambda: HTMLTextDocument("<html></html>", deps=[HTMLDependency("a", "1")], deps_replace_pattern="ZZ").render())
show("empty pattern", lambda: HTMLTextDocument("<html></html>", deps=[HTMLDependency("a", "1", script={"src": "a.js"})], deps_replace_pattern="").render())
show("no deps with pattern", lambda: HTMLTextDocument("<a>X</a>X", deps_replace_pattern="X").render())


def given_list_is_used():
    lst = [HTMLDependency("given", "1", script={"src": "g.js"})]
    body = "H" + str(HTMLDependency("body", "2", head="<x>").serialize_to_script_json()) + "H"
    d = HTMLTextDocument(body, deps=lst, deps_replace_pattern="H")
    r1 = d.render()
    r2 = d.render(lib_prefix="p")
    return (d._deps is lst, [x.name for x in lst], r1["html"], r2["html"], d._deps_replace_pattern)


show("given list", given_list_is_used)
show("tuple deps", lambda: HTMLTextDocument("H", deps=(HTMLDependency("a", "1"),), deps_replace_pattern="H"))
show("non-str name in render", lambda: HTMLTextDocument("H", deps=[HTMLDependency(5, "1")], deps_replace_pattern="H").render())
show("bad quote in render", lambda: HTMLTextDocument("H", deps=[HTMLDependency("a", "1", script={"src": 5})], deps_replace_pattern="H").render())

print("== HTMLDocument equivalence ==")


def ui():
    ds = make_deps()
    return div(
        "a", ds[1], div(ds[2], "b", ds[3], ds[1]), ds[4], ds[5], ds[6], ds[9], ds[0], ds[7], ds[8],
        HTMLDependency("a", "1.10", script={"src": "newer.js"}),
    )


for kw in ({}, {"lib_prefix": None}, {"lib_prefix": "L", "include_version": False}):
    direct = HTMLDocument(ui()).render(**kw)
    print(repr(direct["html"]))
    print([dep_fields(x) for x in direct["dependencies"]])
    body = ui()
    body_deps = body.get_dependencies()
    json_html = "<!DOCTYPE html>\n<html>\n  <head>\n    <meta charset=\"utf-8\"/>\n    HEADPLACE\n  </head>\n  <body>" + "".join(
        str(d.serialize_to_script_json()) for d in body_deps
    ) + "</body>\n</html>HEADPLACE"
    r = HTMLTextDocument(json_html, deps_replace_pattern="HEADPLACE").render(**kw)
    print(repr(r["html"]))
    print([dep_fields(x) for x in r["dependencies"]] == [dep_fields(x) for x in direct["dependencies"]])

show("doc no deps", lambda: HTMLDocument(div("x")).render())
show("doc html tag no head", lambda: HTMLDocument(tags.html(tags.body("x", HTMLDependency("a", "1", script={"src": "a.js"})), lang="en")).render())
show("doc html tag head not first", lambda: HTMLDocument(tags.html(HTMLDependency("a", "1", head="<q>"), tags.head(tags.title("t")), tags.body("x")), class_="k").render(lib_prefix=None))
show("doc body tag", lambda: HTMLDocument(tags.body(head_content("<w>"), head_content("<w>"), "x")).render())
show("hoist non-html", lambda: HTMLDocument._hoist_head_content(div("x"), "lib", True))


def hoist_no_mutation():
    h = tags.html(tags.head(tags.title("t")), tags.body(HTMLDependency("a", "1", script={"src": "a.js"})))
    before = str(h)
    out = HTMLDocument._hoist_head_content(h, "lib", False)
    return (before == str(h), out is h, str(out))


show("hoist no mutation", hoist_no_mutation)
show("hoist non-str name", lambda: HTMLDocument(div(HTMLDependency(5, "1"))).render())
show("hoist bad src", lambda: HTMLDocument(div(HTMLDependency("a", "1", script={"src": 5}))).render())

print("== HTMLDependency ctor ==")


def ident():
    sc = [{"src": "a.js"}]
    st = [{"href": "a.css"}, {"href": "b.css", "rel": "alternate"}]
    me = [{"name": "n", "content": "c"}]
    so = {"subdir": "x"}
    d = HTMLDependency("i", "1", source=so, script=sc, stylesheet=st, meta=me)
    one_s, one_st, one_m = {"src": "o.js"}, {"href": "o.css"}, {"name": "n", "content": "c"}
    e = HTMLDependency("j", "1", script=one_s, stylesheet=one_st, meta=one_m)
    return (
        d.script is sc, d.stylesheet is st, d.meta is me, d.source is so, st,
        e.script[0] is one_s, e.stylesheet[0] is one_st, e.meta[0] is one_m, one_st,
        type(e.script).__name__, type(e.stylesheet).__name__, type(e.meta).__name__,
    )


show("identity", ident)
show("defaults", lambda: dep_fields(HTMLDependency("n", "1")))
show("fresh lists", lambda: (lambda a, b: (a.script is not b.script, a.meta is not b.meta, a.stylesheet is not b.stylesheet, a.script is not a.meta))(HTMLDependency("n", "1"), HTMLDependency("n", "1")))
ctor_cases = {
    "script tuple": dict(script=({"src": "a"},)),
    "script str": dict(script="a.js"),
    "script int": dict(script=5),
    "script missing src": dict(script={"href": "a"}),
    "script list missing src": dict(script=[{"src": "a"}, {"x": 1}]),
    "script list nondict": dict(script=[["src"]]),
    "script empty dict": dict(script={}),
    "script empty list": dict(script=[]),
    "script generator": dict(script=(x for x in [{"src": "g"}])),
    "stylesheet missing href": dict(stylesheet={"src": "a"}),
    "stylesheet tuple": dict(stylesheet=({"href": "a"},)),
    "stylesheet str": dict(stylesheet="a.css"),
    "stylesheet list nondict": dict(stylesheet=[1]),
    "meta missing content": dict(meta={"name": "a"}),
    "meta missing name": dict(meta=[{"content": "a"}]),
    "meta str": dict(meta="m"),
    "meta false": dict(meta=False),
    "script zero": dict(script=0),
    "all bad order": dict(script={"x": 1}, stylesheet={"x": 1}, meta={"x": 1}, source=5),
    "style+meta bad order": dict(stylesheet=[3], meta={"x": 1}),
    "source not dict": dict(source="s"),
    "source no keys": dict(source={}),
    "source list": dict(source=[("subdir", "x")]),
    "version obj": dict(),
    "head int": dict(head=5),
    "head bad": dict(head=object()),
    "odict": dict(script=__import__("collections").OrderedDict(src="o.js")),
}
for k, kw in ctor_cases.items():
    show("ctor " + k, lambda kw=kw: dep_fields(HTMLDependency("n", "1.0", **kw)))
show("ctor bad version", lambda: HTMLDependency("n", "x.y"))
show("ctor version none", lambda: HTMLDependency("n", None).version)
show("ctor positional extra", lambda: HTMLDependency("n", "1", {"subdir": "x"}))

print("== as_dict / as_html_tags ==")
for d in make_deps():
    for kw in ({}, {"lib_prefix": None}, {"lib_prefix": "p/q", "include_version": False}):
        show("as_dict " + repr(d.name), lambda d=d, kw=kw: d.as_dict(**kw))
        show("as_html_tags " + repr(d.name), lambda d=d, kw=kw: str(d.as_html_tags(**kw)))
    before = dep_fields(d)
    dd = d.as_dict()
    print("  unmutated:", before == dep_fields(d), dd["meta"] is d.meta, dd["script"] is not d.script)
show("as_dict src int", lambda: HTMLDependency("a", "1", script={"src": 5}).as_dict())
show("as_dict href bytes", lambda: HTMLDependency("a", "1", stylesheet={"href": b"a b"}).as_dict())
show("deepcopy eq", lambda: [copy.deepcopy(d) == d for d in make_deps()])
show("json of as_dict", lambda: json.dumps(make_deps()[2].as_dict(), sort_keys=True))

print("== extract fuzz ==")
import hashlib
import random

rnd = random.Random(13)
alpha = [P, "</script>", "</script", "</SCRIPT>", "\n", "\r", " ", "\x85", " ", "<",
         '{"name":"a","version":"1"}', '{"name":"b","version":"2","head":"<i>\\n<\\/i>"}', "{}", "x"]
acc = hashlib.sha256()
for i in range(4000):
    s = "".join(rnd.choice(alpha) for _ in range(rnd.randint(0, 10)))
    try:
        h, ds = ext(s)
        out = repr((h, [dep_fields(d) for d in ds]))
    except Exception as e:  # noqa: BLE001
        out = "EXC " + type(e).__name__ + " " + str(e)
    acc.update(out.encode("utf-8", "backslashreplace"))
    if i % 400 == 0:
        print(i, repr(s)[:120], "->", out[:200])
print(acc.hexdigest())
big = "a" + P + '{"name":"big","version":"1","head":"' + "x</scrip \\n" * 20000 + '"}</script>' + "b\n" * 20000 + P + "open"
h, ds = ext(big)
print(len(h), h[:3], h[-6:], [(d.name, len(str(d.head))) for d in ds])
