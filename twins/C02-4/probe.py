# Probe for refactoring 4: _tagchilds_to_tagnodes (normalisation of children on construction/append/extend/insert)
import decimal
import fractions

from htmltools import HTML, HTMLDependency, Tag, TagList, div, span, tags
from htmltools import _core


class S(str):
    pass


class I(int):
    def __str__(self):
        return "<I&>"


class BadStr(float):
    def __str__(self):
        raise ValueError("no str")


class Repr:
    def _repr_html_(self):
        return "<repr&>"


class Lazy:
    def tagify(self):
        return TagList("<lazy>", 7, span("&"))


def desc(x):
    if isinstance(x, (list, TagList)):
        return [desc(i) for i in x]
    if isinstance(x, Tag):
        return ("Tag", str(x))
    return (type(x).__name__, str(x) if isinstance(x, (str, HTML)) else type(x).__name__)


def show(label, fn):
    try:
        r = fn()
        print(label, "->", type(r).__name__, repr(r))
    except Exception as e:  # noqa: BLE001
        print(label, "-> EXC", type(e).__name__, str(e))


dep = HTMLDependency("d", "1.0", source={"subdir": "."}, script={"src": "x.js"})
f = _core._tagchilds_to_tagnodes

INPUTS = {
    "str": "a<b",
    "empty str": "",
    "S": S("<s>"),
    "HTML": HTML("<h>"),
    "empty list": [],
    "empty tuple": (),
    "texts": ["<a>", "&", ">"],
    "nested": ["<a>", ["&", ("<b>", [None, ["<c>"]])], None],
    "numbers": [1, 2.5, True, False, -0.0, 10**40, float("nan"), float("inf"), 1e-7],
    "int subclass": [I(3)],
    "taglist": [TagList("<a>", 1), TagList()],
    "tags": [div("<"), span(), dep],
    "repr lazy": [Repr(), Lazy()],
    "generator": (c for c in "<&>"),
    "gen of lists": (x for x in [["<a>"], ("b", 2), None]),
    "dict": {"<k>": 1, "&": 2},
    "dict item": [{"a": 1}],
    "bytes item": [b"<b>"],
    "bytes iter": b"<b>",
    "set item": [{"x"}],
    "object item": [object],
    "complex": [1j],
    "decimal": [decimal.Decimal("1.5")],
    "fraction": [fractions.Fraction(1, 3)],
    "valid then invalid": ["<ok>", 1, b"bad", 2, {"also": "bad"}],
    "invalid nested": ["<ok>", [[b"deep"]]],
    "badstr": ["<ok>", BadStr(1.0), b"never"],
    "range": range(3),
    "map": map(str, [1, "<"]),
    "None": None,
    "int": 5,
}

for label, x in INPUTS.items():
    show(f"f({label})", lambda: desc(f(x)))

# does not alter / alias its input
src = ["<a>", 1, ["<b>", 2.0]]
out = f(src)
print("input untouched", src, out is src, out)
s = "abc"
print("str wrapped", f(s), f(s)[0] is s)
tl_in = TagList("<x>", 2)
out = f(tl_in)
print("taglist in", desc(out), type(out).__name__, desc(tl_in))

# via the public API
for label, x in INPUTS.items():
    if label in ("generator", "gen of lists", "map"):
        continue
    show(f"TagList({label})", lambda: desc(TagList(x)))
    show(f"div({label})", lambda: str(div(x)))
    show(f"div(*[{label}]*2)", lambda: str(div(x, "<sep>", x)))

    def ext():
        t = TagList("<0>")
        t.extend(x)
        return desc(t)

    show(f"extend({label})", ext)

    def app():
        t = div("<0>")
        t.append(x, x)
        return str(t)

    show(f"append({label})", app)

    def ins():
        t = TagList("<0>", "<1>")
        t.insert(1, x)
        return desc(t)

    show(f"insert({label})", ins)

    def failed_extend_state():
        t = TagList("<0>")
        try:
            t.extend(["<new>", x])
        except Exception as e:  # noqa: BLE001
            return (type(e).__name__, desc(t))
        return ("ok", desc(t))

    show(f"state({label})", failed_extend_state)

show("add", lambda: desc(TagList("<a>") + [1, "<b>"]))
show("add str", lambda: desc(TagList("<a>") + "<bc>"))
show("radd", lambda: desc([1.5, "<b>"] + TagList("<a>")))
show("radd str", lambda: desc("<bc>" + TagList("<a>")))
show("iadd", lambda: desc(TagList("<a>").__iadd__(["<b>", 3])))
show("add bad", lambda: desc(TagList("<a>") + [b"x"]))
show("tagify", lambda: desc(TagList("<a>", Lazy(), div(Lazy(), 2)).tagify()))
show("tagify str", lambda: str(div("<a>", Lazy(), 3).tagify()))
show("script nums", lambda: str(tags.script(1, "<", 2.5)))
