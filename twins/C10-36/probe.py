"""Probe for property C10: dependency validation, collection and resolution."""
from packaging.version import Version

import htmltools
from htmltools import HTMLDependency, HTMLDocument, TagList, Tag, div, span, tags, head_content
from htmltools._core import _resolve_dependencies


def show(label, fn):
    try:
        r = fn()
        print(label, "->", repr(r))
    except BaseException as e:  # noqa
        print(label, "-> EXC", type(e).__name__, str(e))


def D(name, version, **kw):
    return HTMLDependency(name, version, **kw)


def ids(result, pool):
    out = []
    for r in result:
        for i, p in enumerate(pool):
            if p is r:
                out.append(i)
                break
        else:
            out.append("?")
    return out


print("== resolution")
pools = {
    "empty": [],
    "single": [D("a", "1.0")],
    "numeric": [D("a", "1.9"), D("a", "1.10"), D("a", "1.2")],
    "ties": [D("a", "1.0"), D("a", "1.0.0"), D("a", "1"), D("b", "2"), D("b", "2.0")],
    "order": [D("b", "1"), D("a", "1"), D("c", "3"), D("a", "2"), D("b", "0.5"), D("c", "3.1")],
    "later_higher_then_lower": [D("x", "1"), D("x", "3"), D("x", "2"), D("x", "3")],
    "prerelease": [D("p", "1.0rc1"), D("p", "1.0"), D("p", "1.0.post1"), D("p", "1.0.dev1")],
    "version_objs": [D("v", Version("2.0")), D("v", "10.0"), D("v", Version("9"))],
    "odd_names": [D("", "1"), D("", "2"), D("A", "1"), D("a", "1")],
}
for k, pool in pools.items():
    r = _resolve_dependencies(pool)
    print(k, ids(r, pool), [repr(x) for x in r], r is pool)
    r2 = _resolve_dependencies(r)
    print(k, "idempotent", ids(r2, pool) == ids(r, pool), len(r2))
    rr = _resolve_dependencies(list(reversed(pool)))
    print(k, "reversed", ids(rr, pool))

# version that is not a Version: comparisons may raise
bad = [D("n", "1.0")]
bad.append(D("n", "1.0"))
bad[1].version = 5
show("nonversion second", lambda: _resolve_dependencies(bad))
show("nonversion distinct names", lambda: [repr(x) for x in _resolve_dependencies(
    [bad[1], D("m", "1")])])
class NoName:
    version = Version("1")
show("no name attr", lambda: _resolve_dependencies([NoName()]))
class UnhashName:
    name = []
    version = Version("1")
show("unhashable name", lambda: _resolve_dependencies([UnhashName()]))
show("generator input", lambda: [repr(x) for x in _resolve_dependencies(iter(pools["order"]))])
show("none input", lambda: _resolve_dependencies(None))

print("== collection")
a1, a2, b1, c1, a3 = D("a", "1"), D("a", "2"), D("b", "1"), D("c", "1"), D("a", "2")
pool = [a1, a2, b1, c1, a3]
tree = div(a1, span(b1, div(a2, "txt", tags.p(c1))), TagList(a3, span(a1)), None, [b1, [c1]])
for dd in (True, False):
    print("tree dedup", dd, ids(tree.get_dependencies(dedup=dd), pool))
    print("children dedup", dd, ids(tree.children.get_dependencies(dedup=dd), pool))
tl = TagList(c1, tree, "x", htmltools.HTML("<b>"), a3, 3)
for dd in (True, False):
    print("taglist dedup", dd, ids(tl.get_dependencies(dedup=dd), pool))
print("default", ids(tl.get_dependencies(), pool), ids(tree.get_dependencies(), pool))
print("empty", TagList().get_dependencies(), div().get_dependencies(), TagList().get_dependencies(dedup=False))
show("positional dedup on TagList", lambda: tl.get_dependencies(False))
show("positional dedup on Tag", lambda: ids(tree.get_dependencies(False), pool))
r = tl.get_dependencies(dedup=False)
print("fresh list", r is not tl.data, type(r).__name__)


class Tagish:
    def tagify(self):
        return div(a1)


tl2 = TagList(Tagish(), b1)
print("untagified", ids(tl2.get_dependencies(), pool), ids(tl2.tagify().get_dependencies(), pool))


class MyTag(Tag):
    def get_dependencies(self, dedup=True):
        return [c1, c1] + super().get_dependencies(dedup=dedup)


mt = MyTag("div", a1, a2)
print("subclass", ids(TagList(mt, b1).get_dependencies(), pool), ids(TagList(mt, b1).get_dependencies(dedup=False), pool))
print("same position independence",
      ids(div(a1, a2, b1).get_dependencies(), pool),
      ids(div(div(div(a1)), TagList(a2), span(span(b1))).get_dependencies(), pool))
hc = head_content(tags.title("t"))
hc2 = head_content(tags.title("t"))
print("head_content", [repr(x) for x in div(hc, hc2, a1).get_dependencies()])
show("render deps", lambda: [repr(x) for x in div(a1, span(a2), b1).render()["dependencies"]])
show("doc render", lambda: HTMLDocument(div(D("z", "1.9", source={"href": "https://x/y"}, script={"src": "s.js"}),
                                               D("z", "1.10", source={"href": "https://x/y"}, script={"src": "t.js"}, meta={"name": "m", "content": "c"}))).render()["html"])

print("== construction")
def desc(d):
    return (d.name, str(d.version), type(d.version).__name__, d.source, d.script, d.stylesheet, d.meta, d.all_files, d.head)

src_ok = [None, {"href": "https://e.x"}, {"subdir": "/tmp"}, {"package": "htmltools", "subdir": "lib"},
          {"href": "h", "subdir": "s"}, {"href": None}]
src_bad = ["str", 3, [], [("href", "x")], ("href",), {}, {"package": "htmltools"}, {"HREF": "x"}, 0, "", False, set(["href"])]
for s in src_ok + src_bad:
    show(f"source={s!r}", lambda: desc(D("s", "1", source=s)))

item_specs = {
    "script": ["src"],
    "stylesheet": ["href"],
    "meta": ["name", "content"],
}
good = {"script": {"src": "a.js"}, "stylesheet": {"href": "a.css"}, "meta": {"name": "n", "content": "c"}}
for field, req in item_specs.items():
    g = good[field]
    cases = [
        None, dict(g), [dict(g)], [dict(g), dict(g, extra="1")], [], (), (dict(g),), {}, [{}],
        "str", ["str"], 3, [3], [None], [[dict(g)]], [dict(g), "x"], [dict(g), {}],
        {k: v for k, v in g.items() if k != req[-1]}, [{k: v for k, v in g.items() if k != req[0]}],
        dict(g, rel="preload"), 0, False, "", True,
    ]
    for c in cases:
        show(f"{field}={c!r}", lambda: desc(D("d", "1.2", **{field: c})))
    single = D("d", "1", **{field: dict(g)})
    lst = D("d", "1", **{field: [dict(g)]})
    print(field, "single==list", getattr(single, field) == getattr(lst, field), single == lst,
          single.as_dict() == lst.as_dict() if True else None)
    given = [dict(g)]
    obj = D("d", "1", **{field: given})
    print(field, "list identity kept", getattr(obj, field) is given, given)
    gd = dict(g)
    obj = D("d", "1", **{field: gd})
    print(field, "dict identity kept", getattr(obj, field)[0] is gd, gd)
    gen = (x for x in [dict(g), dict(g)])
    obj = D("d", "1", **{field: gen})
    print(field, "generator", getattr(obj, field) is gen, list(gen))
    show(f"{field} bad generator", lambda: D("d", "1", **{field: (x for x in [dict(g), 1])}))

class MyDict(dict):
    pass
show("dict subclass items", lambda: desc(D("d", "1", script=MyDict(src="x"), stylesheet=MyDict(href="y"), meta=MyDict(name="n", content="c"), source=MyDict(href="z"))))

print("== error precedence")
show("source+script bad", lambda: D("d", "1", source="x", script="y"))
show("source nokeys+script bad", lambda: D("d", "1", source={}, script=[1]))
show("script+stylesheet bad", lambda: D("d", "1", script=[{}], stylesheet=[1]))
show("stylesheet+meta bad", lambda: D("d", "1", stylesheet=[{}], meta=[1]))
show("meta missing both", lambda: D("d", "1", meta={}))
show("meta missing content", lambda: D("d", "1", meta={"name": "n"}))
show("meta missing name", lambda: D("d", "1", meta={"content": "n"}))
show("bad version first", lambda: D("d", "not a version", source="x"))
show("version obj kept", lambda: (lambda v: D("d", v).version is v)(Version("1.2")))
show("nonstr version kept", lambda: D("d", 7).version)
show("nonstr version in msg", lambda: D("d", 7, script=[1]))
shared = {"href": "s.css"}
d1 = D("d", "1", stylesheet=shared)
print("rel default mutates", shared, d1.stylesheet)
shared2 = [{"href": "a"}, {"href": "b", "rel": "x"}]
d2 = D("d", "1", stylesheet=shared2)
print("rel default list", shared2)
show("as_html_tags", lambda: str(D("d", "1.5", source={"href": "https://cdn"}, script={"src": "a.js"},
                                   stylesheet=[{"href": "a.css"}], meta={"name": "n", "content": "c"}, head="<x/>").as_html_tags()))
show("_validate_dict direct ok", lambda: d1._validate_dict({"a": 1}, ["a"]))
show("_validate_dict direct empty req", lambda: d1._validate_dict({}, []))
show("_validate_dict direct nondict", lambda: d1._validate_dict([("a", 1)], ["a"]))
show("_validate_dicts direct", lambda: d1._validate_dicts([{"a": 1}, {"b": 1}], ["a"]))
show("_validate_dicts direct empty", lambda: d1._validate_dicts([], ["a"]))
show("_validate_dicts noniterable", lambda: d1._validate_dicts(3, ["a"]))
