"""Probe for property C06 (block layout: lines and indentation).

Prints repr() of rendered output (or the exception type) for a spread of trees,
through every entry point: Tag.get_html_string, TagList.get_html_string, str(),
repr(), _repr_html_(), render().
"""
import copy
import itertools

import htmltools
from htmltools import HTML, HTMLDependency, Tag, TagList, div, span, tags
from htmltools import _core


def show(label, fn):
    try:
        res = fn()
        print(label, "->", type(res).__name__, repr(res))
    except BaseException as e:  # noqa: BLE001
        print(label, "-> EXC", type(e).__name__, str(e)[:120])


class Repr:
    """ReprHtml-only object."""

    def __init__(self, s="<i>r</i>"):
        self.s = s

    def _repr_html_(self):
        return self.s


class Tagif:
    """Tagifiable-only object."""

    def __init__(self, out):
        self.out = out

    def tagify(self):
        return self.out


class Both:
    """Both ReprHtml and Tagifiable (like JSXTag)."""

    def _repr_html_(self):
        return "<both/>"

    def tagify(self):
        return span("tagified-both")


class BadRepr:
    def _repr_html_(self):
        raise KeyError("boom")


dep = HTMLDependency("d", "1.0", source={"subdir": "x"}, script={"src": "a.js"})


def trees():
    t = {}
    t["empty_div"] = div()
    t["empty_span"] = span()
    t["void_br"] = tags.br()
    t["void_img_attr"] = tags.img(src="a&b.png")
    t["void_with_child"] = Tag("br", "x")
    t["void_with_tagchild"] = Tag("hr", span("x"))
    t["void_only_dep"] = Tag("input", dep)
    t["single_text"] = div("hello <&>")
    t["single_html"] = div(HTML("<b>raw</b>"))
    t["single_empty_text"] = div("")
    t["single_num"] = div(3)
    t["single_float"] = div(2.5)
    t["single_bool"] = div(True)
    t["single_text_plus_dep"] = div("txt", dep)
    t["dep_only"] = div(dep)
    t["two_text"] = div("a", "b")
    t["text_html"] = div("a<", HTML("<b>"))
    t["text_span_text"] = div("a", span("b"), "c")
    t["span_first"] = div(span("b"), "c")
    t["block_children"] = div(div("x"), div("y"))
    t["mixed"] = div("t1", span("s1"), div("b1"), "t2", tags.em("e"), tags.p("p1"), span())
    t["nested3"] = div(div(div("deep"), "mid"), "top")
    t["nested_empty"] = div(div(), div(div()))
    t["inline_parent"] = span("a", tags.b("b"), "c")
    t["inline_parent_single"] = span(span("x"))
    t["inline_parent_nested"] = span(span(span("x"), "y"), "z")
    t["inline_with_block"] = span(div("x"), "y")
    t["inline_with_block2"] = span("y", div("x"))
    t["script_single"] = tags.script("if (a < b && c) {}")
    t["script_multi"] = tags.script("a < b", "c & d")
    t["script_html"] = tags.script(HTML("a < b"), "c & d")
    t["style_single"] = tags.style("a > b {}")
    t["style_html_single"] = tags.style(HTML("a > b {}"))
    t["style_in_div"] = div(tags.style("p > a", "x"), "after")
    t["attrs"] = div({"class": "a"}, "x", span("y"), id="i", title='q"<&>\n', data_x=HTML("<raw>"))
    t["repr_child"] = div(Repr(), "t")
    t["repr_only"] = div(Repr())
    t["repr_after_block"] = div(div("b"), Repr(), Repr("<u/>"), "t")
    t["html_multi"] = div(HTML("<a>"), HTML("<b>"), div("x"), HTML("<c>"))
    t["pre"] = tags.pre("line1\n  line2", span("s"))
    t["p_inline_run"] = tags.p("Hello ", tags.a("link", href="#"), ", bye", tags.br(), "next")
    t["ul"] = tags.ul(tags.li("one"), tags.li("two", tags.ul(tags.li("nested"))), tags.li())
    t["addws_false_block"] = div(div("x", _add_ws=False), div("y", _add_ws=False), _add_ws=False)
    t["addws_true_inline"] = span(span("x", _add_ws=True), "y", _add_ws=True)
    t["addws_mix"] = div("a", div("x", _add_ws=False), "b", span("s", _add_ws=True), "c")
    t["custom_name"] = Tag("my-el", Tag("x-y"), "t")
    t["list_child"] = div(["a", [span("b"), None, ("c", div("d"))]], None)
    t["taglist_child"] = div(TagList("a", div("b")), TagList())
    t["deps_between"] = div("a", dep, "b", dep, div("c"), dep)
    t["many_levels"] = div(tags.section(tags.article(tags.p("x", span("y")), tags.p())))
    return t


def lists():
    t = {}
    t["empty"] = TagList()
    t["one_text"] = TagList("a<b")
    t["one_block"] = TagList(div("x"))
    t["one_inline"] = TagList(span("x"))
    t["text_block"] = TagList("a", div("b"))
    t["block_text"] = TagList(div("b"), "a")
    t["inline_run"] = TagList("a", span("b"), "c", tags.em("d"))
    t["blocks"] = TagList(div("a"), div("b"), tags.p("c", span("d"), div()))
    t["mixed"] = TagList("t", span("s"), div(div("n"), "x"), "u", Repr(), HTML("<h>"), div())
    t["with_deps"] = TagList(dep, "a", dep, div("b"), dep)
    t["only_deps"] = TagList(dep, dep)
    t["repr_first"] = TagList(Repr(), div())
    t["html_first"] = TagList(HTML("<x>"), "y")
    t["nums"] = TagList(1, 2.0, False)
    t["nested_lists"] = TagList([["a"], (div("b"),)], TagList("c"))
    return t


def untagified():
    t = {}
    t["tagifiable"] = TagList("a", Tagif(div("z")), "b")
    t["both"] = TagList(div(), Both(), "b")
    t["badrepr"] = TagList("a", BadRepr())
    t["in_div"] = div("a", Tagif(span("z")))
    t["in_div_list"] = div(Tagif(TagList("p", div("q"), "r")), "s")
    t["both_in_div"] = div(Both(), Both())
    return t


INDENTS = [0, 1, 2, 3, 7, 40, 100, -1, True, False]
EOLS = ["\n", "", "\r\n", "<EOL>"]


def main():
    print("== Tag.get_html_string default")
    for k, v in trees().items():
        show("tag " + k, lambda: v.get_html_string())

    print("== Tag str / repr / _repr_html_ / render")
    for k, v in trees().items():
        show("str " + k, lambda: str(v))
        show("repr " + k, lambda: repr(v))
        show("rh " + k, lambda: v._repr_html_())
        show("render " + k, lambda: v.render()["html"])
        show("render deps " + k, lambda: [d.name for d in v.render()["dependencies"]])

    print("== Tag.get_html_string indent/eol")
    for k, v in trees().items():
        for ind, eol in itertools.product(INDENTS, EOLS):
            show(f"tag {k} indent={ind!r} eol={eol!r}", lambda: v.get_html_string(ind, eol))
        show(f"tag {k} kw", lambda: v.get_html_string(eol="|", indent=2))

    print("== TagList.get_html_string")
    for k, v in lists().items():
        show("list " + k, lambda: v.get_html_string())
        show("list str " + k, lambda: str(v))
        show("list repr " + k, lambda: repr(v))
        show("list rh " + k, lambda: v._repr_html_())
        show("list render " + k, lambda: v.render())
        for ind, eol in itertools.product(INDENTS, EOLS):
            for add_ws in (True, False):
                for esc in (True, False):
                    show(
                        f"list {k} indent={ind!r} eol={eol!r} add_ws={add_ws} esc={esc}",
                        lambda: v.get_html_string(ind, eol, add_ws=add_ws, _escape_strings=esc),
                    )

    print("== untagified")
    for k, v in untagified().items():
        show("untag ghs " + k, lambda: v.get_html_string())
        show("untag ghs2 " + k, lambda: v.get_html_string(2, "|"))
        show("untag str " + k, lambda: str(v))
        show("untag render " + k, lambda: v.render()["html"])

    print("== bad indent / eol types")
    d = div("a", span("b"), div("c"))
    for bad in (1.0, "2", None, [1]):
        show(f"tag bad indent {bad!r}", lambda: d.get_html_string(bad))
        show(f"list bad indent {bad!r}", lambda: d.children.get_html_string(bad))
        show(f"list bad indent noadd {bad!r}", lambda: d.children.get_html_string(bad, add_ws=False))
        show(f"empty bad indent {bad!r}", lambda: div().get_html_string(bad))
        show(f"emptylist bad indent {bad!r}", lambda: TagList().get_html_string(bad))
    for bad in (None, 1, b"x"):
        show(f"tag bad eol {bad!r}", lambda: d.get_html_string(0, bad))
        show(f"list bad eol {bad!r}", lambda: d.children.get_html_string(0, bad))
        show(f"single bad eol {bad!r}", lambda: div("x").get_html_string(0, bad))

    print("== injected non-node children (bypassing normalisation)")
    x = div("a")
    x.children.data.append(5)
    show("int child", lambda: x.get_html_string())
    show("int child noescape", lambda: x.children.get_html_string(_escape_strings=False))
    y = div()
    y.children.data.append(None)
    show("none child", lambda: y.get_html_string())
    z = Tag("script")
    z.children.data.extend(["a<b", 7])
    show("script int child", lambda: z.get_html_string())
    w = div()
    w.children.data.append(TagList("q", div("r")))
    show("nested taglist child", lambda: w.get_html_string())

    print("== constructors / mutation paths then layout")
    t = div()
    t.append("a", span("b"))
    t.insert(0, div("first"))
    t.extend([None, ["x", 4]])
    show("built", lambda: str(t))
    t2 = copy.copy(t)
    t2.append(div("only-in-copy"))
    show("orig after copy", lambda: str(t))
    show("copy", lambda: str(t2))
    show("taglist + tag", lambda: TagList("a") + div("b"))
    tl = TagList("a") + [div("b")]
    tl += ["c", span("d")]
    tl = "z" + tl
    show("taglist ops", lambda: str(tl))
    show("non-bool add_ws", lambda: Tag("div", _add_ws=1))
    show("non-bool add_ws None", lambda: Tag("div", _add_ws=None))
    show("bad child", lambda: div(object()))
    show("bad child nested", lambda: TagList(["a", [object()]]))
    show("dict child", lambda: str(div({"id": "a"}, {"class": "b"}, "t", {"id": "c"})))
    show("taglist dict child", lambda: TagList({"id": "a"}))
    show("str iterable extend", lambda: (lambda l: (l.extend("abc"), list(l))[1])(TagList()))
    show("gen children", lambda: str(TagList(x for x in ("a", div("b")))))

    print("== json dependency render mode")
    old = htmltools.html_dependency_render_mode
    try:
        htmltools.html_dependency_render_mode = "json"
        show("json str", lambda: str(div("a", dep, span("b"))))
        show("json str list", lambda: str(TagList(dep, div("a"), dep)))
        show("json str nodeps", lambda: str(div("a", div())))
    finally:
        htmltools.html_dependency_render_mode = old
    show("after json str", lambda: str(div("a", dep, span("b"))))


# ---------------------------------------------------------------------------
# Extra checks specific to this refactoring: construction / normalisation of
# children (Tag.__init__, _tagchilds_to_tagnodes) and the layout that results.
# ---------------------------------------------------------------------------
TagAttrDict = _core.TagAttrDict

SLOG = []


class LoudInt(int):
    def __str__(self):
        SLOG.append("str(LoudInt %d)" % int(self))
        return "LI%d" % int(self)


class LoudFloat(float):
    def __str__(self):
        SLOG.append("str(LoudFloat)")
        return "LF"


class DictSub(dict):
    pass


class EmptyTupleSub(tuple):
    pass


class TruthyEmptyTuple(tuple):
    def __bool__(self):
        return True

    def __len__(self):
        return 3


def node_types(tl):
    return [type(n).__name__ + ":" + (n if isinstance(n, str) else getattr(n, "name", "?")) for n in tl]


def extra():
    f = _core._tagchilds_to_tagnodes
    print("== extra: _tagchilds_to_tagnodes")
    inputs = {
        "empty tuple": (),
        "empty list": [],
        "empty tuple sub": EmptyTupleSub(),
        "truthy empty tuple": TruthyEmptyTuple(),
        "empty taglist": TagList(),
        "empty gen": (x for x in ()),
        "empty str": "",
        "str": "abc",
        "html": HTML("<h>"),
        "none only": (None, [None, (None,)]),
        "nested empties": ([], (), [[]], TagList()),
        "nums": (1, 2.5, True, -0.0, float("nan"), float("inf"), 10**30),
        "loud": (LoudInt(1), "s", LoudFloat(2.0), [LoudInt(3)]),
        "loud then bad": (LoudInt(1), object(), LoudInt(2)),
        "bad then loud": (object(), LoudInt(2)),
        "dict": ({"a": 1},),
        "bytes": (b"x",),
        "set": ({"a"},),
        "mixed": ("a", [span("b"), None, ("c", div("d"))], TagList("e", dep), Repr(), Tagif(div()), Both(), HTML("h")),
        "gen of kids": (x for x in ("a", 1, [2, "b"])),
        "dict keys iter": {"k1": 1, "k2": 2},
        "int (not iterable)": 5,
        "None (not iterable)": None,
    }
    for k, v in inputs.items():
        del SLOG[:]
        show("f " + k, lambda: [type(n).__name__ + ":" + (n if isinstance(n, str) else str(getattr(n, "name", "?"))) for n in f(v)])
        print("  slog", SLOG)
    a, b = f(()), f(())
    print("fresh lists", a is not b, a == b == [])
    src = ["a", "b"]
    out = f(src)
    out.append("c")
    print("input untouched", src)
    nested = [LoudInt(5), ["x"]]
    f(nested)
    print("nested input untouched", [type(i).__name__ for i in nested], nested[1])

    print("== extra: Tag constructor")
    cases = {
        "no args": lambda: Tag("div"),
        "void no args": lambda: Tag("br"),
        "only kwargs": lambda: Tag("br", id="x", class_="y"),
        "only dict": lambda: Tag("div", {"id": "a"}),
        "dict sub": lambda: Tag("div", DictSub(id="a"), "t"),
        "tagattrdict": lambda: Tag("div", TagAttrDict({"id": "a"}, class_="k"), "t", {"class": "z"}),
        "interleaved": lambda: Tag("div", "k1", {"id": "a"}, span("k2"), {"id": "b", "class": "c"}, div("k3"), {"class": "d"}, "k4", id="kw"),
        "dict in list": lambda: Tag("div", [{"id": "a"}]),
        "num kids": lambda: Tag("div", 1, 2.5, True, None),
        "single num": lambda: Tag("div", 1),
        "single nested num": lambda: Tag("div", [[1]]),
        "single None": lambda: Tag("div", None),
        "loud": lambda: Tag("div", LoudInt(7), {"id": LoudInt(8)}, LoudFloat(1.5)),
        "bad attr then bad kid": lambda: Tag("div", {"a": object()}, object()),
        "bad kid": lambda: Tag("div", {"a": "ok"}, object()),
        "nested lists": lambda: Tag("div", ["a", [span("b"), [div("c"), ["d"]]]], ("e",), TagList("f", div("g"))),
        "addws false": lambda: Tag("div", "a", div("b"), _add_ws=False),
        "addws bad": lambda: Tag("div", "a", object(), _add_ws="yes"),
        "inline fn": lambda: span({"class": "x"}, "a", tags.b("b")),
        "jsx-ish both": lambda: Tag("div", Both(), "x"),
    }
    for k, mk in cases.items():
        del SLOG[:]
        show("ctor " + k, lambda: (lambda t: (node_types(t.children), dict(t.attrs), t.add_ws))(mk()))
        print("  slog", SLOG)
        show("ctor layout " + k, lambda: mk().get_html_string(1, "|"))
        show("ctor str " + k, lambda: str(mk()))
    print("== extra: children lists are independent")
    t1, t2 = div(), div()
    t1.append("x")
    print(node_types(t1.children), node_types(t2.children), t1.children.data is not t2.children.data)
    kids = ["a", span("b")]
    t3 = div(kids)
    kids.append("c")
    print(node_types(t3.children))
    print("== extra: other paths through the normaliser")
    tl = TagList("a")
    show("extend gen", lambda: (tl.extend(x for x in (1, [None, div("g")])), node_types(tl))[1])
    show("extend empty", lambda: (tl.extend(()), tl.extend([]), tl.extend(TagList()), node_types(tl))[3])
    show("extend str", lambda: (tl.extend("xyz"), node_types(tl))[1])
    show("append none", lambda: (tl.append(None), node_types(tl))[1])
    show("append many", lambda: (tl.append(1, [2, span("s")], None), node_types(tl))[1])
    show("insert list", lambda: (tl.insert(1, ["i1", div("i2")]), node_types(tl))[1])
    show("insert none", lambda: (tl.insert(0, None), node_types(tl))[1])
    show("insert bad", lambda: tl.insert(0, object()))
    show("extend bad keeps list", lambda: tl.extend(["ok", object()]))
    show("after bad", lambda: node_types(tl))
    show("layout", lambda: tl.get_html_string(1, "|"))
    show("tagify flatten", lambda: str(div("a", Tagif(TagList("p", 3, [div("q")], None)), Tagif(TagList()), "z")))
    show("tagify to empty", lambda: str(div(Tagif(TagList()))))
    show("tagify to single text", lambda: str(div(Tagif(TagList("only")))))
    show("add/radd", lambda: str([1, div("x")] + TagList("m") + (2.5, None, span("y"))))
    show("consolidate", lambda: htmltools.consolidate_attrs({"id": "a"}, "k", [1], class_="c"))


if __name__ == "__main__":
    main()
    extra()
