"""Probe for refactoring 5: _serialize_attr / _serialize_style_attr (prop values -> JavaScript)."""
from collections import OrderedDict, UserDict, UserList, defaultdict
from decimal import Decimal
from fractions import Fraction
import enum

from htmltools import HTML, HTMLDependency, TagList, div, span
from htmltools._jsx import (
    JSXTag, JSXTagAttrDict, _serialize_attr, _serialize_style_attr, jsx, jsx_tag_create,
)


def show(label, fn):
    try:
        out = fn()
        print(label, "->", repr(out), type(out).__name__)
    except BaseException as e:  # noqa: BLE001
        print(label, "-> EXC", type(e).__name__, str(e)[:160])


class StrSub(str):
    pass

class LoudStr(str):
    def __str__(self):
        return "from__str__"
    def replace(self, *a):
        return "from-replace"

class IntSub(int):
    pass

class FloatSub(float):
    def __str__(self): return "FS"

class Color(enum.Enum):
    RED = 1

class IntColor(enum.IntEnum):
    RED = 1

class Obj:
    def __str__(self): return 'obj "quoted" \\ back'

class BadStr:
    def __str__(self): raise RuntimeError("no str")

class MyList(list):
    pass

class MyDict(dict):
    def __getitem__(self, k): return "via-getitem"

Foo = jsx_tag_create("Foo")
Bar = jsx_tag_create("Bar")

VALUES = {
    "none": None,
    "str": "plain", "str-empty": "", "str-quote": 'say "hi"', "str-only-quote": '"', "str-quotes": '""""',
    "str-single": "it's", "str-backslash": "a\\b", "str-bs-quote": 'a\\"b', "str-nl": "a\nb", "str-tab": "a\tb",
    "str-unicode": "é ☃  ", "str-null": "a\x00b", "str-lt": "</script>", "str-true": "true", "str-num": "12",
    "strsub": StrSub('sub "q"'), "loudstr": LoudStr("loud"), "jsx": jsx("() => \"x\""), "jsx-empty": jsx(""),
    "jsx-multi": jsx("a", "b"), "jsx+jsx": jsx("a") + jsx("b"), "jsx+str": jsx("a") + "b",
    "true": True, "false": False,
    "int": 0, "int-neg": -5, "int-big": 10**30, "intsub": IntSub(7), "intenum": IntColor.RED, "enum": Color.RED,
    "float": 1.5, "float0": 0.0, "float-neg0": -0.0, "float-e": 1e100, "float-small": 1e-7, "nan": float("nan"),
    "inf": float("inf"), "ninf": float("-inf"), "floatsub": FloatSub(2.5),
    "complex": 1 + 2j, "decimal": Decimal("1.10"), "fraction": Fraction(1, 3),
    "bytes": b'by"tes', "obj": Obj(), "badstr": BadStr(),
    "list-empty": [], "tuple-empty": (), "list": [1, "a", None, True, 2.5], "tuple": (1, "b"), "tuple1": ("x",),
    "nested-list": [[1, [2, ["3"]]], (), [None]], "mylist": MyList(["m"]),
    "set": {1}, "frozenset": frozenset(["a"]), "range": range(3), "gen-like": UserList([1, 2]), "taglist": TagList("a"),
    "dict-empty": {}, "dict": {"a": 1, "b": "two", "c": None, "d": [1], "e": {"f": False}},
    "dict-nonstr-keys": {1: "a", None: "b", (1, 2): "c", True: "d"}, "dict-quote-key": {'k"q': 1},
    "ordered": OrderedDict([("z", 1), ("a", 2)]), "defaultdict": defaultdict(int, {"k": 1}),
    "mydict": MyDict(a=1), "userdict": UserDict({"a": 1}), "attrdict": JSXTagAttrDict(class_="c"),
    "dict-jsx": {"f": jsx("fn"), "t": div("x")},
    "tag": div("x"), "tag-empty": div(), "tag-attrs": span("s", class_="c", id="i"), "tag-nested": div(span("a"), "b"),
    "jsxtag": Bar(), "jsxtag-full": Bar("k", p=1, q=["l"]), "jsxtag-nested": Bar(Foo(div("d"))),
    "list-of-tags": [div("a"), Bar("b"), "c"], "tuple-of-jsx": (jsx("a"), jsx("b")),
    "html": HTML('<b class="x">'), "dep": HTMLDependency("d", "1.0"),
    "tag-with-dep": div(HTMLDependency("d", "1.0"), "x"),
    "tag-with-html": div(HTML("<i>")),
    "func": len, "type": int, "ellipsis": ...,
}

for label, v in VALUES.items():
    show("attr  " + label, lambda v=v: _serialize_attr(v))

STYLES = {
    "none": None, "empty": "", "simple": "color:red", "two": "color:red;margin:0", "trailing": "color:red;",
    "leading": ";color:red", "double-semi": "a:b;;c:d", "spaces": " color : red ; margin : 0 auto ",
    "no-colon": "justtext", "mixed": "nocolon;a:b;also none", "only-colon": ":", "colon-start": ":v", "colon-end": "k:",
    "two-colons": "a:b:c", "url": "background:url(http://x/y.png)", "dup-key": "a:1;a:2", "quote": 'font:"Arial"',
    "newline": "a:b;\nc:d", "only-semis": ";;;", "unicode": "cölor:réd", "strsub": StrSub("x:y"), "jsx": jsx("p:q;r:s"),
    "dict": {"color": "red", "n": 1}, "dict-empty": {}, "dict-nested": {"a": {"b": [1]}}, "attrdict": JSXTagAttrDict(a_b="c"),
    "ordered": OrderedDict(z="1"), "int": 3, "list": ["a:b"], "tuple": (("a", "b"),), "bytes": b"a:b", "true": True,
    "tag": div("x"), "html": HTML("a:b"), "userdict": UserDict({"a": "b"}), "float": 0.0, "false": False, "zero": 0,
}
for label, v in STYLES.items():
    show("style " + label, lambda v=v: _serialize_style_attr(v))

# Through a component: `style` goes through the style serialiser, every other prop
# (including style_ -> style, and Style) through the generic one.
COMPONENTS = {
    "style-str": lambda: Foo(style="color:red;margin:0"),
    "style_": lambda: Foo(style_="a:b"),
    "Style": lambda: Foo(Style="a:b"),
    "style-none": lambda: Foo(style=None),
    "style-dict": lambda: Foo(style={"a": jsx("v"), "b": None}),
    "style-bad": lambda: Foo(style=["a:b"]),
    "style-3": lambda: Foo(style="a:b:c"),
    "style-in-dict-prop": lambda: Foo(p={"style": "a:b"}),
    "all-kinds": lambda: Foo(a=None, b=True, c=False, d=1, e=1.5, f='s"q', g=[1, "x", None], h=(1, 2), i={"k": [1]},
                             j=jsx("() => 1"), k=div("t", class_="c"), l=Bar("b", z=[Bar()]), m=StrSub("ss")),
    "nested-tag-style": lambda: Foo(div("x", style="color:red")),
    "nested-jsx-style": lambda: Foo(Bar(style="color:red"), p=Bar(style={"a": 1})),
}
for label, mk in COMPONENTS.items():
    show("comp  " + label, lambda: str(mk()))

# Input objects are not modified by serialisation
def pure():
    d = {"a": [1, {"b": "c"}], "style": "x:y"}
    l = [d, "s"]
    before = repr((d, l))
    _serialize_attr(l); _serialize_style_attr(d); _serialize_style_attr("a:b")
    return before == repr((d, l))
show("pure", pure)
