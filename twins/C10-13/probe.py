# Probe for refactoring 3: how resolved dependencies are written into a document head
# (HTMLDocument._hoist_head_content, HTMLTextDocument.render).
import os
import tempfile

import htmltools
from htmltools import (
    HTML,
    HTMLDependency,
    HTMLDocument,
    HTMLTextDocument,
    Tag,
    TagList,
    div,
    head_content,
    span,
    tags,
)

from htmltools._jsx import jsx_tag_create


def show(label, fn):
    try:
        print(label, "->", fn())
    except BaseException as e:  # noqa
        print(label, "-> EXC", type(e).__name__, str(e).replace(os.getcwd(), "<cwd>"))


def ids(deps):
    return [(d.name, str(d.version)) for d in deps]


a1 = HTMLDependency("a", "1.0", source={"subdir": "adir"}, script={"src": "a.js"})
a2 = HTMLDependency(
    "a", "1.10", source={"package": "htmltools", "subdir": "libtest/testdep"},
    script=[{"src": "testdep.js"}], stylesheet={"href": "testdep.css"},
    meta={"name": "m", "content": "c"}, head=tags.title("from a2"),
)
b = HTMLDependency("b", "2", source={"href": "https://cdn.example/b"}, stylesheet=[{"href": "b 1.css"}, {"href": "b2.css", "media": "print"}])
c = HTMLDependency("c", "0.0.1", head="<script>alert('c < d')</script>")
nosrc = HTMLDependency("nosrc", "3", script={"src": "x.js", "defer": ""})
badpkg = HTMLDependency("badpkg", "1", source={"package": "no_such_pkg_xyz", "subdir": "s"}, script={"src": "x.js"})

docs = {
    "empty": lambda: HTMLDocument(),
    "no-deps": lambda: HTMLDocument(div("hi")),
    "one": lambda: HTMLDocument(div("hi", a1)),
    "resolve": lambda: HTMLDocument(div(a1, span(b, a2), c), nosrc, lang="en"),
    "body": lambda: HTMLDocument(tags.body(div(a1), b, class_="bd")),
    "html-with-head": lambda: HTMLDocument(tags.html(tags.head(tags.title("T"), c), tags.body(a2, "x"))),
    "html-no-head": lambda: HTMLDocument(tags.html(b, tags.body(a1, "x")), lang="fr"),
    "html-head-later": lambda: HTMLDocument(tags.html(nosrc, tags.body("x"), tags.head(tags.meta(name="k")))),
    "head_content": lambda: HTMLDocument(div(head_content(tags.title("A")), head_content(tags.title("A")), head_content(tags.link(href="z")))),
    "jsx": lambda: HTMLDocument(jsx_tag_create("Foo")(a1, div(b), x=1)),
    "taglist": lambda: HTMLDocument(TagList(a1, a2, "t"), [b, [c]]),
    "badpkg": lambda: HTMLDocument(div(a1, badpkg)),
}
variants = [
    {},
    {"lib_prefix": None},
    {"lib_prefix": ""},
    {"lib_prefix": "my/libs", "include_version": False},
    {"include_version": False},
]
for name, mk in docs.items():
    for v in variants:
        def run():
            r = mk().render(**v)
            return (ids(r["dependencies"]), r["html"])
        show(f"doc {name} {v}", run)

# _hoist_head_content directly
H = HTMLDocument._hoist_head_content
show("hoist-not-html", lambda: H(div(a1), "lib", True))
x = tags.html(tags.head("h"), tags.body(a1, b))
before = str(x.get_html_string())
r = H(x, "L", False)
print("hoist", r.get_html_string())
print("hoist input untouched", before == x.get_html_string(), len(x.children[0].children))
x = tags.html(tags.body("nothing"))
r = H(x, None, True)
print("hoist nodeps", r.get_html_string(), "| input:", x.get_html_string())
x = tags.html(tags.head(), tags.body(badpkg, a1))
show("hoist badpkg", lambda: H(x, "lib", True))
print("after failure input untouched", x.get_html_string())


# a <head> Tag subclass that records how it is filled
class LoudHead(Tag):
    def append(self, *args):
        print("   LoudHead.append", [type(a).__name__ for a in args])
        super().append(*args)

    def extend(self, x):
        x = list(x)
        print("   LoudHead.extend", [type(a).__name__ for a in x])
        super().extend(x)

    def insert(self, index, x):
        print("   LoudHead.insert", index, type(x).__name__)
        super().insert(index, x)


for kids in ([a1, b, a2], [], [c]):
    x = Tag("html", LoudHead("head", "h0"), Tag("body", *kids))
    print("loud", H(x, "lib", True).get_html_string())

# HTMLTextDocument
tmpl = "<html><head>@@DEPS@@</head><body>@@DEPS@@</body></html>"
for deps in ([], [a1], [a1, a2, b, c, nosrc], [a1, a1], [badpkg]):
    for v in variants:
        def run():
            doc = HTMLTextDocument(tmpl, deps=list(deps), deps_replace_pattern="@@DEPS@@")
            r = doc.render(**v)
            same = [x is y for x, y in zip(r["dependencies"], deps)]
            return (ids(r["dependencies"]), same, r["html"])
        show(f"text {ids(deps)} {v}", run)

show("text no deps no pattern", lambda: HTMLTextDocument("<html></html>").render())
show("text deps no pattern", lambda: HTMLTextDocument("<html></html>", deps=[a1]))
show("text pattern absent", lambda: HTMLTextDocument("<html></html>", deps=[a1], deps_replace_pattern="ZZ").render()["html"])

# serialized deps inside the text
htmltools.html_dependency_render_mode = "json"
body = str(div("content", a1, b, a1, c))
htmltools.html_dependency_render_mode = "invisible"
print(body)
doc = HTMLTextDocument("<html><head>@@</head><body>" + body + body + "</body></html>", deps=[nosrc], deps_replace_pattern="@@")
r = doc.render()
print(ids(r["dependencies"]))
print(r["html"])
r2 = doc.render(lib_prefix=None, include_version=False)
print(r2["html"])
print("render twice same deps", ids(r2["dependencies"]) == ids(r["dependencies"]))

# save_html through both entry points
with tempfile.TemporaryDirectory() as td:
    old = os.getcwd()
    os.chdir(td)
    try:
        f = div("saved", a2, c).save_html("out.html", libdir="deps")
        print(f, open(f).read())
        f = TagList(a2, "x").save_html("out2.html", libdir=None, include_version=False)
        print(f, open(f).read())
        listing = []
        for root, dirs, files in os.walk("."):
            dirs.sort()
            for fn in sorted(files):
                listing.append(os.path.join(root, fn))
        print(sorted(listing))
        show("save badsrc", lambda: div(a1).save_html("out3.html"))
    finally:
        os.chdir(old)
