"""Probe for refactoring 4: void / raw-text tag tables and Tag.get_html_string."""
import hashlib
import itertools

from htmltools import HTML, HTMLDependency, Tag, TagList, div, span, tags
from htmltools import _core
from htmltools._core import MetadataNode


def show(label, fn):
    try:
        out = fn()
        print(label, "->", type(out).__name__, repr(out))
    except BaseException as e:  # noqa: BLE001
        print(label, "-> EXC", type(e).__name__)


class S(str):
    pass


class ReprOnly:
    def _repr_html_(self):
        return "<u>r</u>"


# --- the tables ---------------------------------------------------------------------
print(sorted(_core._VOID_TAG_NAMES), len(_core._VOID_TAG_NAMES))
print(sorted(_core._NO_ESCAPE_TAG_NAMES), len(_core._NO_ESCAPE_TAG_NAMES))
for probe_name in ["br", "BR", "div", "", "script", "style", "Style", S("hr"), "wbr ", "command", "keygen"]:
    print(repr(probe_name), probe_name in _core._VOID_TAG_NAMES, probe_name in _core._NO_ESCAPE_TAG_NAMES)

# --- every shape of element ------------------------------------------------------------
dep = HTMLDependency("d", "1.0")
names = ["div", "span", "br", "img", "input", "meta", "link", "hr", "wbr", "command", "keygen", "script",
         "style", "p", "x-custom", "BR", "Script", S("hr"), S("style"), "area", "base", "col", "embed",
         "param", "source", "track"]
child_sets = {
    "none": (),
    "only-dep": (dep,),
    "text": ("a<b&c",),
    "empty-text": ("",),
    "html": (HTML("<i>&raw</i>"),),
    "num": (5,),
    "strsub": (S("s<"),),
    "text+dep": ("t>", dep),
    "two-text": ("a<", "b>"),
    "text+html": ("a&", HTML("<b>")),
    "tag": (span("in&"),),
    "block-tag": (div("blk"),),
    "mixed": ("pre<", span("s"), div("d"), HTML("<hr/>"), ReprOnly(), "post>"),
    "repr-only": (ReprOnly(),),
    "nested": (div(span("x", span()), "y"),),
}
h = hashlib.sha256()
count = 0
for nm, (cs_label, cs), ws in itertools.product(names, child_sets.items(), (True, False)):
    t = Tag(nm, *cs, _add_ws=ws, id="i<'", title=HTML("r&w"))
    outs = [t.get_html_string(), t.get_html_string(3), t.get_html_string(1, "\r\n"), t.get_html_string(0, ""), str(t)]
    for o in outs:
        h.update(o.encode() + b"\0")
    count += 1
    if nm in ("div", "br", "script", "style", "BR", "span") or cs_label in ("none", "only-dep"):
        print(nm, cs_label, ws, [repr(o) for o in outs[:3]])
print("all shapes", count, h.hexdigest())

# --- keyword / positional forms and odd arguments -------------------------------------
t = div("a", span("b"), "c")
show("kw", lambda: t.get_html_string(indent=2, eol="|"))
show("pos", lambda: t.get_html_string(2, "|"))
show("indent 0 eol empty", lambda: t.get_html_string(0, ""))
show("indent negative", lambda: t.get_html_string(-1))
show("indent True", lambda: t.get_html_string(True))
show("indent str", lambda: t.get_html_string("2"))
show("indent None", lambda: t.get_html_string(None))
show("indent float", lambda: t.get_html_string(1.0))
show("eol None multi", lambda: t.get_html_string(1, None))
show("eol None leaf", lambda: div("x").get_html_string(1, None))
show("eol None void", lambda: tags.br().get_html_string(1, None))
show("eol None inline", lambda: span("a", span("b")).get_html_string(1, None))
show("eol int", lambda: t.get_html_string(0, 5))

# --- odd tag state ----------------------------------------------------------------------
show("name None", lambda: Tag(None).get_html_string())
show("name int", lambda: Tag(5, "x").get_html_string())
show("name HTML", lambda: Tag(HTML("b"), "x").get_html_string())
show("name empty", lambda: Tag("", "x").get_html_string())
u = div("x")
u.name = "br"
show("renamed to void with child", lambda: u.get_html_string())
u.children = TagList()
show("renamed to void no child", lambda: u.get_html_string())
u.name = "script"
u.children = TagList("a<b", "c&d")
show("script two strings", lambda: u.get_html_string())
u.children = TagList("a<b", span("<"), "c&d")
show("script mixed", lambda: u.get_html_string())
u.add_ws = False
show("script mixed inline", lambda: u.get_html_string())
v = div("only")
del v.add_ws
show("no add_ws, single text", lambda: v.get_html_string())
v.children = TagList()
show("no add_ws, empty", lambda: v.get_html_string())
v.children = TagList("a", "b")
show("no add_ws, two", lambda: v.get_html_string())
w = span("a", span("b"))
w.add_ws = 0
show("add_ws 0", lambda: w.get_html_string())
w.add_ws = "yes"
show("add_ws str", lambda: w.get_html_string(1))
w.children.data.append(12)
show("raw int child", lambda: w.get_html_string())
x = div()
x.children.data.append(7)
show("single raw int child", lambda: x.get_html_string())
x.attrs = {"a": 1}
show("non-str attr value", lambda: x.get_html_string())


class Meta(MetadataNode):
    pass


print(repr(str(tags.br(Meta()))))
print(repr(str(tags.br(Meta(), ""))))
print(repr(str(div(Meta(), dep))))
print(repr(str(div(Meta(), "t<", dep))))
print(repr(str(tags.script(Meta(), "a<b", dep))))
print(repr(str(tags.style(HTML("p>a{}")))))
print(repr(str(tags.script("1<2", "3>4", type="m"))))
print(repr(str(TagList(tags.meta(charset="utf-8"), tags.link(rel="x", href="a&b"), tags.img(src="s", alt="'q'")))))
print(repr(tags.html(tags.head(tags.title("T&T")), tags.body(tags.p("x", tags.br(), "y"), tags.input(disabled=True))).get_html_string()))
