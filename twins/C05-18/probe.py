# Probe for refactoring 3: _tagchilds_to_tagnodes (child normalisation used by TagList/Tag constructors,
# extend/append/insert, slice replacement in tagify) and the rendering of the resulting sibling sequences.
import enum
from htmltools import HTML, Tag, TagList, HTMLDependency, div, span, a, p, tags
from htmltools import _core

events = []


class Repr:
    def __init__(self, s):
        self.s = s

    def _repr_html_(self):
        return self.s


class Tagif:
    def __init__(self, out):
        self.out = out

    def tagify(self):
        events.append("tagify")
        return self.out() if callable(self.out) else self.out


class LoudInt(int):
    def __str__(self):
        events.append(("LoudInt.__str__", int(self)))
        return "L" + int.__repr__(self)


class BadInt(int):
    def __str__(self):
        events.append("BadInt.__str__")
        raise ValueError("no str for you")


class Color(enum.IntEnum):
    RED = 1


class StrSub(str):
    pass


class Plain:
    pass


def gen(*xs):
    for x in xs:
        events.append(("yield", type(x).__name__))
        yield x


def kinds(nodes):
    return [(type(n).__name__, n if isinstance(n, (str,)) else None) for n in nodes]


def show(label, fn):
    try:
        r = fn()
        if isinstance(r, (TagList, list)):
            print(label, "->", type(r).__name__, kinds(r))
        else:
            print(label, "->", type(r).__name__, repr(r))
    except BaseException as e:  # noqa
        print(label, "!!", type(e).__name__, str(e))
    if events:
        print("   events:", events)
        events.clear()


dep = HTMLDependency("x", "1.0", source={"subdir": "."}, script={"src": "x.js"})
f = _core._tagchilds_to_tagnodes

inputs = {
    "empty list": [],
    "empty tuple": (),
    "str": "abc",
    "empty str": "",
    "strsub": StrSub("sub"),
    "list of str": ["a", "b"],
    "nested": ["a", ["b", ("c", [None, "d"])], None, TagList("e", ["f"])],
    "numbers": [1, 2.5, -0.0, True, False, 10**30, float("inf"), float("nan")],
    "loud int": [LoudInt(3), "x", LoudInt(4)],
    "bad int": ["x", LoudInt(1), BadInt(2), LoudInt(3)],
    "intenum": [Color.RED],
    "complex": [1j],
    "bytes": [b"x"],
    "dict": [{"a": 1}],
    "set": [{1}],
    "plain obj": ["ok", Plain(), 5],
    "plain obj after nums": [LoudInt(7), Plain(), LoudInt(8)],
    "html": [HTML("<b>"), "t"],
    "repr": [Repr("<r>")],
    "tagif": [Tagif("x")],
    "dep": [dep, "a", dep],
    "tags": [div("a"), span("b")],
    "taglist": TagList("a", span("b")),
    "taglist in list": [TagList(), TagList(TagList("z"))],
    "gen": gen("a", 1, None, ["b"]),
    "gen with bad": gen("a", Plain(), "never"),
    "nested gen": [gen("a")],
    "range": range(3),
    "dict as iterable": {"k1": 1, "k2": 2},
    "None": None,
    "int": 5,
    "Tag (not iterable)": div(),
    "HTML iterable": HTML("hi"),
    "bytes iterable": b"hi",
    "strsub in list": [StrSub("q")],
}
for label, x in inputs.items():
    show(f"nodes[{label}]", lambda: f(x))

# identity / freshness
items = [span("a"), "s", HTML("h"), dep]
out = f(items)
print("same objects:", [o is i for o, i in zip(out, items)], "fresh list:", out is not items)
tl = TagList("a")
out = f(tl)
print("fresh from TagList:", out is not tl.data, out == tl.data)
s = "just a string"
print("str fast path:", f(s)[0] is s)
print("input not altered:", (lambda l: (f(l), l))([1, [2, None]])[1])

# public construction paths
show("TagList()", lambda: TagList())
show("TagList(mixed)", lambda: TagList("a", 1, None, [2.5, ("b", None)], span("c"), TagList("d")))
show("TagList(bad)", lambda: TagList("a", Plain()))
show("TagList(dict)", lambda: TagList({"class": "x"}))
show("Tag(mixed)", lambda: Tag("div", "a", 1, None, {"id": "i"}, [2.5, ("b",)], span("c")).children)
show("Tag(bad)", lambda: Tag("div", "a", object()))
show("Tag(LoudInt)", lambda: str(span(LoudInt(5), LoudInt(6))))
show("Tag(BadInt)", lambda: span(LoudInt(5), BadInt(6), LoudInt(7)))


def mutate(method, *args):
    def run():
        t = TagList("x", span("y"))
        getattr(t, method)(*args)
        return t

    return run


show("extend list", mutate("extend", [1, None, ["z"]]))
show("extend str", mutate("extend", "abc"))
show("extend gen", mutate("extend", gen("g", 2)))
show("extend bad", mutate("extend", ["ok", Plain()]))
show("extend None", mutate("extend", None))
show("append one", mutate("append", 1))
show("append many", mutate("append", "a", None, [2, [3]]))
show("append bad", mutate("append", "a", Plain()))
show("append str", mutate("append", "abc"))
show("insert 0", mutate("insert", 0, ["i", 1, None]))
show("insert 1 str", mutate("insert", 1, "abc"))
show("insert neg", mutate("insert", -1, 7))
show("insert none", mutate("insert", 1, None))
show("insert bad", mutate("insert", 1, Plain()))
show("add list", lambda: TagList("x") + [1, "y"])
show("add str", lambda: TagList("x") + "abc")
show("add int", lambda: TagList("x") + 5)
show("radd list", lambda: [1, "y"] + TagList("x"))
show("radd str", lambda: "abc" + TagList("x"))
show("radd tuple", lambda: (1, None) + TagList("x"))


def iadd(x):
    def run():
        t = TagList("x")
        t += x
        return t

    return run


show("iadd list", iadd([1, [None, "z"]]))
show("iadd str", iadd("abc"))
show("iadd bad", iadd([Plain()]))

t = div("a")
t.append(1, [2, None], span("s"))
t.extend(["e", 3.5])
t.insert(0, [0, "first"])
show("Tag append/extend/insert", lambda: t.children)
show("Tag rendered", lambda: str(t))

# tagify: a Tagifiable returning a TagList is flattened in place through the same helper
show(
    "tagify taglist",
    lambda: TagList("a", Tagif(lambda: TagList("b", 1, [None, span("c")])), "d").tagify(),
)
show("tagify -> empty", lambda: TagList("a", Tagif(TagList()), "d").tagify())
show("tagify -> str", lambda: TagList("a", Tagif("s"), "d").tagify())
show("tagify rendered", lambda: str(div("a", Tagif(lambda: TagList(span("b"), "c")), span("d"))))
bad = TagList("q")
bad.data.append(Plain())
show("tagify -> TagList holding a bad item", lambda: TagList(Tagif(bad)).tagify())

# numbers and text end up as adjacent inline siblings with nothing between them
show("render numbers", lambda: str(span(1, 2.5, "x", True, None, [3, ["y"]])))
show("render block", lambda: str(div(1, span(2), [3, div(4)], "t")))
show("render list", lambda: str(TagList(1, span(2), [3, div(4)], "t")))
