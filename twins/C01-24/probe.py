# Probe for refactoring 4: TagAttrDict.update (attribute collection, same-name merging, ordering)
import itertools
from collections import OrderedDict
from types import MappingProxyType
from htmltools import HTML, Tag, TagList, div, span, tags
from htmltools._core import TagAttrDict


def d(v):
    return f"{type(v).__name__}:{str(v)!r}"


def show(label, fn):
    try:
        r = fn()
        if isinstance(r, dict):
            out = type(r).__name__ + "{" + ", ".join(f"{k!r}: {d(v)}" for k, v in r.items()) + "}"
        else:
            out = d(r)
        print(label, "->", out)
    except Exception as e:  # noqa
        print(label, "-> EXC", type(e).__name__, str(e))


class S(str):
    pass


VALS = {
    "plain": "a b",
    "amp": "x&y",
    "quote": "q\"'",
    "nl": "l1\nl2\r",
    "lt": "<i>",
    "empty": "",
    "html": HTML("<b>&amp;\"</b>"),
    "html_empty": HTML(""),
    "true": True,
    "false": False,
    "none": None,
    "int": 3,
    "zero": 0,
    "float": 2.5,
    "nan": float("nan"),
    "sub": S("s&s"),
}
vn = list(VALS)

# single values through every entry point
for n in vn:
    v = VALS[n]
    show(f"ctor kw {n}", lambda: TagAttrDict(title=v))
    show(f"ctor dict {n}", lambda: TagAttrDict({"title": v}))
    show(f"update kw {n}", lambda: (lambda a: (a.update(title=v), a)[1])(TagAttrDict(title="old", other="o")))
    show(f"setitem {n}", lambda: (lambda a: (a.__setitem__("title", v), a)[1])(TagAttrDict(title="old", other="o")))
    show(f"render {n}", lambda: div(title=v).get_html_string())

# every ordered pair merged under the same name, three ways
for a, b in itertools.product(vn, repeat=2):
    va, vb = VALS[a], VALS[b]
    show(f"pair dicts {a},{b}", lambda: TagAttrDict({"class": va}, {"class": vb}))
    show(f"pair dict+kw {a},{b}", lambda: TagAttrDict({"class": va}, class_=vb))
    show(f"pair alias {a},{b}", lambda: TagAttrDict({"data_x": va, "data-x": vb}))
    show(f"pair render {a},{b}", lambda: str(div({"class": va}, "kid", class_=vb)))
    show(f"pair update-existing {a},{b}", lambda: (lambda t: (t.update({"k": va}, k=vb), t)[1])(TagAttrDict(k="orig", z="z")))

# triples (merge result merged again)
for a, b, c in itertools.product(["plain", "amp", "html", "true", "none", "int", "quote"], repeat=3):
    show(f"triple {a},{b},{c}", lambda: TagAttrDict({"k": VALS[a]}, {"k_": VALS[b]}, k=VALS[c]))

# ordering of names across several mappings and kwargs
show("order 1", lambda: TagAttrDict({"b": "1", "a": "2"}, {"c": "3", "a": "4"}, d="5", b="6"))
show("order 2", lambda: TagAttrDict({"x": None, "y": "1"}, {"x": "2"}, y=None, x_="3", w=False))
show("order 3", lambda: (lambda t: (t.update({"c": "9", "q": "8"}, a="7"), t)[1])(TagAttrDict(a="1", b="2", c="3")))
show("order render", lambda: str(tags.a({"href": "u?a=1&b=2", "class_": "c1"}, "t", class_="c2", id="i", href=None)))
show("names", lambda: TagAttrDict(class_="a", for_="b", data_foo_bar="c", _x="d", __="e", a_b_="f", **{"aria-label": "g", "x:y": "h"}))
show("name collide", lambda: TagAttrDict({"a_b": "1", "a-b": "2", "a_b_": "3"}, **{"a-b": "4"}))
show("empty calls", lambda: TagAttrDict())
show("empty dicts", lambda: TagAttrDict({}, {}, {}))
show("empty update", lambda: (lambda t: (t.update(), t)[1])(TagAttrDict(a="1")))
show("empty update dict", lambda: (lambda t: (t.update({}), t)[1])(TagAttrDict(a="1")))
show("attrdict arg", lambda: TagAttrDict(TagAttrDict(a="1", b=HTML("<")), TagAttrDict(a="2")))
show("ordereddict arg", lambda: TagAttrDict(OrderedDict([("z", "1"), ("a", "2")]), z="3"))
show("proxy arg", lambda: TagAttrDict(MappingProxyType({"z": "1"}), z=HTML("h")))
show("kw named self-ish", lambda: TagAttrDict(args="1", kwargs="2", arg="3"))
show("tag ctor", lambda: Tag("p", {"id": "a"}, "child", {"id": "b", "k": 1}, id="c", k=None).attrs)
show("tag attrs after update", lambda: (lambda t: (t.attrs.update({"class": "n1"}, class_=HTML("n&2")), t.attrs)[1])(div(class_="c0")))
show("tag render after update", lambda: (lambda t: (t.attrs.update({"class": "n1"}, class_=HTML("n&2")), str(t))[1])(div(class_="c0")))

# errors: type and message, and whether earlier items were stored
def partial(fn):
    t = TagAttrDict(keep="k")
    try:
        fn(t)
    except Exception as e:  # noqa
        return dict(t, _exc=type(e).__name__ + ": " + str(e))
    return t


show("bad value list", lambda: partial(lambda t: t.update({"a": "1"}, {"b": ["x"]}, c="2")))
show("bad value in kw", lambda: partial(lambda t: t.update({"a": "1"}, c=object)))
show("bad value bytes", lambda: partial(lambda t: t.update(a=b"x")))
show("bad value dict", lambda: partial(lambda t: t.update(a={"x": 1})))
show("bad second of merge", lambda: partial(lambda t: t.update({"a": "1"}, a=[1])))
show("non mapping arg", lambda: partial(lambda t: t.update([("a", "1")])))
show("non mapping after ok", lambda: partial(lambda t: t.update({"a": "1"}, "str", b="2")))
show("None arg", lambda: partial(lambda t: t.update(None)))
show("None arg with kw", lambda: partial(lambda t: t.update(None, a="1")))
show("int key", lambda: partial(lambda t: t.update({1: "x"})))
show("int key skipped", lambda: partial(lambda t: t.update({1: None, "a": "1"})))
show("None key", lambda: partial(lambda t: t.update({None: "x"})))
show("ctor bad", lambda: TagAttrDict({"a": "1"}, b=[1]))
show("tag ctor bad", lambda: div(style={"color": "red"}))
show("html + weird", lambda: TagAttrDict({"a": HTML("h")}, a=5))
show("int + html", lambda: TagAttrDict({"a": 5}, a=HTML("<h>")))
show("bool + html", lambda: TagAttrDict({"a": True}, a=HTML("<h>")))
show("html + bool", lambda: TagAttrDict({"a": HTML("<h>")}, a=True))
