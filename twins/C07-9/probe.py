# Probe for HTMLDocument rendering / HTMLDocument._hoist_head_content: metadata nodes
# (dependencies) are hoisted into <head> and leave no trace in the body markup.
import os
import tempfile
from htmltools import (
    HTML, HTMLDependency, HTMLDocument, Tag, TagList, div, span, tags, head_content,
)
from htmltools._core import MetadataNode


class Meta(MetadataNode):
    pass


class Tagif:
    def __init__(self, r):
        self.r = r

    def tagify(self):
        return self.r()


def dep(n="a", v="1.0", **kw):
    return HTMLDependency(n, v, **kw)


def show(label, fn):
    try:
        r = fn()
        print(label, "->", type(r).__name__, repr(r))
    except Exception as e:  # noqa: BLE001
        print(label, "!!", type(e).__name__, str(e))


def html_tag(*kids, **kw):
    return Tag("html", *kids, **kw)


def head(*kids):
    return Tag("head", *kids)


def body(*kids):
    return Tag("body", *kids)


CASES = {
    "empty": lambda: [],
    "text": lambda: ["hello"],
    "meta only": lambda: [Meta(), dep()],
    "fragment": lambda: [dep("d1"), div("a", dep("d2", head="<meta name='x'>")), Meta(), "t"],
    "body": lambda: [body(dep("b1"), "in body", Meta())],
    "body+meta": lambda: [Meta(), body("in body")],
    "html no head": lambda: [html_tag(body("x", dep("h1")))],
    "html head first": lambda: [html_tag(head(tags.title("T")), body("x", dep("h1")))],
    "html dep before head": lambda: [html_tag(dep("first"), Meta(), head(tags.title("T")), body("x"))],
    "html text before head": lambda: [html_tag("stray", head(), body())],
    "html head last": lambda: [html_tag(body("x"), dep("mid"), head(tags.title("T")))],
    "html two heads": lambda: [html_tag(head("h1"), Meta(), head("h2"), body())],
    "html nested head only": lambda: [html_tag(div(head("nested")), dep("n"))],
    "html HEAD upper": lambda: [html_tag(Tag("HEAD", "u"), body())],
    "html only meta": lambda: [html_tag(Meta(), dep("only"))],
    "html empty": lambda: [html_tag()],
    "html with attrs": lambda: [html_tag(head(), body(dep("x")), lang="fr")],
    "two html": lambda: [html_tag(head()), html_tag(body())],
    "tagifiable html": lambda: [Tagif(lambda: html_tag(dep("th"), head("q")))],
    "tagifiable body": lambda: [Tagif(lambda: body(dep("tb"), "q"))],
    "tagifiable list": lambda: [Tagif(lambda: TagList(dep("tl"), div("q"), Meta()))],
    "head_content": lambda: [div("x"), head_content(tags.title("HC"), tags.style("a>b{}")), dep("z")],
    "dups": lambda: [dep("same", "1.0"), div(dep("same", "2.0")), dep("same", "1.5")],
    "script dep": lambda: [div(dep("s", "1", source={"subdir": "/nonexistent"}, script={"src": "s.js"},
                                  stylesheet={"href": "s.css"}))],
}

for label, mk in CASES.items():
    for kw in ({}, {"lang": "en"}):
        doc = HTMLDocument(*mk(), **kw)
        show(f"{label} {kw}", lambda: doc.render())
        show(f"{label} {kw} again", lambda: doc.render()["html"])  # rendering must not mutate doc
    doc = HTMLDocument(*mk())
    show(f"{label} prefix=None noversion", lambda: doc.render(lib_prefix=None, include_version=False))
    show(f"{label} prefix=x/y", lambda: doc.render(lib_prefix="x/y")["html"])

# metadata-free twin of a document renders the same html
with_meta = HTMLDocument(Meta(), div(Meta(), "a", span("b"), Meta()), Meta(), "t")
without = HTMLDocument(div("a", span("b")), "t")
print("twin equal:", with_meta.render()["html"] == without.render()["html"])

# direct calls of the static helper (keyword form)
h = html_tag(dep("k1"), "txt", head(tags.title("T")), body(div(dep("k2"))))
orig_children = list(h.children)
orig_head = h.children[2]
show("direct", lambda: HTMLDocument._hoist_head_content(h, lib_prefix="lib", include_version=True))
r = HTMLDocument._hoist_head_content(h, lib_prefix=None, include_version=False)
print("input untouched:", all(a is b for a, b in zip(h.children, orig_children)), len(h.children),
      repr(str(orig_head.get_html_string())))
print("result shares non-head children:", [a is b for a, b in zip(r.children, orig_children)])
print("result head is new:", r.children[2] is not orig_head, r is not h)
h2 = html_tag(Meta(), body())
r2 = HTMLDocument._hoist_head_content(h2, lib_prefix="p", include_version=True)
print("inserted head:", [type(c).__name__ + ":" + getattr(c, "name", "") for c in r2.children],
      [type(c).__name__ for c in h2.children])
show("direct non-html", lambda: HTMLDocument._hoist_head_content(div(), lib_prefix="lib", include_version=True))

# save_html end to end
with tempfile.TemporaryDirectory() as d:
    f = os.path.join(d, "out.html")
    HTMLDocument(dep("sv"), div("saved", Meta())).save_html(f)
    print("saved:", repr(open(f).read()), sorted(os.listdir(d)))
    div("tagsave", dep("sv2")).save_html(f, libdir=None)
    print("saved2:", repr(open(f).read()), sorted(os.listdir(d)))
    TagList(Meta(), "tl", dep("sv3")).save_html(f, include_version=False)
    print("saved3:", repr(open(f).read()), sorted(os.listdir(d)))
