# Probe for refactoring 4: htmltools._util.html_escape (and its callers).
import hashlib
import itertools
import random

import htmltools
from htmltools import HTML, TagList, div, span, tags, html_escape
from htmltools import _util


def show(label, thunk):
    try:
        out = thunk()
        print(label, "->", type(out).__name__, repr(out))
    except BaseException as e:  # noqa
        print(label, "-> EXC", type(e).__name__, str(e)[:90])


class S(str):
    pass


print("same function:", html_escape is _util.html_escape, _util._html_escape is _util.html_escape)
print("tables:", _util.HTML_ESCAPE_TABLE, _util.HTML_ATTRS_ESCAPE_TABLE)

# exhaustive over a small alphabet (all special characters + look-alikes)
ALPHA = ["&", "<", ">", '"', "'", "\r", "\n", "a", ";", "#", "é", "\t"]
digest = hashlib.sha256()
count = 0
for n in range(0, 5):
    for tup in itertools.product(ALPHA, repeat=n):
        s = "".join(tup)
        for attr in (False, True):
            out = html_escape(s, attr)
            digest.update(repr((s, attr, out, out is s)).encode())
            count += 1
            if n <= 2:
                print("esc", repr(s), attr, "->", repr(out), out is s)
print("exhaustive:", count, digest.hexdigest())

# hand-picked corner cases
CASES = [
    "", " ", "plain", "&amp;", "&amp;amp;", "&lt;&gt;", "&#13;&#10;", "&quot;&apos;", "a&b<c>d\"e'f\rg\nh",
    "<script>alert('x' && \"y\")</script>", "\r\n\r\n", "&" * 50, "<" * 3 + ">" * 3, "\x00<\x00", "  &", "\U0001F600<",
    "\ud800&", "x" * 1000 + "&", "&#38;", "&;", "&&amp", "\\n\\r", "\x0b\x0c\x1c\x85",
]
for s in CASES:
    for attr in (False, True):
        show(f"case {s[:30]!r} attr={attr}", lambda: html_escape(s, attr))
    show(f"twice {s[:30]!r}", lambda: html_escape(html_escape(s), True))
    show(f"kw {s[:30]!r}", lambda: html_escape(text=s, attr=False))

# randomised
rnd = random.Random(20240404)
digest = hashlib.sha256()
for _ in range(20000):
    s = "".join(rnd.choice(ALPHA + ["b", " ", "amp", "lt", "&#"]) for _ in range(rnd.randrange(0, 30)))
    attr = rnd.random() < 0.5
    out = html_escape(s, attr)
    digest.update(repr((s, attr, out, out is s)).encode())
print("random:", digest.hexdigest())

# `attr` truthiness variants
for attr in (0, 1, None, "", "x", [], [0], 0.0, 2, object()):
    show(f"attr={type(attr).__name__}:{bool(attr)}", lambda: html_escape("<'\">&\r\n", attr))


class BadBool:
    def __bool__(self):
        raise RuntimeError("no truth")


show("attr bad bool", lambda: html_escape("<", BadBool()))
show("attr bad bool, bad text", lambda: html_escape(5, BadBool()))

# str subclasses: type and identity of the result
for s in (S(""), S("plain"), S("a<b"), S("a'b")):
    for attr in (False, True):
        show(f"S({str(s)!r}) attr={attr}", lambda: (lambda o: (type(o).__name__, o, o is s))(html_escape(s, attr)))

# non-str input
for bad in (None, 5, 2.5, True, b"a<b", b"", bytearray(b"<"), memoryview(b"<"), ["<"], ("<",), {"<": 1}, HTML("<"), HTML("x"), div("x"), object):
    for attr in (False, True):
        show(f"bad {type(bad).__name__} attr={attr}", lambda: html_escape(bad, attr))
show("no args", lambda: html_escape())
show("extra args", lambda: html_escape("a", True, 1))

# callers: children, attributes, HTML concatenation, attribute merging
RAW = "<b a='1' c=\"2\">&amp; & \r\n</b>"
show("child", lambda: str(div(RAW)))
show("child html", lambda: str(div(HTML(RAW))))
show("children", lambda: str(span(RAW, HTML(RAW), RAW)))
show("attr", lambda: str(div(title=RAW)))
show("attr html", lambda: str(div(title=HTML(RAW))))
show("attr merge", lambda: str(div({"class": RAW}, class_=HTML(RAW))))
show("attr merge rev", lambda: str(div({"class": HTML(RAW)}, class_=RAW)))
show("script", lambda: str(tags.script(RAW, type=RAW)))
show("style", lambda: str(tags.style(RAW, RAW)))
show("concat", lambda: (RAW + HTML(RAW) + RAW))
show("concat as child", lambda: str(div(RAW + HTML(RAW) + RAW)))
show("taglist", lambda: str(TagList(RAW, HTML(RAW), S(RAW))))
show("css", lambda: htmltools.css(color="a'<b>", font_size_="1&2"))
show("add_class", lambda: str(div().add_class(RAW).add_class(HTML(RAW))))
