# Probe for refactoring 1: TagList.get_html_string (leaf rendering paths).
import itertools
from htmltools import HTML, Tag, TagList, tags, div, span, HTMLDependency

LOG = []


class Repr:
    def __init__(self, s, name="r"):
        self.s = s
        self.name = name

    def _repr_html_(self):
        LOG.append(("repr", self.name))
        return self.s


class Tagif:
    def tagify(self):
        LOG.append("tagify")
        return span("tagified & <ok>")


class Both:
    # Both Tagifiable and ReprHtml: ReprHtml wins in get_html_string()
    def tagify(self):
        LOG.append("both.tagify")
        return HTML("<i>both</i>")

    def _repr_html_(self):
        LOG.append("both.repr")
        return "<u>both-repr</u>"


def show(label, thunk):
    del LOG[:]
    try:
        out = thunk()
        print(label, "->", repr(out), "| log:", LOG)
    except BaseException as e:  # noqa
        print(label, "-> EXC", type(e).__name__, str(e)[:90], "| log:", LOG)


RAW = "<b a='1' c=\"2\">&amp; & \r\n</b>"
dep = HTMLDependency(name="x", version="1.0")

leafs = {
    "str": RAW,
    "empty": "",
    "html": HTML(RAW),
    "htmlempty": HTML(""),
    "repr": Repr(RAW),
    "tag_ws": div(RAW),
    "tag_inline": span(HTML(RAW), RAW),
    "dep": dep,
    "both": Both(),
}

# every ordered pair / triple of leaves, every keyword combination
for n in (1, 2, 3):
    for combo in itertools.product(sorted(leafs), repeat=n):
        if n == 3 and not ({"str", "html", "repr"} & set(combo)):
            continue
        tl = TagList(*[leafs[k] for k in combo])
        for add_ws in (True, False):
            for esc in (True, False):
                for indent, eol in ((0, "\n"), (2, "\n"), (1, ""), (3, "\r\n")):
                    if n == 3 and (indent, eol) not in ((0, "\n"), (2, "\n")):
                        continue
                    show(
                        f"TL{combo} ws={add_ws} esc={esc} ind={indent} eol={eol!r}",
                        lambda: tl.get_html_string(
                            indent, eol, add_ws=add_ws, _escape_strings=esc
                        ),
                    )

# default arguments and other rendering paths
tl = TagList("a<b", HTML("<hr>"), Repr("<p>&</p>"), div("x", HTML("<y>")), "z>", dep)
show("default", lambda: tl.get_html_string())
show("str", lambda: str(tl))
show("repr", lambda: repr(tl))
show("_repr_html_", lambda: tl._repr_html_())
show("render", lambda: tl.render()["html"])
show("empty", lambda: TagList().get_html_string())
show("only-dep", lambda: TagList(dep, dep).get_html_string(4))

# inside tags, including <script>/<style> with several children
for name in ("div", "span", "script", "style", "pre", "p"):
    for kids in (
        (RAW, HTML(RAW)),
        (HTML(RAW), RAW, Repr(RAW)),
        (Repr(RAW), dep, RAW),
        (RAW, span(RAW), RAW),
        (dep, RAW, dep, HTML(RAW)),
    ):
        for ws in (True, False):
            t = Tag(name, *kids, _add_ws=ws)
            show(f"Tag {name} ws={ws} n={len(kids)}", lambda: t.get_html_string())
            show(f"Tag {name} ws={ws} n={len(kids)} ind", lambda: t.get_html_string(2, "\r\n"))
            show(f"Tag {name} ws={ws} n={len(kids)} str", lambda: str(t))

# non-tagified objects
show("tagifiable-first", lambda: TagList(Tagif(), "x").get_html_string())
show("tagifiable-after-repr", lambda: TagList(Repr("<q>", "q"), Tagif(), Repr("n", "never")).get_html_string())
show("tagifiable-str", lambda: str(TagList(Repr("<q>", "q"), Tagif(), "a&b")))
show("both-str", lambda: str(TagList("x", Both())))
show("tagifiable-in-script", lambda: Tag("script", "a", Tagif()).get_html_string())

# odd arguments: laziness of the indentation / order of side effects
show("indent-str-empty", lambda: TagList().get_html_string("x"))
show("indent-str-dep", lambda: TagList(dep).get_html_string("x"))
show("indent-str-repr", lambda: TagList(Repr("<q>", "q")).get_html_string("x"))
show("indent-str-repr-nows", lambda: TagList(Repr("<q>", "q")).get_html_string("x", add_ws=False))
show("indent-str-text", lambda: TagList("a&b").get_html_string("x"))
show("indent-str-text-nows", lambda: TagList("a&b").get_html_string("x", add_ws=False))
show("indent-neg", lambda: TagList("a&b", Repr("<q>", "q")).get_html_string(-3))
show("indent-bool", lambda: TagList("a&b", div("c")).get_html_string(True))
show("eol-none", lambda: TagList(Repr("1", "one"), div("c"), Repr("2", "two")).get_html_string(0, None))
show("eol-none-inline", lambda: TagList(Repr("1", "one"), Repr("2", "two")).get_html_string(0, None, add_ws=False))
show("repr-returns-int", lambda: TagList(Repr(5, "five"), Repr("n", "never")).get_html_string())
show("repr-returns-html", lambda: TagList(Repr(HTML("<h>"), "h")).get_html_string())

# items smuggled past the constructor checks
tl = TagList("ok")
tl.data.append(7)
tl.data.append(Repr("n", "never"))
show("smuggled-int-esc", lambda: tl.get_html_string())
show("smuggled-int-noesc", lambda: tl.get_html_string(_escape_strings=False))
tl = TagList(Repr("1", "one"))
tl.data.append(None)
show("smuggled-none", lambda: tl.get_html_string(_escape_strings=False))
tl = TagList()
tl.data.append(b"by<tes")
show("smuggled-bytes-esc", lambda: tl.get_html_string())
show("smuggled-bytes-noesc", lambda: tl.get_html_string(_escape_strings=False))


class S(str):
    pass


tl = TagList(S("sub<class"), HTML(S("h<tml")))
show("str-subclass", lambda: (tl.get_html_string(), type(tl.get_html_string(_escape_strings=False)).__name__))
show("str-subclass-noesc", lambda: tl.get_html_string(1, _escape_strings=False))
