# Probe for refactoring 1: Tag.get_html_string (attribute writer, empty/void/single-text branches)
import html.parser
from htmltools import HTML, Tag, TagList, div, span, tags, HTMLDependency, head_content
from htmltools._core import MetadataNode


def show(label, fn):
    try:
        r = fn()
        print(label, "->", type(r).__name__, repr(r if isinstance(r, str) else str(r)))
    except Exception as e:  # noqa
        print(label, "-> EXC", type(e).__name__)


class Tokens(html.parser.HTMLParser):
    def __init__(self):
        super().__init__(convert_charrefs=True)
        self.out = []

    def handle_starttag(self, tag, attrs):
        self.out.append(("S", tag, attrs))

    def handle_startendtag(self, tag, attrs):
        self.out.append(("SE", tag, attrs))

    def handle_endtag(self, tag):
        self.out.append(("E", tag))

    def handle_data(self, data):
        self.out.append(("D", data))


def toks(s):
    p = Tokens()
    p.feed(s)
    p.close()
    return p.out


class Rep:
    def _repr_html_(self):
        return "<i>rep</i>"


class Tfy:
    def tagify(self):
        return span("tfy")


dep = HTMLDependency("x", "1.0")
NASTY = ["", "a", "a&b", "<>", '"q"', "'s'", "l1\nl2", "cr\rlf", "&amp;", "  pad  ", "é☃", "a<b>c&d\"e'f\ng\rh"]

cases = []
# void / empty / metadata-only children
for nm in ["br", "img", "input", "meta", "div", "span", "p", "script", "style", "custom-el", "BR", "command", "wbr"]:
    cases.append((f"empty {nm}", Tag(nm)))
    cases.append((f"attrs {nm}", Tag(nm, id="a", class_="b c", data_x=1, hidden=True, skip=None, no=False)))
    cases.append((f"deponly {nm}", Tag(nm, dep)))
    cases.append((f"text {nm}", Tag(nm, "x<y&z")))
    cases.append((f"html {nm}", Tag(nm, HTML("<b>&</b>"))))
    cases.append((f"two {nm}", Tag(nm, "a<", HTML("<b>"))))
    cases.append((f"dep+text {nm}", Tag(nm, dep, "t>")))
    cases.append((f"noadd_ws {nm}", Tag(nm, "a", span("b"), "c", _add_ws=False)))
    cases.append((f"nested {nm}", Tag(nm, div(span("s"), "t"), Tag("br"), 3, 1.5, None, [["x"], ("y",)])))
for v in NASTY:
    cases.append((f"attrval {v!r}", div(title=v)))
    cases.append((f"attrhtml {v!r}", div(title=HTML(v))))
    cases.append((f"child {v!r}", div(v)))
    cases.append((f"childhtml {v!r}", div(HTML(v))))
    cases.append((f"script {v!r}", tags.script(v)))
    cases.append((f"style2 {v!r}", tags.style(v, v)))
cases.append(("many attrs", div({"a": "1", "b_c": "2"}, {"a": "3"}, z="9", a_="4", class_="k")))
cases.append(("merge html", div({"class": HTML("a&b")}, class_="c<d")))
cases.append(("repr child", div(Rep())))
cases.append(("repr children", div(Rep(), "x", Rep())))
cases.append(("taglist child", div(TagList("a", span("b")), TagList())))
cases.append(("deep", div(div(div(div("x"), span(span("y"), "z")), Tag("hr"), Tag("img", src="a&b")))))
cases.append(("head", div(head_content(tags.title("t")), "body")))
cases.append(("num name child", Tag("td", 0)))
cases.append(("bool child", Tag("td", True)))

for label, t in cases:
    for indent, eol in [(0, "\n"), (2, "\n"), (1, ""), (0, "\r\n")]:
        show(f"{label} [{indent},{eol!r}]", lambda: t.get_html_string(indent, eol))
    show(f"{label} str", lambda: str(t))
    try:
        print(label, "tokens", toks(str(t)))
    except Exception as e:
        print(label, "tokens EXC", type(e).__name__)

# odd / error inputs
show("untagified", lambda: div(Tfy()).get_html_string())
show("untagified2", lambda: div("a", Tfy()).get_html_string())
show("tagified", lambda: str(div("a", Tfy())))
show("bad indent", lambda: div("a").get_html_string("x"))
show("float indent", lambda: div("a").get_html_string(1.0))
show("neg indent", lambda: div("a", span()).get_html_string(-3))
show("eol None multi", lambda: div("a", div()).get_html_string(0, None))
show("eol None single", lambda: div("a").get_html_string(0, None))
show("eol None inline", lambda: span("a", span()).get_html_string(0, None))
show("name int", lambda: Tag(5).get_html_string())
show("name None", lambda: Tag(None, "a").get_html_string())
t = div("a")
t.attrs = {"k": 5}
show("raw dict attrs int", lambda: t.get_html_string())
t.attrs = {"k": "v&", 3: "x"}
show("raw dict attrs", lambda: t.get_html_string())
t.attrs = None
show("attrs None", lambda: t.get_html_string())
t = div()
t.children = ["a", "b<"]
show("children plain list", lambda: t.get_html_string())
t.children = ["only<"]
show("children plain list single", lambda: t.get_html_string())
t.children = []
show("children empty plain list", lambda: t.get_html_string())
t = tags.script("a<b", HTML("x<y"), "c&d")
show("script mixed html", lambda: t.get_html_string())
show("script mixed html str", lambda: str(t))
t = Tag(HTML("div"), "a&b", title="x&y")
show("html name", lambda: t.get_html_string())
t = Tag(HTML("br"), title="x&y")
show("html void name", lambda: t.get_html_string())
t = Tag(HTML("div"), "a", span("b"), title="<")
show("html name multi", lambda: t.get_html_string())
t = Tag(HTML("p"))
show("html name empty", lambda: t.get_html_string())


class S(str):
    pass


show("str subclass", lambda: Tag(S("div"), S("a<b"), title=S("q\"")).get_html_string())
show("str subclass void", lambda: Tag(S("br"), title=S("plain")).get_html_string())
