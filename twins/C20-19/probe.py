import copy
import sys

from htmltools import HTML, HTMLDependency, HTMLDocument, TagList, div, head_content, span, tags
from htmltools._jsx import JSXTag, _walk_attrs_and_children, jsx, jsx_tag_create


def show(label, fn):
    try:
        res = fn()
        print(label, "->", repr(res))
    except BaseException as e:  # noqa
        print(label, "-> EXC", type(e).__name__, str(e)[:200])


Foo = jsx_tag_create("Foo")
Bar = jsx_tag_create("Bar")
LOG = []


def dep(name):
    return HTMLDependency(name, "1.0", source={"subdir": "foo"}, script={"src": name + ".js"})


class T:
    """Tagifiable that is neither a Tag nor a JSXTag."""

    def __init__(self, name, result):
        self.name, self.result = name, result

    def tagify(self):
        LOG.append("tagify " + self.name)
        return self.result() if callable(self.result) else self.result

    def __copy__(self):
        LOG.append("copy " + self.name)
        return self

    def __repr__(self):
        return "T(%s)" % self.name


class C:
    """Not tagifiable; logs copies and attribute probing."""

    def __init__(self, name):
        self.name = name

    def __copy__(self):
        LOG.append("copy " + self.name)
        return C(self.name + "'")

    def __getattr__(self, attr):
        LOG.append("getattr %s.%s" % (self.__dict__.get("name"), attr))
        raise AttributeError(attr)

    def __str__(self):
        return "C(%s)" % self.name


def snapshot(x):
    """Structure + identities of everything reachable from a component."""
    if isinstance(x, JSXTag):
        return ("JSX", x.name, id(x), id(x.attrs), id(x.children),
                [(k, snapshot(v)) for k, v in x.attrs.items()], [snapshot(c) for c in x.children])
    if hasattr(x, "children") and hasattr(x, "attrs") and not isinstance(x, (T, C)):
        return ("Tag", x.name, id(x), id(x.attrs), id(x.children), dict(x.attrs), [snapshot(c) for c in x.children])
    if isinstance(x, (list, tuple)):
        return (type(x).__name__, id(x), [snapshot(v) for v in x])
    if isinstance(x, dict):
        return ("dict", id(x), [(k, snapshot(v)) for k, v in x.items()])
    return (type(x).__name__, id(x), str(x) if not isinstance(x, (T,)) else x.name)


def run(label, make):
    del LOG[:]
    x = make()
    before = snapshot(x)
    del LOG[:]
    show(label + " str", lambda: str(x))
    print(label, "log", LOG)
    print(label, "pure", snapshot(x) == before)
    del LOG[:]

    def second():
        t = x.tagify()
        deps = [d.name for d in t.get_dependencies(dedup=False)]
        kids = [type(c).__name__ for c in t.children]
        return deps, kids, dict(t.attrs)

    show(label + " tagify", second)
    print(label, "log2", LOG)
    print(label, "pure2", snapshot(x) == before)
    show(label + " doc", lambda: (lambda r: (r["html"], [d.name for d in r["dependencies"]]))(HTMLDocument(x).render()))


d1, d2, d3, d4 = dep("d1"), dep("d2"), dep("d3"), dep("d4")

run("empty", lambda: Foo())
run("strings", lambda: Foo("a", 'b"', 1, None, 2.5))
run("deps children", lambda: Foo(d1, "x", d2, d1))
run("deps nested", lambda: Foo(div(d1, span(d2)), Bar(d3, Bar(d4)), d1))
run("deps in props", lambda: Foo(a=d1, b=div(d2, "t"), c=Bar(d3, z=d4), d=[d1], e={"k": d2}))
run("props before children", lambda: Foo(div(d1), Bar(p=d4), p=Bar(d2, q=div(d3))))
run("head_content", lambda: Foo(head_content(tags.title("t")), div(head_content("x"))))
run("tagifiable dep", lambda: Foo(T("t1", d1), div(T("t2", lambda: span("s", Foo("w"), d2)))))
run("tagifiable taglist", lambda: Foo(T("t3", lambda: TagList("a", d1, div(d2)))))
run("tagifiable str", lambda: Foo(T("t4", "plain"), p=T("t5", "prop")))
run("tagifiable html", lambda: Foo(T("t6", HTML("<b>"))))
run("tagifiable nested tagifiable", lambda: Foo(T("t7", lambda: div(T("t8", d1)))))
run("tagifiable returns jsx", lambda: Foo(T("t9", lambda: Bar(T("t10", d3), d4, q=T("t11", d2)))))
run("tagifiable in tag in prop", lambda: Foo(p=div(T("t12", d1)), q=[T("t13", d2)]))
run("tagifiable raising", lambda: Foo(T("ok", d1), T("bad", lambda: 1 / 0), T("never", d2)))
run("copy hooks", lambda: Foo("a", p=C("c1"), q=Bar(r=C("c2")), s=[C("c3")]))
run("html child", lambda: Foo(HTML("<i>")))
run("taglist prop", lambda: Foo(p=TagList(d1, "a")))
run("shared child", lambda: (lambda s: Foo(s, div(s), p=s))(span("shared", d1)))
run("jsx expr", lambda: Foo(jsx("x"), p=jsx("() => 1")))
run("with-tag", lambda: Foo(tags.script("1 < 2"), tags.style("a{}"), div(HTML("raw"), "t")))

# raw (un-normalised) prop keys inserted behind the dict's back
z = Foo(a=1)
z.attrs |= {"raw_key": d1}
show("raw key", lambda: str(z))
show("raw key attrs", lambda: list(z.attrs.items()))

# subclasses
class MyTag(type(div())):
    pass


class MyJSX(JSXTag):
    pass


run("subclasses", lambda: MyJSX("Sub", MyTag("section", d1, Foo(d2)), p=MyJSX("Sub.Inner", d3)))

# the walker on its own
def logfn(x):
    LOG.append(type(x).__name__ + ":" + (x if isinstance(x, str) else getattr(x, "name", "?")))
    return x


del LOG[:]
tree = Foo("s", div("t", Bar("u", k="v")), k1="v1", k2=Bar("w"))
show("walk same", lambda: _walk_attrs_and_children(tree, logfn) is tree)
print("walk log", LOG)
del LOG[:]
show("walk leaf", lambda: [_walk_attrs_and_children(v, logfn) for v in ["s", 1, None, d1, T("t", 1), C("c")]][:3] + [str(LOG)])
print("walk leaf log", LOG)
show("walk replace", lambda: str(_walk_attrs_and_children(div("a", span("b")), lambda v: v.upper() if isinstance(v, str) else v)))
show("walk raising", lambda: _walk_attrs_and_children(Foo("a", "b"), lambda v: 1 / 0 if v == "b" else v))


# nesting depth that still converts (recursion budget is unchanged)
def depth_ok(make, n):
    x = make(n)
    try:
        x.tagify()
        return True
    except RecursionError:
        return False


def nest_children(n):
    x = Foo("leaf")
    for _ in range(n):
        x = Foo(x)
    return x


def nest_divs(n):
    x = div("leaf")
    for _ in range(n):
        x = div(x)
    return Foo(x)


def nest_props(n):
    x = Foo("leaf")
    for _ in range(n):
        x = Foo(p=x)
    return x


sys.setrecursionlimit(400)
for label, make in [("children", nest_children), ("divs", nest_divs), ("props", nest_props)]:
    lo, hi = 1, 1000
    while lo < hi:
        mid = (lo + hi + 1) // 2
        if depth_ok(make, mid):
            lo = mid
        else:
            hi = mid - 1
    print("max depth", label, lo)
