# Probe for refactoring 5: flatten() / _flatten_recurse() with the container types
# threaded through the recursion.
import sys
from collections import UserList, deque, namedtuple

from htmltools import HTML, HTMLDependency, Tag, TagList, div, is_tag_node, span
from htmltools._core import MetadataNode
from htmltools._util import flatten


def desc(c):
    if isinstance(c, (str, Tag, HTMLDependency)):
        return type(c).__name__ + ":" + str(c).replace("\n", "\\n")
    if isinstance(c, (int, float, bytes, range, frozenset, dict)):
        return type(c).__name__ + ":" + repr(c)
    return "<" + type(c).__name__ + ">"


def show(label, fn):
    try:
        r = fn()
    except BaseException as e:  # noqa: BLE001
        print(label, "->", "EXC", type(e).__name__, str(e))
        return None
    if isinstance(r, (list, TagList)):
        print(label, "->", type(r).__name__, [desc(c) for c in r])
    else:
        print(label, "->", type(r).__name__, repr(r))
    return r


class MyList(list):
    pass


class MyTuple(tuple):
    pass


class SubTagList(TagList):
    pass


Point = namedtuple("Point", "x y")


def gen():
    yield "g1"
    yield None
    yield ["g2", (None, 3)]


def nested(depth, leaf):
    x = [leaf]
    for _ in range(depth):
        x = [x]
    return x


inputs = {
    "empty_list": [],
    "empty_tuple": (),
    "flat": ["a", "b"],
    "nones": [None, [None, (None,)], None],
    "mixed": ["a", None, 1, 2.5, ["b", [None, ["c", (3, [4.0, ("d",)])]]], ("e", None)],
    "taglist_inside": ["a", TagList("b", 1, TagList("c")), [TagList(), TagList(None)]],
    "taglist_top": TagList("a", 1, None),
    "subtaglist": [SubTagList("s", 2), MyList(["ml", None]), MyTuple(("mt", [1]))],
    "namedtuple": [Point("px", 2)],
    "string_top": "abc",
    "strings_whole": ["hello", ("wor ld", [""])],
    "html": [HTML("<i>x</i>"), [HTML("")]],
    "tag_not_spliced": [div("a", "b"), [span("c")]],
    "userlist_not_spliced": [UserList(["u1", "u2"])],
    "deque_not_spliced": [deque(["d"])],
    "range_not_spliced": [range(2)],
    "range_top": range(3),
    "set_not_spliced": [frozenset(["f"])],
    "dict_item": [{"k": "v"}],
    "dict_top": {"k1": 1, "k2": [2]},
    "bytes": [b"ab", [bytearray(b"c")]],
    "falsy_kept": [0, 0.0, False, "", [], (), TagList()],
    "meta": [MetadataNode(), [None, MetadataNode()]],
    "same_list_twice": (lambda l: [l, l, [l]])(["x", None, 1]),
    "deep": nested(50, "leaf"),
    "deep_none": nested(50, None),
}

for name, v in inputs.items():
    snapshot = repr(v) if not isinstance(v, (TagList,)) and "0x" not in repr(v) else None
    r = show(f"flatten({name})", lambda: flatten(v))
    if r is not None:
        print("   fresh list:", type(r) is list, r is not v)
    if snapshot is not None:
        print("   input unchanged:", repr(v) == snapshot)
    show(f"TagList(*{name})", lambda: TagList(*v))
    show(f"TagList({name})", lambda: TagList(v))
    tl = TagList("keep")
    show(f"extend({name})", lambda: (tl.extend(v), tl)[1])
    print("   after extend:", [desc(c) for c in tl.data])
    tl = TagList("k1", "k2")
    show(f"insert(1, {name})", lambda: (tl.insert(1, v), tl)[1])
    print("   after insert:", [desc(c) for c in tl.data])
    show(f"div({name})", lambda: div(v).children)

show("flatten(gen)", lambda: flatten(gen()))
show("flatten([gen])", lambda: flatten([gen()]))
show("TagList(gen)", lambda: TagList(gen()))
show("extend(gen)", lambda: (lambda t: (t.extend(gen()), t)[1])(TagList()))
show("flatten(iter)", lambda: flatten(iter(["a", ["b"], None])))
for bad in (None, 5, 2.5, object(), len):
    show(f"flatten({type(bad).__name__})", lambda: flatten(bad))

# elements keep identity
d = div("x")
r = flatten([[d], (d, [d])])
print("identity:", all(x is d for x in r), len(r))

# element objects whose iteration raises midway
def boom():
    yield "ok"
    raise ValueError("boom")


tl = TagList("keep")
show("extend(boom)", lambda: tl.extend(boom()))
print("   unchanged:", [desc(c) for c in tl.data])
show("flatten([['a'], boom-in-tuple])", lambda: flatten([["a"], boom()]))

# self-referential list -> RecursionError, list untouched
loop = ["a"]
loop.append(loop)
show("flatten(loop)", lambda: flatten(loop))
tl = TagList("keep")
show("extend(loop)", lambda: tl.extend(loop))
print("   unchanged:", [desc(c) for c in tl.data])

# recursion budget: first nesting depth at which flatten() gives up
old = sys.getrecursionlimit()
sys.setrecursionlimit(200)
try:
    first_fail = None
    for depth in range(100, 260):
        try:
            flatten(nested(depth, "leaf"))
        except RecursionError:
            first_fail = depth
            break
finally:
    sys.setrecursionlimit(old)
print("first failing depth with limit 200:", first_fail)

# results hold only tag nodes after normalisation
t = TagList("a", [1, (2.5, [None, TagList("b", [span("c")])])])
t.append([["x"]], ((None,),), 7)
t += ("y", [8.5])
t2 = t[1:4] * 2 + [None, ["z"]]
print([desc(c) for c in t.data], all(is_tag_node(c) for c in t.data))
print([desc(c) for c in t2.data], all(is_tag_node(c) for c in t2.data), type(t2).__name__)
