# Probe for refactoring 2: the attribute-name normaliser shared by TagAttrDict and
# JSXTagAttrDict.
from htmltools import HTML, HTMLDocument, Tag, consolidate_attrs, div, tags
from htmltools._core import TagAttrDict
from htmltools._jsx import JSXTag, JSXTagAttrDict, jsx_tag_create


def show(label, fn):
    try:
        out = fn()
        print(label, "->", repr(out))
    except Exception as e:  # noqa: BLE001
        print(label, "-> EXC", type(e).__name__, str(e))


class S(str):
    pass


NAMES = [
    "", "_", "__", "___", "a", "a_", "a__", "_a", "_a_", "__a__", "class_", "for_",
    "data_foo_bar", "data_foo_bar_", "aria_label__", "foo_Bar_", "a-b", "a-b_", "a_-_b",
    "-", "-_", "_-", "É_x_", "a b_", "a\n_", "x_ _", S("sub_cls_"), S("_"),
    "http_equiv", "accept_charset_", "CamelCase_", "9_", "a.b_c",
]
BAD_NAMES = [1, None, 2.5, b"by_tes_", ("t_",), HTML("h_t_m_l_")]

for cls in (TagAttrDict, JSXTagAttrDict):
    print("==", cls.__name__, isinstance(cls.__dict__["_normalize_attr_name"], staticmethod))
    for n in NAMES + BAD_NAMES:
        show(f"  static {n!r}", lambda: (cls._normalize_attr_name(n), type(cls._normalize_attr_name(n)).__name__))
        show(f"  inst   {n!r}", lambda: cls()._normalize_attr_name(n))

        def setitem():
            d = cls()
            d[n] = "v"
            return (list(d.items()), [type(k).__name__ for k in d])

        show(f"  setitem {n!r}", setitem)

        def upd():
            d = cls()
            d.update({n: "v"})
            return (list(d.items()), [type(k).__name__ for k in d])

        show(f"  update {n!r}", upd)

# merging of names that normalise to the same thing, in argument order
show("merge1", lambda: list(TagAttrDict({"a_b": "1"}, {"a-b": "2"}, {"a_b_": "3"}, a_b="4", a_b_="5").items()))
show("merge2", lambda: list(TagAttrDict({"class_": "x", "class": "y"}, class_="z").items()))
show("merge3", lambda: str(div({"data_x_": "1", "data-x": "2"}, data_x="3", id_="i", for_="f", __="u")))
show("merge4", lambda: consolidate_attrs({"a_b": 1}, "kid", {"a-b": True}, a_b_=2.5))
show("jsx1", lambda: list(JSXTagAttrDict(a_b="1", a_b_="2", class_=[1, 2]).items()))


def jsx_update():
    d = JSXTagAttrDict(x_y=1)
    d.update({"x-y": 2, "z_": None}, {"z": 3}, x_y_=4, w__=5)
    d["q_r_"] = {"k_": "v_"}
    return list(d.items())


show("jsx2", jsx_update)

Foo = jsx_tag_create("Foo")
show("jsx3", lambda: str(Foo("kid", data_a_b="1", class_="c", on_click_=HTML("() => 1"), style_={"font_size_": "1px"})))
show("jsx4", lambda: str(Foo(div(data_q_="1", class_="in"), my_prop_=div(aria_label_="x"))))
show("jsx5", lambda: list(JSXTag("Bar", a_="1", _b="2").attrs.items()))

# later update / item assignment replaces
t = div(class_="a", data_k_v="1")
t.attrs["data_k_v_"] = "2"
t.attrs.update({"class_": "b"}, class_="c")
t.attrs.update(title_=None, hidden_=True, tab_index=0)
print(list(t.attrs.items()), str(t))
print(str(HTMLDocument(div("x"), lang_="en", data_theme_x="dark").render()["html"]))
print(str(tags.label("l", for_="inp", class_="c")), str(tags.meta(http_equiv="refresh", accept_charset_="u")))
print(str(Tag("x_y_", x_y_="x_y_")))
