"""Probe for refactoring 2: HTML.__add__ / HTML.__radd__ via a shared escaping helper."""
import itertools
from collections import UserString

from htmltools import HTML, TagList, div, span, tags


def show(label, fn):
    try:
        res = fn()
        print(label, "->", type(res).__name__, repr(str(res)) if isinstance(res, UserString) else repr(res))
    except Exception as e:  # noqa: BLE001
        print(label, "-> EXC", type(e).__name__)


class SubHTML(HTML):
    def as_string(self):
        return "[" + super().as_string() + "]"


class BadStr:
    def __str__(self):
        raise KeyError("no str")

    def __repr__(self):
        return "BadStr()"


class Weird:
    def __str__(self):
        return "<weird & 'odd'>"

    def __repr__(self):
        return "Weird()"


class MyStr(str):
    pass


PLAIN = ["", "a", "<b>", "&amp;", "x & y", "\"q\" 'a'", "\n", "é<中>"]
MARKUP = [HTML(""), HTML("<i>"), HTML("&lt;"), HTML("a & b"), SubHTML("<s>")]
OTHER = [None, 0, 1.5, True, ["<"], ("&",), {"<": ">"}, b"<b>", Weird(), MyStr("<m>"), UserString("<u>"), div("<"), TagList("<", HTML("<"))]

# Binary concatenations in both orders
for h in MARKUP:
    for p in PLAIN + OTHER + MARKUP:
        show(f"{h!r} + {p!r}", lambda: h + p)
        show(f"{p!r} + {h!r}", lambda: p + h)
        show(f"__add__({h!r},{p!r})", lambda: h.__add__(p))
        show(f"__radd__({h!r},{p!r})", lambda: h.__radd__(p))

# Exceptions coming out of str(other)
show("HTML + BadStr", lambda: HTML("<i>") + BadStr())
show("BadStr + HTML", lambda: BadStr() + HTML("<i>"))

# Result type / identity properties
r = HTML("<a>") + "<b>"
show("type", lambda: type(r).__name__)
show("data type", lambda: type(r.data).__name__)
r2 = "<b>" + HTML("<a>")
show("type r", lambda: type(r2).__name__)
show("sub + str type", lambda: type(SubHTML("<s>") + "x").__name__)
show("str + sub type", lambda: type("x" + SubHTML("<s>")).__name__)
show("html + sub", lambda: HTML("<h>") + SubHTML("<s>"))
show("sub + html", lambda: SubHTML("<s>") + HTML("<h>"))
h0 = HTML("<keep>")
_ = h0 + "<x>"
_ = "<x>" + h0
show("operand unchanged", lambda: h0)

# += forms
x = HTML("<p>")
x += "<q>"
show("iadd 1", lambda: x)
y = "<q>"
y += HTML("<p>")
show("iadd 2", lambda: y)

# sum / chained, all groupings and orders of three operands
ops = ["a<b", HTML("<i>"), "c&d", HTML("&amp;"), ""]
for a, b, c in itertools.permutations(ops, 3):
    show(f"({a!r}+{b!r})+{c!r}", lambda: (a + b) + c)
    show(f"{a!r}+({b!r}+{c!r})", lambda: a + (b + c))
    if any(isinstance(v, HTML) for v in (a, b, c)):
        show("as child L", lambda: str(div((a + b) + c)))
        show("as child R", lambda: str(div(a + (b + c))))
        show("separate", lambda: str(div(a, b, c)))
show("sum", lambda: sum(["<a>", "<b>", HTML("<c>")], HTML("")))

# Rendering of concatenations in other contexts
c = "x<y" + HTML("<b>bold</b>") + "z>w"
show("child", lambda: str(div(c)))
show("span multi", lambda: str(span(c, c)))
show("attr", lambda: str(div(title=c)))
show("script", lambda: str(tags.script(c)))
show("style", lambda: str(tags.style(c, "a<b")))
show("taglist", lambda: str(TagList(c, "a<b")))
show("class merge", lambda: str(div({"class": "a<"}, class_=c)))
show("add_style", lambda: str(div().add_style(HTML("a:'<';") + "b:'>';")))

# other UserString operators are untouched
show("mul", lambda: HTML("<i>") * 2)
show("mod", lambda: HTML("<%s>") % "x&y")
show("getitem", lambda: HTML("<abc>")[1:3])
show("join", lambda: HTML(",").join(["<a>", "<b>"]))
