# Probe for refactoring 1: HTMLDependency.copy_to (and save_html, which drives it).
import hashlib
import os
import re
import shutil
import sys
import tempfile
import urllib.parse

from htmltools import HTMLDependency, HTMLDocument, TagList, div, tags

ROOT = os.path.realpath(tempfile.mkdtemp(prefix="c12probe"))


def scrub(s):
    return str(s).replace(ROOT, "<ROOT>")


def tree(d):
    out = []
    if not os.path.exists(d):
        return ["<absent>"]
    for base, dirs, files in os.walk(d):
        dirs.sort()
        rel = os.path.relpath(base, d)
        out.append("D " + rel)
        for f in sorted(files):
            with open(os.path.join(base, f), "rb") as fh:
                h = hashlib.sha1(fh.read()).hexdigest()[:10]
            out.append("F " + os.path.join(rel, f) + " " + h)
    return out


def show(label, fn):
    try:
        r = fn()
        print(label, "->", scrub(repr(r)))
    except BaseException as e:  # noqa
        print(label, "raised", type(e).__name__)


def write(path, data):
    os.makedirs(os.path.dirname(path), exist_ok=True)
    with open(path, "wb") as f:
        f.write(data)


SRC = os.path.join(ROOT, "src")
write(os.path.join(SRC, "a.js"), b"alert(1)\n")
write(os.path.join(SRC, "sub dir", "b c.css"), b"p{}\r\n")
write(os.path.join(SRC, "nested", "deep", "x.js"), b"\x00\xff binary")
write(os.path.join(SRC, "nested", "y.txt"), b"y")
write(os.path.join(SRC, "café.js"), b"unicode")
write(os.path.join(SRC, ".hidden"), b"h")
os.makedirs(os.path.join(SRC, "emptydir"))

EMPTY = os.path.join(ROOT, "emptysrc")
os.makedirs(EMPTY)


def mk(name="d", version="1.2.3", **kw):
    return HTMLDependency(name, version, **kw)


deps = {
    "explicit": mk(
        source={"subdir": SRC},
        script=[{"src": "a.js"}, {"src": "nested/deep/x.js"}, {"src": "café.js"}],
        stylesheet={"href": "sub dir/b c.css"},
    ),
    "allfiles": mk(source={"subdir": SRC}, all_files=True, script={"src": "a.js"}),
    "allfiles_noscripts": mk(source={"subdir": SRC}, all_files=True),
    "allfiles_empty": mk(source={"subdir": EMPTY}, all_files=True),
    "allfiles_listed_missing": mk(
        source={"subdir": SRC}, all_files=True, script={"src": "nope.js"}
    ),
    "dir_as_script": mk(source={"subdir": SRC}, script={"src": "nested"}),
    "dup_listed": mk(
        source={"subdir": SRC}, script=[{"src": "a.js"}, {"src": "a.js"}]
    ),
    "missing": mk(
        source={"subdir": SRC}, script=[{"src": "a.js"}, {"src": "nope.js"}]
    ),
    "missing_css": mk(
        source={"subdir": SRC}, script={"src": "a.js"}, stylesheet={"href": "no.css"}
    ),
    "nofiles": mk(source={"subdir": SRC}),
    "url": mk(source={"href": "https://x.org/lib"}, script={"src": "a.js"}),
    "nosource": mk(script={"src": "a.js"}),
    "pkg": mk(
        source={"package": "htmltools", "subdir": "."}, script={"src": "_versions.py"}
    ),
    "pkg_none": mk(source={"package": None, "subdir": SRC}, script={"src": "a.js"}),
    "badpkg": mk(source={"package": "no_such_pkg_xyz", "subdir": "."}),
    "missing_srcdir": mk(source={"subdir": os.path.join(ROOT, "nodir")}, all_files=True),
    "missing_srcdir2": mk(
        source={"subdir": os.path.join(ROOT, "nodir")}, script={"src": "a.js"}
    ),
    "intsrc": mk(source={"subdir": SRC}, script=[{"src": "a.js"}, {"src": 5}]),
    "abs_src": mk(source={"subdir": SRC}, script={"src": os.path.join(SRC, "a.js")}),
    "dotdot": mk(source={"subdir": os.path.join(SRC, "nested")}, script={"src": "../a.js"}),
}

n = 0
for label, dep in deps.items():
    for iv in (True, False):
        n += 1
        out = os.path.join(ROOT, "out%d" % n)
        # stale content in both possible target directories
        for t in ("d-1.2.3", "d"):
            write(os.path.join(out, t, "stale.txt"), b"stale")
            write(os.path.join(out, t, "old", "deep.txt"), b"stale")
        write(os.path.join(out, "other", "keep.txt"), b"keep")
        show("copy_to %s iv=%s" % (label, iv), lambda: dep.copy_to(out, include_version=iv))
        for line in tree(out):
            print("   ", line)

# default include_version, positional include_version, nonexistent destination
out = os.path.join(ROOT, "fresh", "a", "b")
show("copy_to default", lambda: deps["explicit"].copy_to(out))
print(tree(os.path.join(ROOT, "fresh")))
show("copy_to positional", lambda: deps["explicit"].copy_to(out, False))
print(tree(os.path.join(ROOT, "fresh")))
show("copy_to bad path type", lambda: deps["explicit"].copy_to(None))
show("copy_to bad path type, missing file", lambda: deps["missing"].copy_to(None))
show("copy_to bad path type, url", lambda: deps["url"].copy_to(None))
# relative destination
cwd = os.getcwd()
os.makedirs(os.path.join(ROOT, "cwd"))
os.chdir(os.path.join(ROOT, "cwd"))
try:
    show("copy_to relative", lambda: deps["explicit"].copy_to("rel/lib"))
    show("copy_to relative empty", lambda: deps["nofiles"].copy_to(""))
    print(tree(os.path.join(ROOT, "cwd")))
finally:
    os.chdir(cwd)

# destination is a file
write(os.path.join(ROOT, "afile", "d-1.2.3"), b"i am a file")
show("copy_to target is file", lambda: deps["explicit"].copy_to(os.path.join(ROOT, "afile")))
print(tree(os.path.join(ROOT, "afile")))

# version-like name
dep_v = HTMLDependency("n m", "2.0", source={"subdir": SRC}, script={"src": "a.js"})
out = os.path.join(ROOT, "outnm")
show("copy_to name with space", lambda: dep_v.copy_to(out))
print(tree(out))

# save_html: the URLs in the written file resolve to copied files
URL_RE = re.compile(r'(?:src|href)="([^"]*)"')


def check_saved(label, obj, fname, **kw):
    d = os.path.join(ROOT, "save_" + label)
    os.makedirs(d, exist_ok=True)
    f = os.path.join(d, fname)
    try:
        ret = obj.save_html(f, **kw)
    except BaseException as e:  # noqa
        print("save", label, kw, "raised", type(e).__name__)
        print("   ", tree(d))
        return
    print("save", label, kw, "->", scrub(repr(ret)), ret == f)
    with open(f) as fh:
        html = fh.read()
    print(scrub(html))
    for u in URL_RE.findall(html):
        if "://" in u:
            print("    url", u)
            continue
        p = os.path.join(d, urllib.parse.unquote(u))
        print("    local", u, os.path.isfile(p) or os.path.isdir(p))
    for line in tree(d):
        print("   ", line)


def named(name, key):
    d = deps[key]
    return HTMLDependency(
        name,
        d.version,
        source=d.source,
        script=d.script,
        stylesheet=d.stylesheet,
        all_files=d.all_files,
    )


objs = {
    "doc": HTMLDocument(
        div("x", named("e", "explicit"), named("u", "url"), named("n", "nosource"))
    ),
    "tag": div("x", named("e", "explicit"), named("all", "allfiles_noscripts")),
    "list": TagList(named("e", "explicit"), "txt", named("p", "pkg")),
    "missing": div(named("e", "explicit"), named("m", "missing"), named("z", "nofiles")),
    "two_versions": TagList(
        mk(version="1.0", source={"subdir": SRC}, script={"src": "a.js"}),
        mk(version="2.0", source={"subdir": SRC}, script={"src": "nested/deep/x.js"}),
    ),
}
k = 0
for label, obj in objs.items():
    for kw in (
        {},
        {"libdir": None},
        {"libdir": ""},
        {"libdir": "my lib/x"},
        {"include_version": False},
        {"libdir": None, "include_version": False},
    ):
        k += 1
        check_saved("%s%d" % (label, k), obj, "index.html", **kw)

shutil.rmtree(ROOT)
