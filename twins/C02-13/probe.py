"""Probe for refactoring 3: html_escape split (search / replace helper), HTML.__add__ /
__radd__ sharing one operand-escaping helper, _normalize_text early return."""
import hashlib
import itertools
from collections import UserString

import htmltools
from htmltools import HTML, Tag, TagList, div, tags, html_escape
from htmltools import _core, _util


def show(label, fn):
    try:
        out = fn()
        print(label, "->", type(out).__name__, repr(out))
    except BaseException as e:  # noqa
        print(label, "!!", type(e).__name__, str(e)[:100])


class StrSub(str):
    def __str__(self):
        return "S<" + str.__str__(self) + ">"


class Obj:
    def __str__(self):
        return "<obj & 'q'>"


class BadStr:
    def __str__(self):
        raise KeyError("nostr")


# --- exhaustive over a small alphabet (digest) ---------------------------------
ALPHA = "&<>\"'\r\n a;#"
for attr in (False, True):
    h = hashlib.sha256()
    n = 0
    for k in range(0, 5):
        for tup in itertools.product(ALPHA, repeat=k):
            s = "".join(tup)
            h.update(repr(html_escape(s, attr)).encode())
            h.update(b"\0")
            n += 1
    print("exhaustive attr=%r n=%d sha=%s" % (attr, n, h.hexdigest()))

# --- explicit samples -----------------------------------------------------------
SAMPLES = [
    "",
    "plain text",
    "&",
    "<",
    ">",
    "&&",
    "&amp;",
    "&lt;&gt;",
    "&#38;",
    "<a href=\"x\">'t'</a>",
    "a\nb\rc\r\n",
    "-->",
    "<!--",
    "]]>",
    "\x00\x01\x7f",
    "  é中\U0001f600<",
    "|",
    "a|b&c",
    "\\&",
    ".*",
    "x" * 50 + "&" + "y" * 50,
]
for s in SAMPLES:
    show(f"esc {s!r}", lambda: html_escape(s))
    show(f"esc attr=True {s!r}", lambda: html_escape(s, attr=True))
    show(f"esc pos True {s!r}", lambda: html_escape(s, True))
    show(f"esc attr=0 {s!r}", lambda: html_escape(s, attr=0))
    show(f"esc attr='x' {s!r}", lambda: html_escape(s, attr="x"))
    show(f"esc attr=None {s!r}", lambda: html_escape(s, attr=None))
    show(f"_html_escape {s!r}", lambda: _util._html_escape(s, True))
    show(f"norm {s!r}", lambda: _core._normalize_text(s))
    show(f"norm HTML {s!r}", lambda: _core._normalize_text(HTML(s)))

# identity / subclass behaviour
for s in ["nothing to do", "", "needs & escaping"]:
    print("identity", repr(s), html_escape(s) is s, html_escape(s, True) is s)
    sub = StrSub(s)
    r = html_escape(sub)
    print("subclass", repr(s), type(r).__name__, r is sub, repr(str.__str__(r)))
    r = html_escape(sub, True)
    print("subclass attr", repr(s), type(r).__name__, r is sub, repr(str.__str__(r)))
    r = _core._normalize_text(sub)
    print("subclass norm", repr(s), type(r).__name__, r is sub)
h = HTML("a&b")
print("norm HTML fresh str:", type(_core._normalize_text(h)).__name__, _core._normalize_text(h) == "a&b")

# bad inputs
for bad in (None, 5, 2.5, b"a&b", bytearray(b"<"), HTML("a&b"), UserString("a&b"), ["a&"], ("<",), {"&": 1}, object()):
    lab = type(bad).__name__
    show(f"esc bad {lab}", lambda: html_escape(bad))
    show(f"esc bad attr {lab}", lambda: html_escape(bad, True))
    show(f"norm bad {lab}", lambda: _core._normalize_text(bad))
show("esc no args", lambda: html_escape())
show("esc kw", lambda: html_escape(text="a<b", attr=False))
show("esc extra", lambda: html_escape("a", False, 1))

# --- HTML + x, x + HTML ----------------------------------------------------------
OPERANDS = [
    "",
    "a<b & c>",
    "\"q\" 'r'\n",
    "&amp;",
    StrSub("sub<"),
    HTML("<raw&>"),
    HTML(""),
    UserString("us<&>"),
    5,
    2.5,
    True,
    None,
    b"by<tes>",
    ["<l>", 1],
    ("<t>",),
    {"<k>": "&v"},
    Obj(),
    BadStr(),
    div("in<"),
    TagList("tl<", 1),
]
base = HTML("<b>&</b>")
for op in OPERANDS:
    lab = type(op).__name__ + " " + (repr(op) if not isinstance(op, (Obj, BadStr)) else "obj")
    show(f"HTML + {lab}", lambda: base + op)
    show(f"{lab} + HTML", lambda: op + base)
    show(f"HTML('') + {lab}", lambda: HTML("") + op)

    def iadd():
        x = HTML("x&")
        x += op
        return x

    show(f"HTML += {lab}", iadd)
    show(f"sum {lab}", lambda: sum([op, op], HTML("")))
print("base unchanged:", repr(base), type(base).__name__)
show("chain", lambda: "a<" + HTML("<i>") + "b>" + HTML("</i>") + 3)
show("chain in tag", lambda: str(div("a<" + HTML("<i>") + "b>", "c&")))
show("chain in script", lambda: str(tags.script("a<" + HTML("<i>") + "b>")))

# --- through rendering -----------------------------------------------------------
for s in SAMPLES:
    show(f"div {s!r}", lambda: str(div(s)))
    show(f"div multi {s!r}", lambda: str(div(s, s)))
    show(f"attr {s!r}", lambda: str(div(title=s, data_x=HTML(s))))
    show(f"attr merge {s!r}", lambda: str(div({"class": s}, class_=HTML(s))))
    show(f"taglist {s!r}", lambda: str(TagList(s, HTML(s), 1)))
