"""Probe for property C20 (JSX components): exercises JSXTagAttrDict, JSXTag.__init__,
_serialize_attr / _serialize_style_attr, _render_react_js and JSXTag.tagify on a spread of
inputs and prints everything deterministically (reprs / exception type + message)."""

import collections
import copy
import enum
import os
import sys

from htmltools import HTML, HTMLDependency, Tag, TagList, div, head_content, span, tags
from htmltools import _jsx
from htmltools._jsx import (
    JSXTag,
    JSXTagAttrDict,
    _render_react_js,
    _serialize_attr,
    _serialize_style_attr,
    jsx,
    jsx_tag_create,
)

SECTION = [""]


def section(name):
    SECTION[0] = name
    print("=" * 10, name)


def show(label, thunk):
    try:
        res = thunk()
    except BaseException as e:  # noqa: BLE001
        print(f"[{SECTION[0]}] {label} -> RAISED {type(e).__name__}: {e}")
    else:
        print(f"[{SECTION[0]}] {label} -> {type(res).__name__} {res!r}")


def dump(x, depth=0):
    """Structural, address-free dump of a tag tree."""
    if depth > 12:
        return "<deep>"
    if isinstance(x, JSXTag):
        return (
            "JSX",
            x.name,
            type(x.attrs).__name__,
            [(k, dump(v, depth + 1)) for k, v in x.attrs.items()],
            type(x.children).__name__,
            [dump(c, depth + 1) for c in x.children],
        )
    if isinstance(x, Tag):
        return (
            "Tag",
            x.name,
            [(k, type(v).__name__, str(v)) for k, v in x.attrs.items()],
            [dump(c, depth + 1) for c in x.children],
        )
    if isinstance(x, TagList):
        return ("TagList", [dump(c, depth + 1) for c in x])
    if isinstance(x, HTMLDependency):
        return ("Dep", x.name, str(x.version), x.as_dict())
    if isinstance(x, (list, tuple)):
        return (type(x).__name__, [dump(c, depth + 1) for c in x])
    if isinstance(x, dict):
        return (type(x).__name__, [(k, dump(v, depth + 1)) for k, v in x.items()])
    return (type(x).__name__, repr(x) if not hasattr(x, "label") else x.label)


def identity_map(x, out=None, depth=0):
    """List of ids of all reachable nodes, to check that nothing is replaced."""
    if out is None:
        out = []
    out.append(id(x))
    if depth > 12:
        return out
    if isinstance(x, JSXTag):
        out.append(id(x.attrs))
        out.append(id(x.children))
        for v in x.attrs.values():
            identity_map(v, out, depth + 1)
        for c in x.children:
            identity_map(c, out, depth + 1)
    elif isinstance(x, Tag):
        out.append(id(x.attrs))
        out.append(id(x.children))
        for c in x.children:
            identity_map(c, out, depth + 1)
    elif isinstance(x, (list, tuple, TagList)):
        for c in x:
            identity_map(c, out, depth + 1)
    elif isinstance(x, dict):
        for c in x.values():
            identity_map(c, out, depth + 1)
    return out


class Stringy:
    def __init__(self, s):
        self.s = s

    def __str__(self):
        return self.s

    def __repr__(self):
        return f"Stringy({self.s!r})"


class Widget:
    """A Tagifiable that is neither a Tag nor a JSXTag."""

    label = "Widget"
    calls = 0

    def __init__(self, *deps):
        self.deps = deps

    def tagify(self):
        Widget.calls += 1
        return span("widget", *self.deps, class_="w")


class MetaWidget:
    label = "MetaWidget"

    def tagify(self):
        return HTMLDependency("metawidget", "0.1")


class StrWidget:
    label = "StrWidget"

    def tagify(self):
        return 'say "hi"'


class Color(enum.IntEnum):
    RED = 1


class Flag(enum.Enum):
    A = "a"


Point = collections.namedtuple("Point", "x y")


def dep(name, version="1.0"):
    return HTMLDependency(name, version)


# --------------------------------------------------------------------------------------
section("JSXTagAttrDict")


def ad_items(d):
    return (type(d).__name__, [(type(k).__name__, k, v) for k, v in d.items()])


show("empty", lambda: ad_items(JSXTagAttrDict()))
show("kwargs", lambda: ad_items(JSXTagAttrDict(class_="a", data_foo=1, for_="x", a__=2, _=3, __=4)))
show("kwargs dup norm", lambda: ad_items(JSXTagAttrDict(**{"a_b": 1, "a-b": 2, "c": 3, "a_b_": 4})))
show("kwargs dup norm 2", lambda: ad_items(JSXTagAttrDict(**{"x-": 1, "x__": 2, "x_": 3})))
show("positional arg rejected", lambda: JSXTagAttrDict({"a": 1}))


def ad_update_cases():
    d = JSXTagAttrDict(z_=0)
    out = []
    out.append(d.update({"a_b": 1}, {"a-b": 2, "c_": 3}, d_e=4, z=9))
    out.append(ad_items(d))
    out.append(d.update())
    out.append(ad_items(d))
    out.append(d.update(collections.OrderedDict([("q_", 1), ("p_q", 2)])))
    out.append(ad_items(d))
    d["set_item_"] = 5
    d["a_b"] = 7
    out.append(ad_items(d))
    out.append(d.update(d))
    out.append(ad_items(d))
    out.append(d == {"z": 9, "a-b": 7, "c": 3, "d-e": 4, "q": 1, "p-q": 2, "set-item": 5})
    return out


show("update cases", ad_update_cases)


def ad_update_fail(bad, **kw):
    d = JSXTagAttrDict(keep_=1)
    try:
        d.update({"first_": 1}, bad, {"never_": 2}, **kw)
    except BaseException as e:  # noqa: BLE001
        return (type(e).__name__, str(e), ad_items(d))
    return ("ok", ad_items(d))


show("update non-mapping list", lambda: ad_update_fail([("a", 1)]))
show("update non-mapping None", lambda: ad_update_fail(None))
show("update int key", lambda: ad_update_fail({"ok_": 1, 5: 2}))
show("update bytes key", lambda: ad_update_fail({"ok_": 1, b"x_": 2}))
show("update None key", lambda: ad_update_fail({None: 2}, kw_=3))
show("update str-subclass key", lambda: ad_update_fail({jsx("j_k_"): 2, jsx("plain"): 3}, kw_=3))


def ad_setitem_fail():
    d = JSXTagAttrDict(keep_=1)
    try:
        d[5] = 1
    except BaseException as e:  # noqa: BLE001
        return (type(e).__name__, str(e), ad_items(d))
    return ad_items(d)


show("setitem int key", ad_setitem_fail)
show("update mapping with odd names", lambda: ad_items((lambda d: (d.update({"self": 1, "__m": 2, "args_": 3, "kwargs": 4, "E": 5, "x": 6}), d)[1])(JSXTagAttrDict())))
show("update kwargs named args/kwargs", lambda: ad_items((lambda d: (d.update(args=1, kwargs_=2, arg=3), d)[1])(JSXTagAttrDict())))
show("update kwarg named self", lambda: JSXTagAttrDict().update(self=1))
show("update many positional", lambda: ad_items((lambda d: (d.update({"a_": 1}, {"a": 2}, {"b_c": 3}, {}, {"a_": 4}, a=5), d)[1])(JSXTagAttrDict(a_=0))))
show("update from JSXTagAttrDict", lambda: ad_items((lambda d: (d.update(JSXTagAttrDict(p_q=1), JSXTagAttrDict()), d)[1])(JSXTagAttrDict(r_=0))))
for nm in ["", "_", "__", "a", "a_", "a__", "_a", "a_b_c", "a-b_", "class_", "-", "é_", "A_B"]:
    show(f"normalize {nm!r}", lambda nm=nm: JSXTagAttrDict._normalize_attr_name(nm))
show("normalize int", lambda: JSXTagAttrDict._normalize_attr_name(3))
show("normalize jsx type", lambda: type(JSXTagAttrDict._normalize_attr_name(jsx("a_"))).__name__)
show("normalize jsx type 2", lambda: type(JSXTagAttrDict._normalize_attr_name(jsx("ab"))).__name__)
show("setdefault/other dict methods not normalised", lambda: ad_items((lambda d: (d.setdefault("x_y", 1), d)[1])(JSXTagAttrDict())))
show("copy type", lambda: type(copy.copy(JSXTagAttrDict(a_=1))).__name__)
show("copy items", lambda: ad_items(copy.copy(JSXTagAttrDict(a_=1, b_c=[1]))))

# --------------------------------------------------------------------------------------
section("JSXTag.__init__")


def mk(name, *args, **kwargs):
    t = JSXTag(name, *args, **kwargs)
    return dump(t)


for nm in [
    "Foo", "foo", "F", "f", "", ".", "..", "Foo.", ".Foo", "a.Foo", "a.b.Foo", "Foo.bar", "Foo.Bar.baz",
    "1x", "_x", "-x", " x", "Éa", "éa", "ßx", "ǆx", "ǅx", "ﬁx", "中", "X y", "foo.1", "ı", "İ",
]:
    show(f"name {nm!r}", lambda nm=nm: mk(nm))
show("name None", lambda: mk(None))
show("name int", lambda: mk(5))
show("name bytes", lambda: mk(b"Foo"))
show("name jsx", lambda: mk(jsx("Foo")))
show("no name", lambda: JSXTag())

for ap in [None, [], (), "", ["a"], ("a", "b"), {"a", "b"}, {"a": 1}, "abc", ["class_"], ["class"], 5, [1, 2]]:
    for kw in [{}, {"a": 1}, {"b": 2, "a": 1}, {"z": 1, "y": 2}, {"a": 1, "z": 2, "y": 3}, {"class_": "k"}, {"ab": 1}]:
        ap_label = sorted(ap) if isinstance(ap, set) else ap
        show(f"allowed {type(ap).__name__} {ap_label!r} kw {kw!r}", lambda ap=ap, kw=kw: mk("Foo", allowedProps=ap, **kw))
show("allowed + lower name: name error first", lambda: mk("foo", allowedProps=["a"], z=1))
show("allowed msg with dotted name", lambda: mk("Lib.Foo", allowedProps=["a"], z=1))

show("children basic", lambda: mk("Foo", "a", 1, 2.5, None, ["b", [None, "c"]], TagList("d", 3), div("e"), a_b=1))
show("children str only", lambda: mk("Foo", "abc"))
show("children tuple", lambda: mk("Foo", ("x", "y")))
show("children jsx", lambda: mk("Foo", jsx("x"), HTML("<b>")))
show("children dict (invalid)", lambda: mk("Foo", {"a": 1}))
show("children object (invalid)", lambda: mk("Foo", object()))
show("children bool", lambda: mk("Foo", True, False))
show("children invalid + invalid prop: prop error first", lambda: mk("Foo", object(), allowedProps=["a"], z=1))
show("children dep", lambda: mk("Foo", dep("d1"), Widget()))
show("children nested jsx", lambda: mk("Foo", JSXTag("Bar", "x", p=1), q=JSXTag("Baz")))
show("attrs kinds", lambda: mk("Foo", a=None, b=True, c=1, d=1.5, e="s", f=[1], g=(1,), h={"k": 1}, i=jsx("x"), j=div(), class_="c", data_x_y=1, for_="f"))
show("attrs dup norm", lambda: mk("Foo", **{"a_b": 1, "a-b": 2, "a_b_": 3}))
show("attr named allowedProps", lambda: mk("Foo", allowedProps=["x"], x=1))
show("attr named _name", lambda: mk("Foo", _name="x"))
show("attr named self", lambda: mk("Foo", self=1))
show("attr named name/args/kwargs", lambda: dump(JSXTag("Foo", name=1, args=2, kwargs=3, k=4, x=5)))


def init_types():
    t = JSXTag("Foo", "x", a=1)
    return (type(t.name).__name__, type(t.attrs).__name__, type(t.children).__name__, sorted(t.__dict__), list(t.__dict__))


show("field types/order", init_types)


def init_not_aliasing():
    kids = ["a", "b"]
    kw = {"p_q": [1]}
    t = JSXTag("Foo", kids, **kw)
    kids.append("c")
    kw["r"] = 2
    return (dump(t), t.attrs["p-q"] is kw["p_q"])


show("no aliasing of inputs", init_not_aliasing)


def reinit_partial():
    t = JSXTag("Foo", "x", a=1)
    try:
        t.__init__("Bar", object(), b=2)
    except BaseException as e:  # noqa: BLE001
        return (type(e).__name__, dump(t))
    return dump(t)


show("re-init failing at children keeps new name/attrs", reinit_partial)


def reinit_partial2():
    t = JSXTag("Foo", "x", a=1)
    try:
        t.__init__("Bar", "y", allowedProps=["a"], b=2)
    except BaseException as e:  # noqa: BLE001
        return (type(e).__name__, dump(t))
    return dump(t)


show("re-init failing at props keeps everything", reinit_partial2)

show("jsx_tag_create name", lambda: jsx_tag_create("Foo").__name__)
show("jsx_tag_create allowed ok", lambda: dump(jsx_tag_create("Foo", ["a", "class_"])("k", a=1, class_="z")))
show("jsx_tag_create allowed bad", lambda: dump(jsx_tag_create("Foo", ["a"])("k", a=1, b=2)))
show("jsx_tag_create lower", lambda: jsx_tag_create("foo")())
show("append/extend", lambda: (lambda t: (t.append("a", 1, None, ["b"]), t.extend(["c", TagList("d")]), dump(t))[2])(JSXTag("Foo")))

# --------------------------------------------------------------------------------------
section("_serialize_attr")

Foo = jsx_tag_create("Foo")
Bar = jsx_tag_create("Bar")

attr_values = [
    None, True, False, 0, 1, -3, 10**30, 0.0, -0.0, 1.5, 1e100, float("inf"), float("-inf"), float("nan"),
    "", "s", 'say "hi"', "it's", "back\\slash", 'q\\"', "line\nbreak", "tab\t", "</script>", "é中", "{x}", "%s",
    jsx(""), jsx("x => x"), jsx('"quoted"'), jsx("a", "b"), jsx("a") + jsx("b"), jsx("a") + "b",
    [], (), [1], (1,), [1, "a", None, True, 1.5, jsx("j")], [[1, [2, [3]]], ()], [{"a": [1, {"b": None}]}],
    {}, {"a": 1}, {"a": 1, "b": "x", "c": None, "d": True}, {1: 2, None: 3, True: 4, 1.5: 5}, {"a-b": {"c_d": {"e": []}}},
    {'q"k': 1}, {(1, 2): 3}, {"j": jsx("fn()")}, {jsx("k"): jsx("v")},
    collections.OrderedDict([("b", 1), ("a", 2)]), collections.defaultdict(list, {"x": [1]}), JSXTagAttrDict(a_b=1, c_=jsx("e")),
    collections.Counter("aab"), Point(1, "z"), collections.deque([1, 2]), range(3), {1}, frozenset(), b"bytes", bytearray(b"x"),
    1 + 2j, Color.RED, Flag.A, Stringy('x"y'), Stringy(""), Stringy("multi\nline"), HTML("<b>\"x\"</b>"), TagList("a", "b"), TagList(),
    object, len, Ellipsis, NotImplemented,
]
for i, v in enumerate(attr_values):
    show(f"value[{i}] {type(v).__name__}", lambda v=v: _serialize_attr(v))

show("tag div()", lambda: _serialize_attr(div()))
show("tag div full", lambda: _serialize_attr(div("a", span('q"'), class_="c", id="i", style="color:red;")))
show("tag with dep child", lambda: _serialize_attr(div(dep("x"), "a")))
show("tag with HTML child (TypeError)", lambda: _serialize_attr(div(HTML("<b>"))))
show("tag with widget child (TypeError)", lambda: _serialize_attr(div(Widget())))
show("jsx tag empty", lambda: _serialize_attr(JSXTag("Bar")))
show("jsx tag dotted", lambda: _serialize_attr(JSXTag("Lib.Bar", "c", p=[1, {"a": div()}])))
show("jsx tag style", lambda: _serialize_attr(JSXTag("Bar", style="a:b;c:d", other={"style": "a:b"})))
show("jsx tag bad style", lambda: _serialize_attr(JSXTag("Bar", style=[1])))
show("list of tags", lambda: _serialize_attr([div(), JSXTag("Bar", x=1), (span("s"),)]))
show("dict of tags", lambda: _serialize_attr({"t": div("x"), "j": JSXTag("Bar")}))
show("dep value", lambda: _serialize_attr(dep("x")).startswith('"'))
show("taglist value", lambda: _serialize_attr(TagList(div("a"))))


class RaisingStr:
    def __str__(self):
        raise KeyError("boom")


show("raising __str__", lambda: _serialize_attr(RaisingStr()))
show("raising __str__ in list", lambda: _serialize_attr([1, RaisingStr()]))
show("raising __str__ in dict", lambda: _serialize_attr({"a": RaisingStr()}))


def recursion():
    a = []
    a.append(a)
    try:
        _serialize_attr(a)
    except RecursionError:
        return "RecursionError"
    return "no error"


show("self-referential list", recursion)

# --------------------------------------------------------------------------------------
section("_serialize_style_attr")

style_values = [
    None, "", ";", ";;", ":", "::", "a:b", "a:b;", ";a:b", "a:b;c:d", "a:b;c:d;", " a : b ; c:d ", "a:b;a:c", "a:;:b",
    "color:red;;font-size:12px", "nocolon", "nocolon;a:b", "a:b;nocolon", "a:b:c", "a:b;c:d:e", "background:url(http://x/y.png)",
    "a:b\nc:d", 'font-family:"Helvetica Neue"', "a:b;c", "--var:1px", "a:b:c;nocolon", "x;y;z",
    jsx("a:b"), jsx("zzz"),
    {}, {"color": "red"}, {"a": 1, "b": None, "c": [1], "d": {"e": jsx("f")}}, {1: 2}, collections.OrderedDict(z=1),
    JSXTagAttrDict(font_size="1px"),
    [], [("a", "b")], (), 0, 1, True, False, 1.5, b"a:b", HTML("a:b"), Stringy("a:b"), div(), JSXTag("Bar"), {1}, object,
]
for i, v in enumerate(style_values):
    show(f"style[{i}] {type(v).__name__} {v!r:.40}", lambda v=v: _serialize_style_attr(v))

show("style through component", lambda: str(Foo(style="color:red;margin:0 auto")))
show("style None through component", lambda: str(Foo(style=None)))
show("style dict through component", lambda: str(Foo(style={"color": "red"}, Style="not:parsed", style_="x:y")))
show("bad style through component", lambda: str(Foo(style=5)))
show("bad style string through component", lambda: str(Foo(style="a:b:c")))
show("style on html tag inside component", lambda: str(Foo(div(style="color:red"))))

# --------------------------------------------------------------------------------------
section("_render_react_js")

show("str", lambda: _render_react_js("a", 0, "\n"))
show("str indent", lambda: _render_react_js('a"b\\', 3, "\n"))
show("str empty", lambda: _render_react_js("", 1, ""))
show("jsx str", lambda: _render_react_js(jsx('x"y'), 1, "\n"))
show("dep", lambda: _render_react_js(dep("x"), 2, "\n"))
show("html", lambda: _render_react_js(HTML("x"), 2, "\n"))
show("int", lambda: _render_react_js(1, 2, "\n"))
show("None", lambda: _render_react_js(None, 2, "\n"))
show("taglist", lambda: _render_react_js(TagList("a"), 2, "\n"))
show("nested eol", lambda: _render_react_js(JSXTag("Foo", "a", div("b", dep("x"), id="i"), JSXTag("Bar"), "", p='q"'), 1, "|"))
show("only deps children", lambda: _render_react_js(JSXTag("Foo", dep("x"), dep("y")), 0, "\n"))
show("attrs only", lambda: _render_react_js(JSXTag("Foo", a=1, b_c=[div()]), 0, "\n"))

# --------------------------------------------------------------------------------------
section("tagify")


def tagify_report(make):
    Widget.calls = 0
    x = make()
    before = dump(x)
    ids_before = identity_map(x)
    t = x.tagify()
    after = dump(x)
    ids_after = identity_map(x)
    s = str(x)
    after2 = dump(x)
    kids = list(t.children)
    return {
        "pure": before == after == after2,
        "same_objects": ids_before == ids_after == identity_map(x),
        "type": type(t).__name__,
        "name": t.name,
        "attrs": [(k, type(v).__name__, str(v)) for k, v in t.attrs.items()],
        "add_ws": t.add_ws,
        "child_types": [type(c).__name__ for c in kids],
        "deps": [(d.name, str(d.version), d.as_dict()) for d in t.get_dependencies()],
        "deps_nodedup": [d.name for d in t.get_dependencies(dedup=False)],
        "js": str(kids[0]),
        "str_equal": s == str(t) == repr(x) == x._repr_html_(),
        "str": s,
        "widget_calls": Widget.calls,
    }


def show_tagify(label, make):
    try:
        rep = tagify_report(make)
    except BaseException as e:  # noqa: BLE001
        print(f"[tagify] {label} -> RAISED {type(e).__name__}: {e}")
        return
    for k, v in rep.items():
        print(f"[tagify] {label} :: {k} = {v!r}")


show_tagify("empty", lambda: Foo())
show_tagify("dotted", lambda: JSXTag("Lib.Sub.Foo"))
show_tagify("child only", lambda: Foo("x"))
show_tagify("prop only", lambda: Foo(a=1))
show_tagify(
    "all prop kinds",
    lambda: Foo(
        n=None, t=True, f=False, i=3, fl=2.5, s='he said "x"', l=[1, "a", [None]], tu=(1, 2), d={"k": {"n": [1]}},
        j=jsx("() => 1"), tg=div("x", id="i"), c=Bar("y", z=1), class_="cls", data_a_b="d", for_="f", style="a:b",
    ),
)
show_tagify(
    "children kinds",
    lambda: Foo("a", 1, 2.5, None, ["b", ("c", [TagList("d", div("e"))])], jsx("`expr`"), Bar(), Bar("k", p=1), div(span("deep", Bar("deeper")))),
)


def with_appends():
    f = Foo("first", a=1)
    f.append("second", Bar("b1"))
    f.extend(["third", div("t")])
    f.children.insert(0, "zeroth")
    f.children += ["plus"]
    f.attrs["late_prop"] = 2
    f.attrs.update({"upd_": 3}, kw_x=4)
    return f


show_tagify("children added later", with_appends)
show_tagify(
    "metadata everywhere",
    lambda: Foo(
        dep("child-dep"),
        div(dep("in-tag"), span(dep("in-tag-deep", "2.0"))),
        Bar(dep("in-jsx-child"), p=div(dep("in-jsx-prop-tag"))),
        Widget(dep("from-widget"), Bar(dep("widget-jsx"))),
        MetaWidget(),
        head_content(tags.title("T")),
        tagprop=div(dep("prop-tag-dep")),
        jsxprop=Bar(dep("prop-jsx-dep"), q=Bar(dep("prop-jsx-prop-dep"))),
        widgetprop=Widget(dep("prop-widget-dep")),
        depprop=dep("direct-prop-dep"),
        listprop=[dep("in-list-not-walked")],
    ),
)
show_tagify("duplicate deps", lambda: Foo(dep("same"), dep("same"), dep("same", "2.0"), dep("react", "99.0.0")))
show_tagify("str widget", lambda: Foo(StrWidget(), p=StrWidget()))
show_tagify("widget in prop", lambda: Foo(p=Widget()))
show_tagify("weird strings", lambda: Foo("it's", 'dq"', "</script>", "{x}", "%s %(a)s", "é中", "", p="{y}", q="{component}", r="{name}"))
show_tagify("name with braces", lambda: (lambda t: (setattr(t, "name", 'X{y}"z'), t)[1])(Foo("a")))
show_tagify("name format-like", lambda: (lambda t: (setattr(t, "name", "X{component}{name}{0}%s"), t)[1])(Foo("a")))
show_tagify("name int after the fact", lambda: (lambda t: (setattr(t, "name", 7), t)[1])(Foo("a")))
show_tagify("name Stringy after the fact", lambda: (lambda t: (setattr(t, "name", Stringy("S")), t)[1])(Foo()))
show_tagify("name jsx no children", lambda: JSXTag(jsx("Foo")))
show_tagify("name jsx with children", lambda: JSXTag(jsx("Lib.Foo"), "a", p=1))


class Fmt(str):
    def __format__(self, spec):
        return "<formatted:" + str.__str__(self) + ">"


show_tagify("name with __format__", lambda: JSXTag(Fmt("Foo"), "a", p=1))
show_tagify("name with __format__ no children", lambda: JSXTag(Fmt("Foo")))
show_tagify("HTML child (TypeError)", lambda: Foo(HTML("<b>")))
show_tagify("HTML in nested tag (TypeError)", lambda: Foo(div(HTML("<b>"))))
show_tagify("HTML prop ok", lambda: Foo(p=HTML('<b class="x">')))
show_tagify("bad style (TypeError)", lambda: Foo(Bar(style=3)))
show_tagify("taglist prop", lambda: Foo(p=TagList("a", div())))
show_tagify("script tag child", lambda: Foo(tags.script("var x = 1;")))


class BadWidget:
    label = "BadWidget"

    def tagify(self):
        raise ZeroDivisionError("bad widget")


show_tagify("raising widget", lambda: Foo("a", BadWidget(), Widget()))


def shared_child():
    shared = Bar("s", dep("shared-dep"))
    return Foo(shared, shared, p=shared)


show_tagify("shared child", shared_child)


def tagify_twice():
    f = Foo(Bar("x", dep("d")), Widget(), p=[1])
    a = f.tagify()
    b = f.tagify()
    return (str(a) == str(b), a is b, a.children[0] is b.children[0], [d.name for d in a.get_dependencies()] == [d.name for d in b.get_dependencies()])


show("tagify twice", tagify_twice)


def inside_html():
    return str(div(Foo("x", dep("dd")), Foo("y")))


show("inside div", inside_html)
show("render deps", lambda: [(d.name, str(d.version)) for d in div(Foo(dep("dd")), Foo()).render()["dependencies"]])
show("render html", lambda: TagList(Foo("a"), "txt", Foo(b=1)).render()["html"])


def dep_files_exist():
    t = Foo().tagify()
    out = []
    for d in t.get_dependencies():
        m = d.source_path_map()
        for s in d.script:
            out.append((d.name, s["src"], os.path.isfile(os.path.join(m["source"], s["src"]))))
    return out


show("dependency files exist", dep_files_exist)


def copy_independent():
    f = Foo("a", p=1)
    g = copy.copy(f)
    g.append("b")
    g.attrs["q"] = 2
    return (dump(f), dump(g), type(g).__name__)


show("copy", copy_independent)

# module surface that the refactorings must keep
show("module __all__", lambda: _jsx.__all__)
show("JSXTagAttrValue", lambda: _jsx.JSXTagAttrValue)
