# Probe for TagList.get_dependencies (collection over nesting levels, dedup on/off)
import random
from htmltools import HTMLDependency, HTMLDocument, TagList, Tag, div, span, tags, HTML


def show(label, f):
    try:
        print(label, "->", repr(f()))
    except BaseException as e:  # noqa
        print(label, "!!", type(e).__name__, str(e)[:160])


pool = [
    HTMLDependency("a", "1.0"), HTMLDependency("b", "1.9"), HTMLDependency("a", "1.10"),
    HTMLDependency("a", "1.9"), HTMLDependency("b", "1.10.0"), HTMLDependency("c", "2"),
    HTMLDependency("a", "1.10.0"), HTMLDependency("b", "1.10"), HTMLDependency("c", "2.0.0"),
    HTMLDependency("", "0"),
]


def ids(deps):
    assert type(deps) is list, type(deps)
    return [(d.name, str(d.version), [i for i, p in enumerate(pool) if p is d][0]) for d in deps]


show("empty", lambda: TagList().get_dependencies())
show("empty-nodedup", lambda: TagList().get_dependencies(dedup=False))
show("strings-only", lambda: TagList("a", HTML("<b>")).get_dependencies())
show("flat", lambda: ids(TagList(*pool).get_dependencies()))
show("flat-nodedup", lambda: ids(TagList(*pool).get_dependencies(dedup=False)))
t = TagList(pool[0], "s", div(pool[1], span(pool[2], "x", span(span(pool[6]))), pool[3]), pool[4], div(), div(div(div(pool[7]))), pool[8], pool[5])
show("nested", lambda: ids(t.get_dependencies()))
show("nested-nodedup", lambda: ids(t.get_dependencies(dedup=False)))
show("tag.get_deps", lambda: ids(div(t).get_dependencies()))
show("tag.get_deps-nodedup", lambda: ids(div(t).get_dependencies(False)))
show("children.get_deps", lambda: ids(div(t).children.get_dependencies(dedup=False)))

# dedup flag truthiness variants
for flag in [True, False, 1, 0, None, "", "no", [], [0]]:
    show("flag %r" % (flag,), lambda: ids(TagList(pool[0], div(pool[2]), pool[0]).get_dependencies(dedup=flag)))
show("positional-dedup", lambda: TagList(pool[0]).get_dependencies(False))

# every call returns a fresh list; nodedup result is not aliased to anything held by the tree
tl = TagList(pool[0], div(pool[2]))
r1 = tl.get_dependencies(dedup=False); r2 = tl.get_dependencies(dedup=False)
r1.append("junk")
print("fresh", r1 is r2, ids(r2), ids(tl.get_dependencies(dedup=False)))

# same dep object in several places
same = TagList(pool[0], div(pool[0], span(pool[0])), pool[0])
show("same-obj-nodedup", lambda: ids(same.get_dependencies(dedup=False)))
show("same-obj-dedup", lambda: ids(same.get_dependencies()))

# random trees: independent of position, idempotent, nodedup keeps document order
rng = random.Random(2024)
def rand_tree(depth):
    kids = []
    for _ in range(rng.randint(0, 4)):
        c = rng.random()
        if c < 0.45:
            kids.append(rng.choice(pool))
        elif c < 0.6:
            kids.append("txt")
        elif depth < 4:
            kids.append(rand_tree(depth + 1))
    return div(*kids)

for i in range(40):
    tr = TagList(rand_tree(0), rng.choice(pool), rand_tree(1))
    nd = tr.get_dependencies(dedup=False)
    dd = tr.get_dependencies()
    flat = TagList(*nd).get_dependencies()
    again = TagList(*dd).get_dependencies()
    print("rand", i, ids(nd), "=>", ids(dd), [x is y for x, y in zip(dd, flat)], [x is y for x, y in zip(dd, again)], len(dd) == len(flat) == len(again))

# non-tagified / odd members stored directly in the underlying list are skipped
class Lazy:
    def __init__(self, x): self.x = x
    def tagify(self): return self.x
lz = TagList(pool[0], Lazy(div(pool[2])), div(Lazy(pool[4])))
show("untagified", lambda: ids(lz.get_dependencies()))
show("tagified", lambda: [(d.name, str(d.version)) for d in lz.tagify().get_dependencies()])
odd = TagList(pool[0]); odd.data.append(None); odd.data.append(42); odd.data.append(pool[2])
show("odd-members", lambda: ids(odd.get_dependencies(dedup=False)))

# subclass of Tag overriding get_dependencies is honoured, whatever iterable it returns
class T2(Tag):
    calls = []
    def get_dependencies(self, dedup=True):
        T2.calls.append(dedup)
        return tuple(super().get_dependencies(dedup=dedup)) + (pool[9],)
show("override", lambda: ids(TagList(pool[0], T2("x", pool[1], T2("y", pool[2])), pool[3]).get_dependencies()))
print("override calls", T2.calls)
class T3(Tag):
    def get_dependencies(self, dedup=True):
        return (d for d in [pool[5], pool[8]])
show("override-gen", lambda: ids(TagList(T3("x"), pool[0]).get_dependencies(dedup=False)))
class T4(Tag):
    def get_dependencies(self, dedup=True):
        return None
show("override-none", lambda: ids(TagList(T4("x"), pool[0]).get_dependencies(dedup=False)))
class T5(Tag):
    def get_dependencies(self, dedup=True):
        raise ValueError("nope")
show("override-raises", lambda: ids(TagList(pool[0], T5("x")).get_dependencies(dedup=False)))

# subclass of HTMLDependency counts as a dependency
class D2(HTMLDependency):
    pass
d2 = D2("a", "5")
show("dep-subclass", lambda: [(type(d).__name__, d.name, str(d.version)) for d in TagList(pool[0], div(d2)).get_dependencies()])

# through render / HTMLDocument
show("taglist.render", lambda: (lambda r: (r["html"], [(d.name, str(d.version)) for d in r["dependencies"]]))(t.render()))
show("tag.render", lambda: (lambda r: (r["html"], [(d.name, str(d.version)) for d in r["dependencies"]]))(div(t).render()))
show("doc.render", lambda: (lambda r: (r["html"], [(d.name, str(d.version)) for d in r["dependencies"]]))(HTMLDocument(t).render()))
