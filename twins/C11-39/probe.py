import copy as _copy
import os
import tempfile

from htmltools import (
    HTML,
    HTMLDependency,
    HTMLDocument,
    Tag,
    TagList,
    div,
    head_content,
    span,
    tags,
)
from htmltools._core import _resolve_dependencies


def show(label, fn):
    try:
        out = fn()
    except Exception as e:  # noqa: BLE001
        print(label, "->", "EXC", type(e).__name__, str(e))
        return None
    print(label, "->", repr(out))
    return out


def dep(name, version, **kw):
    return HTMLDependency(name, version, **kw)


class Widget:
    """Tagifiable that expands to a tag carrying a dependency."""

    def __init__(self, what):
        self.what = what

    def tagify(self):
        w = self.what
        if w == "html":
            return tags.html(tags.head(tags.title("W")), tags.body("wb"), dep("w", "1.0"))
        if w == "body":
            return tags.body(div("in body"), dep("w", "2.0"), class_="bc")
        if w == "list":
            return TagList(div("a"), dep("w", "0.1"), "txt")
        if w == "empty":
            return TagList()
        if w == "str":
            return "plain <str>"
        return div("widget", dep("w", "3.0"))


class MyTag(Tag):
    pass


def render_doc(doc, **kw):
    r = doc.render(**kw)
    return (
        r["html"],
        [(d.name, str(d.version)) for d in r["dependencies"]],
        list(r.keys()),
    )


a1 = dep("a", "1.0", source={"subdir": "libtest/testdep"}, script={"src": "a.js"})
a2 = dep(
    "a",
    "1.1",
    source={"subdir": "libtest/testdep"},
    script=[{"src": "a 2.js", "defer": ""}, {"src": "a3.js", "type": "module"}],
    stylesheet={"href": "a b.css", "media": "print"},
    meta={"name": "viewport", "content": "width=device-width"},
    head=tags.script("alert('a<2>')"),
)
b1 = dep(
    "b",
    "2",
    source={"href": "https://x.test/b"},
    stylesheet=[{"href": "b.css"}, {"href": "c.css", "rel": "preload"}],
    head="<link rel='x'>",
)
c0 = dep("c", "0.0.1", head=TagList(tags.meta(name="c"), "text & more"))
nosrc = dep("nosrc", "1", script={"src": "n.js"}, meta=[{"name": "m1", "content": "1"}, {"name": "m2", "content": "2"}])
hc1 = head_content(tags.title("T<1>"))
hc2 = head_content(tags.title("T<1>"))
hc3 = head_content(tags.style("p > a {}"), "raw")

CASES = {
    "empty": lambda: HTMLDocument(),
    "text": lambda: HTMLDocument("hello <b>"),
    "html_obj": lambda: HTMLDocument(HTML("<i>x</i>"), "y"),
    "none_and_nums": lambda: HTMLDocument(None, 1, 2.5, [None, "z"]),
    "div_deps": lambda: HTMLDocument(div("x", a1, span(b1, "y")), a2, lang="en"),
    "dup_order": lambda: HTMLDocument(div(b1, a2), a1, c0, a1, b1),
    "lower_later": lambda: HTMLDocument(a2, div(a1)),
    "sole_body": lambda: HTMLDocument(tags.body(div("x", a1), id="b"), class_="k"),
    "sole_body_attrs_kw": lambda: HTMLDocument(tags.body("x"), lang="fr", data_x="1", _class="c"),
    "body_and_more": lambda: HTMLDocument(tags.body("x"), "tail"),
    "two_bodies": lambda: HTMLDocument(tags.body("x"), tags.body("y")),
    "body_in_list": lambda: HTMLDocument([tags.body("x", b1)]),
    "body_in_taglist": lambda: HTMLDocument(TagList(tags.body("x", b1))),
    "body_plus_dep": lambda: HTMLDocument(tags.body("x"), b1),
    "sole_html": lambda: HTMLDocument(tags.html(tags.head(tags.title("t")), tags.body("b", a2)), lang="de"),
    "sole_html_nohead": lambda: HTMLDocument(tags.html(tags.body("b", hc1), c0)),
    "sole_html_dep_first": lambda: HTMLDocument(tags.html(a1, tags.body("b"), tags.head(tags.title("late")), tags.head("second"))),
    "sole_html_empty": lambda: HTMLDocument(tags.html()),
    "sole_html_attrs": lambda: HTMLDocument(tags.html("t", lang="en", class_="a"), lang="nl", class_="b"),
    "html_and_more": lambda: HTMLDocument(tags.html(tags.body("b")), "x"),
    "html_nested_head": lambda: HTMLDocument(tags.html(div(tags.head("inner")), tags.body("b"))),
    "html_subclass": lambda: HTMLDocument(MyTag("html", MyTag("head", "h"), "t", b1)),
    "body_subclass": lambda: HTMLDocument(MyTag("body", "t", b1, _add_ws=False)),
    "Html_upper": lambda: HTMLDocument(Tag("HTML", "x")),
    "head_only": lambda: HTMLDocument(tags.head(tags.title("x"))),
    "widget_html": lambda: HTMLDocument(Widget("html"), lang="w"),
    "widget_body": lambda: HTMLDocument(Widget("body")),
    "widget_list": lambda: HTMLDocument(Widget("list")),
    "widget_empty": lambda: HTMLDocument(Widget("empty")),
    "widget_str": lambda: HTMLDocument(Widget("str")),
    "widget_div": lambda: HTMLDocument(div(Widget("div"), Widget("list")), Widget("div")),
    "widget_in_body": lambda: HTMLDocument(tags.body(Widget("div"))),
    "widget_in_html": lambda: HTMLDocument(tags.html(tags.head(Widget("str")), tags.body(Widget("list")))),
    "head_contents": lambda: HTMLDocument(div(hc1, hc2), hc3, hc1),
    "nosrc": lambda: HTMLDocument(nosrc, div(nosrc)),
    "script_style": lambda: HTMLDocument(tags.script("a<b"), tags.style("x>y"), span("i", _add_ws=False), "t"),
    "dep_head_widget": lambda: HTMLDocument(dep("hw", "1", head=TagList(Widget("div")))),
    "bad_child": lambda: HTMLDocument(object()),
    "bad_attr_name": lambda: HTMLDocument("x", _name="boom"),
    "add_ws_kw": lambda: HTMLDocument("x", _add_ws=False),
    "attr_none_false": lambda: HTMLDocument("x", a=None, b=False, c=True, d=3),
}


def run_cases():
    for label, mk in CASES.items():
        doc = show("mk " + label, lambda: type(mk()).__name__)
        if doc is None:
            # construction itself failed; still try rendering to record the exception
            pass
        for kw in ({}, {"lib_prefix": None}, {"lib_prefix": "my/lib", "include_version": False}):
            show(f"{label} {sorted(kw.items())}", lambda: render_doc(mk(), **kw))


def run_mutation_checks():
    # Rendering must not change the user's objects, and may be repeated.
    body = tags.body(div("x", a1), id="b")
    html = tags.html(tags.head(tags.title("t")), body, hc1)
    for label, obj in (("body", body), ("html", html), ("div", div(a2, "z"))):
        before = (str(obj), repr(obj.attrs), len(obj.children))
        doc = HTMLDocument(obj, lang="en")
        r1 = render_doc(doc)
        r2 = render_doc(doc)
        after = (str(obj), repr(obj.attrs), len(obj.children))
        print("mut", label, r1 == r2, before == after, after)
    doc = HTMLDocument(div("one"))
    doc.append(a1, span("two"))
    show("append", lambda: render_doc(doc))
    doc2 = _copy.copy(doc)
    doc2.append("three")
    show("copy orig", lambda: render_doc(doc))
    show("copy new", lambda: render_doc(doc2))


def run_hoist_direct():
    h = HTMLDocument._hoist_head_content
    show("hoist non-html", lambda: h(div("x"), "lib", True))
    show("hoist body", lambda: h(tags.body("x"), None, False))
    x = tags.html(a1, tags.head("h1", id="H"), tags.head("h2"), tags.body(b1))
    res = show("hoist multi head", lambda: str(h(x, "lib", True)))
    res = h(x, "L", False)
    print("hoist identity", res is x, res.children[1] is x.children[1], res.children[2] is x.children[2], res.children[3] is x.children[3])
    print("hoist orig untouched", str(x))
    y = tags.html("only text")
    res = h(y, None, True)
    print("hoist inserted", str(res), len(y.children), len(res.children), type(res.children[0]).__name__)
    z = MyTag("html", MyTag("head", c0))
    res = h(z, "lib", True)
    print("hoist subclass", type(res).__name__, type(res.children[0]).__name__, str(res))


def run_dep_pieces():
    for d in (a1, a2, b1, c0, nosrc, hc1, hc3):
        for kw in ({}, {"lib_prefix": None}, {"lib_prefix": "p", "include_version": False}):
            show(f"as_html_tags {d.name[:12]} {sorted(kw.items())}", lambda: [type(t).__name__ + ":" + str(t) for t in d.as_html_tags(**kw)])
    show("as_html_tags type", lambda: type(a2.as_html_tags()).__name__)
    bad = dep("bad", "1", script={"src": "s.js"})
    bad.script.append({"src": "t.js", "_name": "x"})
    show("as_html_tags bad key", lambda: str(bad.as_html_tags()))
    bad2 = dep("bad2", "1")
    bad2.meta = [{"name": "m", "content": "c", "_add_ws": "no"}]
    show("as_html_tags bad add_ws", lambda: str(bad2.as_html_tags()))
    show("doc bad dep", lambda: render_doc(HTMLDocument(div(bad))))

    def names(ds):
        return [(d.name, str(d.version), id(d) in ids) for d in ds]

    lst = [a1, b1, a2, c0, a1, b1, dep("c", "0.0.1"), dep("c", "0.0.2"), dep("b", "1.9")]
    ids = {id(d) for d in lst[:6]}
    show("resolve", lambda: names(_resolve_dependencies(lst)))
    show("resolve rev", lambda: names(_resolve_dependencies(lst[::-1])))
    show("resolve empty", lambda: _resolve_dependencies([]))
    same = [dep("s", "1.0", head="first"), dep("s", "1.0", head="second"), dep("s", "1.0.0", head="third")]
    show("resolve ties", lambda: [str(d.head) for d in _resolve_dependencies(same)])
    show("resolve bad item", lambda: _resolve_dependencies([a1, "nope"]))
    odd = dep("o", "1")
    odd.name = ["unhashable"]
    show("resolve unhashable", lambda: _resolve_dependencies([odd]))
    odd2 = dep("o", "1")
    odd2.version = "1"
    show("resolve str version", lambda: names(_resolve_dependencies([dep("o", "2"), odd2])))
    show("resolve str version single", lambda: names(_resolve_dependencies([odd2])))


def run_render_pieces():
    t = div("x", a1, span(a2, Widget("div")), Widget("list"), b1)
    tl = TagList(t, "y", a1, Widget("body"))
    for label, obj in (("tag", t), ("taglist", tl), ("empty taglist", TagList()), ("void", tags.br()), ("mytag", MyTag("p", c0, "q"))):
        def go():
            r = obj.render()
            return (r["html"], [(d.name, str(d.version)) for d in r["dependencies"]], list(r.keys()), type(r).__name__)
        show("render " + label, go)
        show("deps nodedup " + label, lambda: [(d.name, str(d.version)) for d in obj.tagify().get_dependencies(dedup=False)])

    class Bad:
        def tagify(self):
            raise KeyError("bad tagify")

    show("render bad tagify", lambda: div(Bad()).render())
    show("render bad tagify list", lambda: TagList(Bad()).render())
    show("doc bad tagify", lambda: HTMLDocument(div(Bad())).render())


def run_save():
    with tempfile.TemporaryDirectory() as td:
        cwd = os.getcwd()
        f = os.path.join(td, "out.html")
        doc = HTMLDocument(div("saved", b1, hc1), lang="en")
        show("save ret", lambda: os.path.basename(doc.save_html(f)))
        show("save content", lambda: open(f).read())
        show("save listing", lambda: sorted(os.listdir(td)))
        os.chdir(cwd)


def main(extra=()):
    run_cases()
    run_mutation_checks()
    run_hoist_direct()
    run_dep_pieces()
    run_render_pieces()
    run_save()
    for fn in extra:
        fn()


if __name__ == "__main__":
    main()
