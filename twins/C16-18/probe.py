from htmltools import HTML, div, span, tags


def show(label, f):
    try:
        r = f()
        print(label, "->", type(r).__name__, repr(r))
    except BaseException as e:  # noqa
        print(label, "-> EXC", type(e).__name__, str(e))


def dump(t):
    return [(k, type(v).__name__, str(v)) for k, v in t.attrs.items()]


class Tok:
    def __init__(self, s):
        self.s = s

    def __str__(self):
        return self.s

    def __eq__(self, other):
        print("   Tok.__eq__", repr(other))
        return other == self.s

    def __hash__(self):
        return hash(self.s)


class Falsy:
    def __bool__(self):
        print("   Falsy.__bool__")
        return False

    def __str__(self):
        return "a"


class BadStr:
    def __str__(self):
        raise RuntimeError("no str")


def rm(cls_value, token, **extra):
    t = div(id="i", class_=cls_value, title="t", **extra)
    r = t.remove_class(token)
    return (r is t, dump(t), str(t))


values = [
    None, "", "a", "a b", "b a", "a a a", " a  b\ta\nc ", "ab a-b a_b A", "  ", "\t\n",
    "x y z", "a b a", "a b", "a\x1fb a", "é a É",
    HTML("a b"), HTML("a"), HTML(""), HTML("  "), HTML("<a> a &"), True, 5,
]
tokens = ["a", "", " a ", "a b", "A", "b", None, 0, 5, "<a>", "é", "\ta\n", HTML("a"), HTML(""), Tok("a"), Falsy(), "  "]
for v in values:
    for tk in tokens:
        show(f"remove {v!r:>22} {str(type(tk).__name__)}:{str(tk)!r}", lambda v=v, tk=tk: rm(v, tk))

show("remove badstr no class", lambda: rm(None, BadStr()))
show("remove badstr with class", lambda: rm("a b", BadStr()))
show("remove no attrs at all", lambda: str(span().remove_class("a")))

# key position is kept / attribute dropped
show("position", lambda: rm("a b", "a", data_x="1"))
show("dropped", lambda: rm("a", "a", data_x="1"))

# raw (non-normalised) storage in attrs
def raw(val, token, has=False):
    t = div()
    dict.__setitem__(t.attrs, "class", val)
    if has:
        return t.has_class(token)
    r = t.remove_class(token)
    return (r is t, dump(t))


show("raw int class remove", lambda: raw(5, "a"))
show("raw int class has", lambda: raw(5, "a", True))
show("raw zero class has", lambda: raw(0, "a", True))
show("raw list class remove", lambda: raw(["a"], "a"))
show("raw list class has", lambda: raw(["a"], "a", True))
show("raw int + badstr", lambda: raw(5, BadStr()))

# has_class
for v in values:
    res = []
    for tk in ["a", "", "a b", "A", "b", None, 5, HTML("a"), Tok("a"), " a", "&", "<a>"]:
        try:
            t = div(class_=v)
            res.append(t.has_class(tk))
        except BaseException as e:  # noqa
            res.append(type(e).__name__)
    print("has", repr(v), res)

show("has no attrs", lambda: span().has_class("a"))
show("has unhashable", lambda: div(class_="a").has_class(["a"]))
show("has unhashable empty", lambda: div().has_class(["a"]))


def algebra():
    t = tags.p("txt", class_="one two")
    out = []
    out.append(t.add_class("three").has_class("three"))
    out.append(str(t))
    out.append(t.add_class("zero", prepend=True).has_class("zero"))
    out.append(str(t))
    out.append(t.remove_class("two").has_class("two"))
    out.append(str(t))
    for c in ("zero", "one", "three"):
        t.remove_class(c)
        out.append(str(t))
    out.append("class" in t.attrs)
    t.remove_class("one")
    out.append(str(t))
    return out


show("algebra", algebra)
