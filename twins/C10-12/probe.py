# Probe for refactoring 2: resolution of collected dependencies
# (_resolve_dependencies, TagList.get_dependencies, Tag.get_dependencies, render()).
import itertools

from packaging.version import Version

import htmltools._core as core
from htmltools import HTMLDependency, HTMLDocument, TagList, div, head_content, span, tags


def show(label, fn):
    try:
        print(label, "->", fn())
    except BaseException as e:  # noqa
        print(label, "-> EXC", type(e).__name__, str(e))


def D(name, version, tag=None):
    d = HTMLDependency(name, version)
    d.tag = tag  # distinguishes objects of equal name/version
    return d


def ids(deps):
    return [(d.name, str(d.version), getattr(d, "tag", None)) for d in deps]


a1 = D("a", "1.0", "a1")
a1b = D("a", "1.0", "a1b")
a1c = D("a", "1", "a1c")  # Version("1") == Version("1.0")
a19 = D("a", "1.9", "a19")
a110 = D("a", "1.10", "a110")
a2 = D("a", "2.0.0", "a2")
b1 = D("b", "0.1", "b1")
b2 = D("b", "0.2rc1", "b2rc")
b2f = D("b", "0.2", "b2")
c = D("c", "3", "c")
A = D("A", "0.0.1", "A")  # names are case sensitive

R = core._resolve_dependencies
lists = {
    "empty": [],
    "one": [a1],
    "dup-same-object": [a1, a1, a1],
    "tie-earliest": [a1, a1b, a1c],
    "tie-earliest2": [a1c, a1b, a1],
    "numeric": [a19, a110],
    "numeric-rev": [a110, a19],
    "higher-later": [a1, b1, a2, c, b2, a19],
    "higher-first": [a2, b2f, a1, b1, b2],
    "prerelease": [b2, b2f, b1],
    "prerelease2": [b2f, b2],
    "case": [a1, A, a2],
    "mixed": [c, b1, a1, b2f, a110, c, a19, A, b2],
}
for k, v in lists.items():
    r = R(v)
    print(k, ids(r), "idempotent", ids(R(r)) == ids(r), "fresh list", r is not v,
          "same objs", all(any(x is y for y in v) for x in r))
    print(k, "tuple-in", ids(R(tuple(v))), type(R(tuple(v))).__name__)
    print(k, "iter-in", ids(R(iter(v))))

# every permutation of a small multiset: winner/order rules
small = [a1, a1b, a2, b1, b2f]
for perm in itertools.permutations(small):
    print("perm", [d.tag for d in perm], "=>", [d.tag for d in R(list(perm))])

# odd names / versions
show("unhashable-name-single", lambda: ids(R([D(["x"], "1")])))
show("unhashable-name-two", lambda: ids(R([a1, D(["x"], "1")])))
show("none-name", lambda: ids(R([D(None, "1", "n1"), D(None, "2", "n2"), D(None, "2", "n2b")])))
show("int-name", lambda: ids(R([D(1, "1", "i1"), D(1.0, "2", "f2"), D(True, "0", "t0")])))
show("empty-name", lambda: ids(R([D("", "1", "e1"), D("", "1", "e1b")])))
show("int-versions", lambda: ids(R([D("v", 1, "v1"), D("v", 3, "v3"), D("v", 2, "v2")])))
show("int-vs-Version", lambda: ids(R([D("v", 1, "v1"), D("v", "3", "v3")])))
show("Version-obj", lambda: ids(R([D("v", Version("1.2"), "o12"), D("v", "1.10", "s110")])))
show("non-dep-item", lambda: ids(R([a1, None])))
show("non-dep-item2", lambda: ids(R([None])))
show("non-dep-item3", lambda: ids(R(["abc"])))
show("non-iterable", lambda: R(5))
show("none", lambda: R(None))
show("bad-version-string", lambda: D("x", "not a version"))


# Trees
def tree_report(label, x):
    for kw in ({}, {"dedup": True}, {"dedup": False}, {"dedup": 0}, {"dedup": 1}, {"dedup": None}):
        show(f"{label} {kw}", lambda: ids(x.get_dependencies(**kw)))
    if hasattr(x, "children"):
        show(f"{label} positional False", lambda: ids(x.get_dependencies(False)))
    else:
        show(f"{label} positional False", lambda: ids(x.get_dependencies(False)))
    r = x.render()
    print(label, "render", ids(r["dependencies"]), repr(r["html"]))


t1 = div(a1, span(a2, "txt", div(b1, a19)), b2f, TagList(c, div(a110)), a1b)
tree_report("t1", t1)
tree_report("t1.children", t1.children)
tree_report("taglist", TagList(a1, div(a1b, b1), [a1c, (b2, span(b2f))], None, "s", 3))
tree_report("empty-div", div())
tree_report("empty-list", TagList())
tree_report("no-deps", div("a", span("b")))
tree_report("single", div(a1))
tree_report("head_content", div(head_content(tags.title("T")), head_content(tags.title("T")), head_content("x")))

# position independence
flat = TagList(a1, b1, a2, b2f, a1b)
deep = div(div(div(a1), b1), span(span(span(a2)), b2f), a1b)
print("position-independent", ids(flat.get_dependencies()) == ids(deep.get_dependencies()), ids(deep.get_dependencies()))
print("dedup False returns own list each call", flat.get_dependencies(dedup=False) is not flat.get_dependencies(dedup=False))
got = flat.get_dependencies(dedup=False)
print("nodedup identity", all(x is y for x, y in zip(got, [a1, b1, a2, b2f, a1b])), len(got))
got = flat.get_dependencies()
print("dedup identity", [any(x is y for y in [a1, b1, a2, b2f, a1b]) for x in got])

# document
doc = HTMLDocument(t1)
r = doc.render()
print(ids(r["dependencies"]))
print(r["html"])
print(str(t1))
print(repr(TagList(a1, b1)))
