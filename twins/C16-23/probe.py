"""Probe for Tag.remove_class (plus has_class/add_class interplay)."""
from htmltools import HTML, Tag, div, span


def show(label, fn):
    try:
        r = fn()
        print(label, "->", repr(r))
    except Exception as e:  # noqa: BLE001
        print(label, "!!", type(e).__name__, str(e))


def state(t):
    return (
        [(k, type(v).__name__, str(v)) for k, v in t.attrs.items()],
        str(t),
    )


class MyStr(str):
    pass


class Named:
    def __init__(self, s):
        self.s = s

    def __str__(self):
        return self.s

    def __repr__(self):
        return "Named(%r)" % self.s


class Falsy:
    def __bool__(self):
        return False

    def __str__(self):
        return "a"

    def __repr__(self):
        return "Falsy()"


class NoStr:
    def __str__(self):
        raise RuntimeError("no str")

    def __repr__(self):
        return "NoStr()"


starts = [
    ("none", lambda: div()),
    ("a", lambda: div(class_="a")),
    ("a-b-c", lambda: div(class_="a b c")),
    ("dups", lambda: div(class_="a b a  c a")),
    ("only-dups", lambda: div(class_="a a a")),
    ("ws", lambda: div(class_="  a \t b\n c  ")),
    ("blank", lambda: div(class_="   ")),
    ("empty", lambda: div(class_="")),
    ("true", lambda: div(class_=True)),
    ("html", lambda: div(class_=HTML("a <b> c&d"))),
    ("html-one", lambda: div(class_=HTML("a"))),
    ("html-empty", lambda: div(class_=HTML(""))),
    ("case", lambda: div(class_="A a Ab aB")),
    ("prefix", lambda: div(class_="btn btn-primary btn")),
    ("unicode", lambda: div(class_="é e f 　g")),
    ("numeric", lambda: div(class_=5)),
    ("numeric2", lambda: div(class_="5 6 5.0")),
    ("others", lambda: span("kid", id="i", class_="x y", title="t", style="s:1;")),
    ("merged", lambda: div({"class": "m1"}, {"class": "m2"}, class_="m3")),
]

targets = [
    "a", "b", "c", "z", "", " ", " a ", "a b", "\ta\n", "A", "btn", "btn-", "é", "e", "g", "5", "<b>", "c&d", "c&amp;d",
    MyStr("a"), HTML("a"), HTML(""), HTML(" b "), Named("a"), Named(" c "), Named(""),
    None, 0, 5, 5.0, True, False, [], ["a"], ("a",), b"a", Falsy(), NoStr(),
]

for sl, mk in starts:
    for tg in targets:
        def run():
            t = mk()
            before = state(t)
            try:
                r = t.remove_class(tg)
            except Exception:
                print("   unchanged-after-error:", before == state(t))
                raise
            return (r is t, state(t), t.has_class(tg) if isinstance(tg, str) else None)
        show("remove_class start=%s target=%r" % (sl, tg), run)

# attribute position is kept when tokens remain, attribute dropped otherwise
show("key order kept", lambda: list(div(id="i", class_="a b", title="t").remove_class("a").attrs.keys()))
show("key order dropped", lambda: list(div(id="i", class_="a", title="t").remove_class("a").attrs.keys()))
show("drop then add goes last", lambda: list(div(class_="a", id="i").remove_class("a").add_class("n").attrs.keys()))

# sequences of operations
show("seq1", lambda: state(div(class_="a b c").remove_class("b").remove_class("a").remove_class("c").remove_class("c")))
show("seq2", lambda: state(div().add_class("a").add_class("b").add_class("a").remove_class("a")))
show("seq3", lambda: state(div(class_=HTML("<x> y")).remove_class("y").add_class("<z>")))
show("seq4", lambda: state(div(class_=HTML("<x> y")).remove_class("<x>").add_class("<z>")))
show("seq5", lambda: state(div(class_="a").add_class("b", prepend=True).remove_class("a").remove_class("b").add_class("c")))
show("positional/keyword", lambda: state(div(class_="a b").remove_class(class_="a")))
show("no arg", lambda: div(class_="a").remove_class())
show("two args", lambda: div(class_="a").remove_class("a", "b"))

# has_class agrees before/after
def agree():
    out = []
    for cls in ["a", "a b", "b a b", " a  b "]:
        for tok in ["a", "b", "c"]:
            t = div(class_=cls)
            h0 = t.has_class(tok)
            t.remove_class(tok)
            out.append((cls, tok, h0, t.has_class(tok), t.attrs.get("class")))
    return out
show("agree", agree)


# attrs manipulated behind the library's back
def raw(value):
    t = div(id="i")
    dict.__setitem__(t.attrs, "class", value)
    return t
for rv in [None, 0, 5, "", "a b", [], ["a", "b"], b"a b", HTML("a b")]:
    show("raw class %r remove a" % (rv,), lambda: state(raw(rv).remove_class("a")))
    show("raw class %r remove ''" % (rv,), lambda: state(raw(rv).remove_class("")))


def plain_dict():
    t = div()
    t.attrs = {"id": "i", "class": "a b"}
    t.remove_class("a")
    r1 = dict(t.attrs)
    t.remove_class("b")
    return (r1, dict(t.attrs), type(t.attrs).__name__)
show("plain dict attrs", plain_dict)


class MyTag(Tag):
    pass
show("subclass", lambda: (type(MyTag("p", class_="q r").remove_class("q")).__name__, state(MyTag("p", class_="q r").remove_class("q"))))
