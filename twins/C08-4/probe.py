# Probe for refactoring 4: HTMLDependency.source_path_map / as_dict / as_html_tags /
# serialize_to_script_json (and str(dep), which goes through as_html_tags).
import copy
import itertools
import os

import htmltools
from htmltools import HTML, HTMLDependency, HTMLDocument, Tag, TagList, div, span, tags

PKG_DIR = os.path.dirname(os.path.realpath(htmltools.__file__))
CWD = os.path.realpath(os.getcwd())


def norm(x):
    """Make absolute paths position independent."""
    if isinstance(x, str):
        return x.replace(PKG_DIR, "<PKG>").replace(CWD, "<CWD>")
    if isinstance(x, dict):
        return {k: norm(v) for k, v in x.items()}
    if isinstance(x, list):
        return [norm(v) for v in x]
    return x


def show(label, value):
    print(f"{label}: {norm(value)!r}")


def attempt(label, fn):
    try:
        show(label, fn())
    except Exception as e:  # noqa: BLE001
        print(f"{label}: raised {type(e).__name__}: {norm(str(e))}")


def snapshot(d):
    return (
        d.name, str(d.version), copy.deepcopy(d.source), copy.deepcopy(d.script),
        copy.deepcopy(d.stylesheet), copy.deepcopy(d.meta), d.all_files,
        None if d.head is None else str(d.head),
    )


deps = {
    "minimal": lambda: HTMLDependency("a", "1.0"),
    "href": lambda: HTMLDependency(
        "b", "1.2.3", source={"href": "https://cdn.test/lib b"},
        script={"src": "js/b c.js"}, stylesheet={"href": "b?x=1&y.css"}),
    "href multi": lambda: HTMLDependency(
        "c", "2.0", source={"href": "/abs/"},
        script=[{"src": "one.js", "defer": ""}, {"src": "/rooted.js", "type": "module"}],
        stylesheet=[{"href": "one.css", "media": "print"},
                    {"href": "two.css", "rel": "preload", "as": "style"},
                    {"rel": "alternate stylesheet", "href": "three.css"}],
        meta=[{"name": "viewport", "content": "width=device-width"},
              {"name": "m2", "content": "<&>"}]),
    "package": lambda: HTMLDependency(
        "testdep", "1.0", source={"package": "htmltools", "subdir": "libtest/testdep"},
        script={"src": "testdep.js"}, stylesheet={"href": "testdep.css"}),
    "subdir only": lambda: HTMLDependency(
        "rel", "0.1", source={"subdir": "some/rel dir"},
        script={"src": "r.js"}, all_files=True),
    "head str": lambda: HTMLDependency("h1", "1", head="<meta name='x'>"),
    "head tag": lambda: HTMLDependency("h2", "1", head=tags.title("T<itle>")),
    "head list": lambda: HTMLDependency(
        "h3", "1", head=TagList(tags.title("t"), tags.script("a</script><b")),
        script={"src": "x.js"}, source={"href": "h"}),
    "head empty list": lambda: HTMLDependency("h4", "1", head=TagList()),
    "unicode": lambda: HTMLDependency(
        "ü", "1", source={"href": "p"}, script={"src": "é/☃.js"}, stylesheet={"href": "ß.css"}),
    "version obj": lambda: HTMLDependency("v", "1.0.0rc1", source={"href": "x"},
                                          script={"src": "a.js"}),
    "meta single": lambda: HTMLDependency("m", "1", meta={"name": "n", "content": "c"}),
    "script extra attrs": lambda: HTMLDependency(
        "s", "1", source={"href": "x"},
        script={"src": "a.js", "async": "", "data-x": "y", "integrity": "sha<>"}),
}

opts = list(itertools.product(("lib", None, "", "my/pre fix"), (True, False)))

for name, make in deps.items():
    d = make()
    before = snapshot(d)
    for lib_prefix, incl in opts:
        label = f"[{name}|prefix={lib_prefix!r}|ver={incl}]"
        attempt(label + " source_path_map", lambda: d.source_path_map(lib_prefix=lib_prefix, include_version=incl))
        attempt(label + " as_dict", lambda: d.as_dict(lib_prefix=lib_prefix, include_version=incl))
        attempt(label + " as_dict key order", lambda: [list(x.keys()) for x in d.as_dict(lib_prefix=lib_prefix, include_version=incl)["stylesheet"]])
        attempt(label + " as_html_tags", lambda: str(d.as_html_tags(lib_prefix=lib_prefix, include_version=incl)))
        attempt(label + " as_html_tags types", lambda: [type(x).__name__ + ":" + getattr(x, "name", "") for x in d.as_html_tags(lib_prefix=lib_prefix, include_version=incl)])
    attempt(f"[{name}] defaults map", lambda: d.source_path_map())
    attempt(f"[{name}] defaults dict", lambda: d.as_dict())
    attempt(f"[{name}] str", lambda: str(d))
    attempt(f"[{name}] repr", lambda: repr(d))
    attempt(f"[{name}] json", lambda: d.serialize_to_script_json().get_html_string())
    attempt(f"[{name}] json indent", lambda: str(d.serialize_to_script_json(indent=2)))
    attempt(f"[{name}] json attrs", lambda: dict(d.serialize_to_script_json().attrs))
    show(f"[{name}] unchanged", snapshot(d) == before)
    # results are independent copies of the receiver's data
    dd = d.as_dict()
    show(f"[{name}] script copies", [a is b for a, b in zip(dd["script"], d.script)])
    show(f"[{name}] stylesheet copies", [a is b for a, b in zip(dd["stylesheet"], d.stylesheet)])
    show(f"[{name}] meta shared", dd["meta"] is d.meta)
    for x in dd["script"] + dd["stylesheet"]:
        x["mutated"] = "yes"
    show(f"[{name}] unchanged after mutating result", snapshot(d) == before)
    show(f"[{name}] eq copy", (copy.copy(d) == d, copy.copy(d) is d))
    attempt(f"[{name}] in doc", lambda: HTMLDocument(div("x", d)).render(lib_prefix="L")["html"])

# json render mode
import htmltools as ht

d = deps["head list"]()
ht.html_dependency_render_mode = "json"
attempt("json mode str", lambda: str(div("a", d)))
ht.html_dependency_render_mode = "files"
attempt("files mode str", lambda: str(div("a", d)))

# Error / corner cases after construction-time validation has been bypassed
d = deps["href"]()
d.stylesheet.append({"rel": "x"})  # no href
attempt("missing href as_dict", lambda: d.as_dict())
attempt("missing href as_html_tags", lambda: d.as_html_tags())
d = deps["href"]()
d.script.append({"type": "x"})  # no src
d.stylesheet.append({"rel": "x"})  # no href: stylesheet error must come first
attempt("missing both", lambda: d.as_dict())
d = deps["href"]()
d.script[0]["src"] = 5
attempt("int src", lambda: d.as_dict())
d = deps["href"]()
d.source = {"package": "no_such_pkg_xyz", "subdir": "s"}
attempt("bad package", lambda: d.source_path_map())
d.source = {"package": None, "subdir": "s"}
attempt("package None", lambda: d.source_path_map())
d.source = {"package": "htmltools"}
attempt("no subdir w/ package", lambda: d.source_path_map())
d.source = {}
attempt("empty source", lambda: d.source_path_map())
d.source = {"subdir": "s"}
attempt("int lib_prefix", lambda: d.source_path_map(lib_prefix=5))
d = deps["href multi"]()
d.meta.append({"name": "x", "content": "y", "_add_ws": "bad"})
attempt("bad meta", lambda: d.as_html_tags())
d = deps["href multi"]()
d.script.append({"src": "z.js", "_add_ws": 1})
d.meta.append({"name": "x", "content": "y", "_add_ws": "bad"})
attempt("bad meta and script", lambda: d.as_html_tags())
d = deps["head tag"]()


class OnlyTagify:
    def tagify(self):
        return span("t")


d.head.append(OnlyTagify())
attempt("non-tagified head as_dict", lambda: d.as_dict())
attempt("non-tagified head json", lambda: d.serialize_to_script_json())
attempt("non-tagified head tags", lambda: len(d.as_html_tags()))
d = deps["head tag"]()
del d.all_files
attempt("json missing all_files", lambda: d.serialize_to_script_json())
d = deps["head tag"]()
d.head.append(OnlyTagify())
del d.source
attempt("json missing source and bad head", lambda: d.serialize_to_script_json())
