# Probe for refactoring 4: Tag.__init__ / consolidate_attrs argument splitting.
import collections
import types

from htmltools._core import TagAttrDict

from htmltools import (
    HTML,
    HTMLDependency,
    Tag,
    TagList,
    consolidate_attrs,
    div,
    span,
    tags,
    a,
)


class Rep:
    def _repr_html_(self):
        return "<u>rep</u>"

    def __repr__(self):
        return "Rep()"


class Tgf:
    def tagify(self):
        return span("t")

    def __repr__(self):
        return "Tgf()"


class MyDict(dict):
    pass


def show(label, fn):
    try:
        out = fn()
        print(label, "->", type(out).__name__, repr(out))
    except Exception as e:  # noqa: BLE001
        print(label, "-> EXC", type(e).__name__, str(e))


def describe(t):
    return (
        t.name,
        t.add_ws,
        type(t.attrs).__name__,
        list(t.attrs.items()),
        type(t.children).__name__,
        [(type(c).__name__, repr(c)) for c in t.children],
        sorted(t.__dict__.keys()),
        t.get_html_string(),
        t.get_html_string(2, "\r\n"),
    )


dep = HTMLDependency("d", "1.0")
arg_sets = {
    "none": (),
    "text": ("a",),
    "two text": ("a", "b"),
    "attrs first": ({"id": "x"}, "a"),
    "attrs last": ("a", {"id": "x"}),
    "attrs interleaved": ({"class": "c1"}, "a", {"class": "c2"}, span("s"), {"id": "i", "class": None}),
    "only attrs": ({"id": "x"}, {"title": "t"}),
    "empty dict": ({}, "a", {}),
    "TagAttrDict": (TagAttrDict(id="q", class_="k"), span("s")),
    "dict subclass": (MyDict(data_x="1"), "a"),
    "OrderedDict": (collections.OrderedDict([("b", "2"), ("a", "1")]), "a"),
    "defaultdict": (collections.defaultdict(str, {"z": "9"}), "a"),
    "mappingproxy": (types.MappingProxyType({"id": "x"}), "a"),
    "None child": (None, "a", None),
    "nested": (["a", [span("b"), None, ("c", [div("d")])]], {"id": "n"}),
    "numbers": (1, 2.5, True, "s"),
    "taglist": (TagList("a", span("b")), "c", TagList()),
    "html": (HTML("<b>raw</b>"), "<esc>"),
    "rep tgf dep": (Rep(), Tgf(), dep, "x"),
    "inline+block": (span("a"), div("b"), span("c"), "d"),
    "bad child": ("a", object()),
    "bad child set": ({"a", }, ),
    "bad attr value": ({"id": object()}, "a"),
    "bad attr and bad child": ({"id": []}, object()),
    "dict in list": ([{"id": "x"}], "a"),
    "bool attrs": ({"checked": True, "hidden": False, "n": 3, "f": 1.5}, "a"),
    "attr html value": ({"title": HTML("<&>")}, {"title": "<&>"}, "a"),
    "bytes": (b"abc",),
    "generator": ((x for x in "ab"),),
}
kw_sets = {
    "nokw": {},
    "kw": {"id": "K", "class_": "kc"},
    "kw merge": {"class_": "z", "data_v": 1},
    "kw None": {"id": None},
}

print("==== Tag()")
for an, args in arg_sets.items():
    for kn, kw in kw_sets.items():
        if an == "generator":
            args = ((x for x in "ab"),)
        for ws in (True, False):
            show(f"Tag {an} / {kn} / ws={ws}", lambda: describe(Tag("x-tag", *args, _add_ws=ws, **kw)))

print("==== _add_ws validation")
for ws in (None, 0, 1, "True", [], 1.0):
    show(f"_add_ws={ws!r}", lambda: describe(Tag("t", "a", _add_ws=ws)))
    show(f"_add_ws={ws!r} bad child", lambda: describe(Tag("t", object(), _add_ws=ws)))
    show(f"div _add_ws={ws!r}", lambda: describe(div("a", _add_ws=ws)))
show("default add_ws", lambda: describe(Tag("t", "a")))
show("no name", lambda: Tag())
show("name only", lambda: describe(Tag("n")))
show("name non-str", lambda: Tag(5).name)
show("_name kw", lambda: describe(Tag(_name="nm")))

print("==== tag functions")
for fn in (div, span, a, tags.p, tags.pre, tags.script, tags.br, tags.strong, tags.ul):
    for an in ("none", "text", "attrs interleaved", "inline+block", "nested", "bad child"):
        show(f"{fn.__name__} {an}", lambda: describe(fn(*arg_sets[an], class_="k")))

print("==== independence of inputs")
d_in = {"id": "x"}
kids = [span("a"), "b"]
t = Tag("t", d_in, kids, _add_ws=False)
t.attrs["id"] = "changed"
t.children.append("more")
print(d_in, kids, len(t.children))

print("==== consolidate_attrs")
for an, args in arg_sets.items():
    for kn, kw in kw_sets.items():
        if an == "generator":
            args = ((x for x in "ab"),)

        def run():
            attrs, children = consolidate_attrs(*args, **kw)
            return (
                type(attrs).__name__,
                list(attrs.items()),
                type(children).__name__,
                [(type(c).__name__, repr(c) if not hasattr(c, "__next__") else "<gen>") for c in children],
                [c is o for c, o in zip(children, [x for x in args if not isinstance(x, dict)])],
            )

        show(f"consolidate {an} / {kn}", run)
show("consolidate _add_ws=False", lambda: consolidate_attrs({"id": "a"}, "x", _add_ws=False))
show("consolidate _add_ws=None", lambda: consolidate_attrs({"id": "a"}, "x", _add_ws=None))
show("consolidate empty", lambda: consolidate_attrs())
a1, c1 = consolidate_attrs({"class": "a"}, span("s"), class_="b")
show("roundtrip", lambda: str(div(a1, *c1)))
show("roundtrip inline", lambda: str(span(a1, *c1, "t")))
