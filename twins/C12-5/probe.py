# Standalone probe for property C12 (dependency URLs and copied files agree).
# Prints a deterministic transcript; temp-dir and package-dir prefixes are normalised.
import hashlib
import os
import shutil
import sys
import tempfile

import htmltools
from htmltools import HTMLDependency, HTMLDocument, TagList, div, tags, span
from packaging.version import Version

PKG = os.path.dirname(os.path.realpath(htmltools.__file__))
TMP = os.path.realpath(tempfile.mkdtemp(prefix="c12probe"))


def norm(s):
    s = str(s)
    return s.replace(TMP, "<TMP>").replace(PKG, "<PKG>")


def show(label, fn):
    try:
        r = fn()
        print(label, "->", norm(repr(r)))
    except BaseException as e:  # noqa
        print(label, "!!", type(e).__name__, norm(e))


def tree(root):
    out = []
    if not os.path.lexists(root):
        return ["<absent>"]
    for dp, dns, fns in os.walk(root):
        dns.sort()
        rel = os.path.relpath(dp, root)
        out.append("D " + rel)
        for fn in sorted(fns):
            p = os.path.join(dp, fn)
            kind = "L" if os.path.islink(p) else "F"
            try:
                with open(p, "rb") as fh:
                    h = hashlib.sha1(fh.read()).hexdigest()[:10]
            except OSError as e:
                h = "ERR-" + type(e).__name__
            out.append(f"{kind} {os.path.join(rel, fn)} {h}")
        for dn in dns:
            p = os.path.join(dp, dn)
            if os.path.islink(p):
                out.append("LD " + os.path.join(rel, dn))
    return out


def write(path, data):
    os.makedirs(os.path.dirname(path), exist_ok=True)
    with open(path, "wb") as fh:
        fh.write(data)


# ---------------------------------------------------------------- source trees
SRC = os.path.join(TMP, "src")
write(os.path.join(SRC, "a.js"), b"alert(1)\n")
write(os.path.join(SRC, "sub dir", "b c.css"), b"b{c:d}\n")
write(os.path.join(SRC, "ünï.js"), "// ü\n".encode())
write(os.path.join(SRC, "deep", "nested", "x.txt"), b"\x00\x01\xff")
write(os.path.join(SRC, ".hidden"), b"h")
write(os.path.join(SRC, "q?#%.js"), b"q")
os.makedirs(os.path.join(SRC, "emptydir"))
os.symlink("a.js", os.path.join(SRC, "link.js"))

SRC_BROKEN = os.path.join(TMP, "src_broken")
write(os.path.join(SRC_BROKEN, "ok.js"), b"ok")
os.symlink("nowhere", os.path.join(SRC_BROKEN, "dangling"))

SRC_FIFO = os.path.join(TMP, "src_fifo")
write(os.path.join(SRC_FIFO, "ok.js"), b"ok")
os.mkfifo(os.path.join(SRC_FIFO, "pipe"))

SRC_EMPTY = os.path.join(TMP, "src_empty")
os.makedirs(SRC_EMPTY)

os.chdir(TMP)


def mk():
    d = {}
    d["local"] = HTMLDependency(
        "loc", "1.2.3", source={"subdir": SRC},
        script=[{"src": "a.js"}, {"src": "ünï.js", "defer": ""}, {"src": "q?#%.js"}],
        stylesheet={"href": "sub dir/b c.css"},
        meta={"name": "m", "content": "c"}, head="<x-head/>",
    )
    d["local_rel"] = HTMLDependency(
        "rel dep", Version("2.0"), source={"subdir": "src"},
        script={"src": "deep/nested/x.txt"},
        stylesheet=[{"href": "a.js", "rel": "preload", "media": "print"}],
    )
    d["pkg"] = HTMLDependency(
        "testdep", "1.0", source={"package": "htmltools", "subdir": "libtest/testdep"},
        script={"src": "testdep.js"}, stylesheet={"href": "testdep.css"},
    )
    d["pkg_none"] = HTMLDependency(
        "pn", "0.1", source={"package": None, "subdir": SRC}, script={"src": "a.js"},
    )
    d["pkg_all"] = HTMLDependency(
        "dep2", "3", source={"package": "htmltools", "subdir": "libtest/dep2"}, all_files=True,
    )
    d["url"] = HTMLDependency(
        "u", "9.9", source={"href": "https://cdn.example.com/u 9/"},
        script={"src": "u.min.js"}, stylesheet={"href": "css/u v.css"},
    )
    d["url_and_subdir"] = HTMLDependency(
        "us", "1", source={"href": "//h/p", "subdir": SRC}, script={"src": "a.js"}, all_files=True,
    )
    d["nosrc"] = HTMLDependency("ns", "1.0", script={"src": "n.js"}, head=tags.title("t"))
    d["nosrc_all"] = HTMLDependency("nsa", "1.0", all_files=True)
    d["all"] = HTMLDependency("everything", "1.0.0rc1", source={"subdir": SRC}, all_files=True,
                              script={"src": "not-there-but-all-files.js"})
    d["all_empty"] = HTMLDependency("ae", "1", source={"subdir": SRC_EMPTY}, all_files=True)
    d["all_broken"] = HTMLDependency("ab", "1", source={"subdir": SRC_BROKEN}, all_files=True)
    d["all_fifo"] = HTMLDependency("af", "1", source={"subdir": SRC_FIFO}, all_files=True)
    d["listed_fifo"] = HTMLDependency("lf", "1", source={"subdir": SRC_FIFO},
                                      script=[{"src": "pipe"}, {"src": "ok.js"}])
    d["missing"] = HTMLDependency(
        "miss", "4.5", source={"subdir": SRC},
        script=[{"src": "a.js"}, {"src": "nope.js"}], stylesheet={"href": "also-nope.css"},
    )
    d["missing_css"] = HTMLDependency(
        "missc", "4.5", source={"subdir": SRC}, script=[{"src": "a.js"}],
        stylesheet={"href": "sub dir/zzz.css"},
    )
    d["dir_entry"] = HTMLDependency(
        "de", "1", source={"subdir": SRC}, script=[{"src": "deep"}, {"src": "link.js"}],
    )
    d["dup"] = HTMLDependency(
        "dup", "1", source={"subdir": SRC}, script=[{"src": "a.js"}, {"src": "a.js"}],
        stylesheet={"href": "a.js"},
    )
    d["nofiles"] = HTMLDependency("nf", "1", source={"subdir": SRC})
    d["missing_srcdir"] = HTMLDependency("msd", "1", source={"subdir": os.path.join(TMP, "no_such")})
    d["missing_srcdir_all"] = HTMLDependency(
        "msda", "1", source={"subdir": os.path.join(TMP, "no_such")}, all_files=True)
    d["badpkg"] = HTMLDependency("bp", "1", source={"package": "no_such_pkg_xyz", "subdir": "s"},
                                 script={"src": "a.js"})
    d["int_src"] = HTMLDependency("isrc", "1", source={"subdir": SRC}, script=[{"src": "a.js"}, {"src": 5}])
    d["int_src_missing_first"] = HTMLDependency(
        "isrc2", "1", source={"subdir": SRC}, script=[{"src": "nope.js"}, {"src": 5}])
    d["int_name"] = HTMLDependency(7, "1", source={"subdir": SRC}, script={"src": "a.js"})
    d["abs_entry"] = HTMLDependency("abse", "1", source={"subdir": SRC},
                                    script={"src": os.path.join(SRC, "a.js")})
    d["dotdot"] = HTMLDependency("dd", "1", source={"subdir": os.path.join(SRC, "deep")},
                                 script={"src": "../a.js"})
    d["weird_name"] = HTMLDependency("w/e iérd", "1.0.post2", source={"subdir": SRC},
                                     script={"src": "a.js"})
    d["empty_name"] = HTMLDependency("", "1", source={"subdir": SRC}, script={"src": "a.js"})
    return d


DEPS = mk()
PREFIXES = [None, "", "lib", "my lib/x", "/abs", "a/", "../up"]

print("== source_path_map / as_dict / as_html_tags")
for key, dep in DEPS.items():
    show(f"{key} spm default", lambda: dep.source_path_map())
    show(f"{key} as_dict default", lambda: dep.as_dict())
    show(f"{key} str", lambda: str(dep))
    for p in PREFIXES:
        for iv in (True, False):
            show(f"{key} spm {p!r} {iv}", lambda: dep.source_path_map(lib_prefix=p, include_version=iv))
            show(f"{key} as_dict {p!r} {iv}", lambda: dep.as_dict(lib_prefix=p, include_version=iv))
            show(f"{key} tags {p!r} {iv}",
                 lambda: str(dep.as_html_tags(lib_prefix=p, include_version=iv)))
    # as_dict must not mutate the dependency
    show(f"{key} script/stylesheet after", lambda: (dep.script, dep.stylesheet, dep.meta))

print("== truthy non-bool include_version / lib_prefix")
for iv in (0, 1, "", "x", None, []):
    show(f"iv={iv!r}", lambda: DEPS["local"].source_path_map(include_version=iv))
    show(f"iv={iv!r} dict", lambda: DEPS["local"].as_dict(include_version=iv)["script"])

print("== source validation")
show("src not dict", lambda: HTMLDependency("a", "1", source="x"))
show("src no keys", lambda: HTMLDependency("a", "1", source={}))
show("src pkg only", lambda: HTMLDependency("a", "1", source={"package": "htmltools"}))

print("== copy_to")
n = 0
for key, dep in DEPS.items():
    for iv in (True, False):
        for mode in ("fresh", "stale", "relative", "nonexistent-parent"):
            n += 1
            base = os.path.join(TMP, f"out{n}")
            if mode == "nonexistent-parent":
                dest = os.path.join(base, "p", "q")
            else:
                os.makedirs(base)
                dest = base
            if mode == "stale":
                # pre-populate every candidate target dir with stale content
                for nm in {str(dep.name), f"{dep.name}-{dep.version}"}:
                    if nm:
                        write(os.path.join(base, nm, "stale.txt"), b"stale")
                        write(os.path.join(base, nm, "a.js"), b"old")
                        write(os.path.join(base, nm, "deep", "old.txt"), b"old")
                write(os.path.join(base, "unrelated.txt"), b"keep")
            if mode == "relative":
                dest = os.path.relpath(base, TMP)
            show(f"{key} iv={iv} {mode} copy_to", lambda: dep.copy_to(dest, include_version=iv))
            for line in tree(base):
                print("   ", line)
show("copy_to default include_version", lambda: DEPS["local"].copy_to(os.path.join(TMP, "dflt")))
for line in tree(os.path.join(TMP, "dflt")):
    print("   ", line)
# target is a file, not a dir
write(os.path.join(TMP, "tf", "loc-1.2.3"), b"i am a file")
show("target is file", lambda: DEPS["local"].copy_to(os.path.join(TMP, "tf")))
for line in tree(os.path.join(TMP, "tf")):
    print("   ", line)
# target is a symlink to a dir
os.makedirs(os.path.join(TMP, "tl", "real"))
write(os.path.join(TMP, "tl", "real", "stale.txt"), b"s")
os.symlink("real", os.path.join(TMP, "tl", "loc-1.2.3"))
show("target is symlink", lambda: DEPS["local"].copy_to(os.path.join(TMP, "tl")))
for line in tree(os.path.join(TMP, "tl")):
    print("   ", line)
show("copy_to path int", lambda: DEPS["local"].copy_to(5))
show("copy_to path int url", lambda: DEPS["url"].copy_to(5))

print("== save_html")


def ui(*keys):
    return div("hello", [DEPS[k] for k in keys], span("x", DEPS[keys[0]]) if keys else None)


GROUPS = [
    (),
    ("local",),
    ("local", "pkg", "url", "nosrc", "all", "local_rel"),
    ("url", "nosrc", "nosrc_all", "url_and_subdir"),
    ("pkg_all", "dir_entry", "weird_name", "dup"),
    ("local", "missing", "pkg"),
    ("missing",),
    ("all_broken",),
    ("all_fifo", "listed_fifo"),
]
m = 0
for keys in GROUPS:
    for libdir in ("lib", None, "", "x y/z", "../outside"):
        for iv in (True, False):
            for kind in ("doc", "tag", "list", "doc_html", "doc_body"):
                m += 1
                base = os.path.join(TMP, f"save{m}", "site")
                os.makedirs(base)
                write(os.path.join(base, libdir or "", "loc-1.2.3", "stale.txt"), b"stale")
                write(os.path.join(base, libdir or "", "miss-4.5", "stale.txt"), b"stale")
                write(os.path.join(base, libdir or "", "miss", "stale.txt"), b"stale")
                f = os.path.join(base, "index.html")
                if kind == "doc":
                    obj = HTMLDocument(ui(*keys), lang="en")
                elif kind == "tag":
                    obj = ui(*keys)
                elif kind == "list":
                    obj = TagList(ui(*keys), "text", ui(*keys))
                elif kind == "doc_html":
                    obj = HTMLDocument(tags.html(tags.head(tags.title("T")), tags.body(ui(*keys))))
                else:
                    obj = HTMLDocument(tags.body(ui(*keys), class_="b"))
                label = f"{keys} libdir={libdir!r} iv={iv} {kind}"
                if kind == "doc":
                    show(label, lambda: obj.save_html(f, libdir, iv))
                else:
                    show(label, lambda: obj.save_html(f, libdir=libdir, include_version=iv))
                if os.path.exists(f):
                    with open(f) as fh:
                        print(norm(fh.read()))
                for line in tree(os.path.dirname(base)):
                    print("   ", line)

# defaults, relative file names, return values
os.makedirs(os.path.join(TMP, "rel"))
os.chdir(os.path.join(TMP, "rel"))
show("rel doc", lambda: HTMLDocument(ui("local")).save_html("r.html"))
show("rel tag", lambda: ui("pkg").save_html("t.html"))
show("rel list", lambda: TagList(ui("all")).save_html("./l.html"))
show("rel sub missing dir", lambda: ui("local").save_html("nodir/t.html"))
show("file not str", lambda: ui("local").save_html(5))
show("file pathlike", lambda: ui("local").save_html(__import__("pathlib").Path("pl.html")))
show("tag positional libdir", lambda: ui("local").save_html("t2.html", "lib"))
show("list positional libdir", lambda: TagList(ui("local")).save_html("t2.html", "lib"))
show("doc kw", lambda: HTMLDocument(ui("local")).save_html(file="k.html", libdir="kk", include_version=False))
for line in tree(os.path.join(TMP, "rel")):
    print("   ", line)
for nm in ("r.html", "t.html", "l.html", "k.html", "pl.html"):
    if os.path.exists(nm):
        with open(nm) as fh:
            print(norm(fh.read()))

print("== render with prefixes")
for p in PREFIXES:
    for iv in (True, False):
        show(f"render {p!r} {iv}", lambda: HTMLDocument(ui("local", "url", "pkg", "nosrc")).render(
            lib_prefix=p, include_version=iv))

os.chdir("/")
shutil.rmtree(TMP, ignore_errors=True)
print("done")
