import os
import subprocess
import sys

from packaging.version import Version

from htmltools import HTMLDependency, HTMLDocument, TagList, div, head_content, span, tags
from htmltools._core import _resolve_dependencies


def show(label, fn):
    try:
        out = fn()
        print(label, "->", repr(out))
    except Exception as e:  # noqa: BLE001
        print(label, "-> EXC", type(e).__name__, str(e)[:120])


def dep(name, version, **kw):
    return HTMLDependency(name, version, **kw)


def ids(deps):
    return [(d.name, str(d.version), d.script, id_tag.get(id(d))) for d in deps]


id_tag = {}


def tagged(tag, d):
    id_tag[id(d)] = tag
    return d


def child():
    a1 = tagged("a1", dep("a", "1.0", script={"src": "a1.js"}))
    a2 = tagged("a2", dep("a", "2.0", script={"src": "a2.js"}))
    a2b = tagged("a2b", dep("a", "2.0", script={"src": "a2b.js"}))
    a05 = tagged("a05", dep("a", "0.5"))
    b1 = tagged("b1", dep("b", "1.0"))
    c1 = tagged("c1", dep("c", "1.0.0"))
    c1b = tagged("c1b", dep("c", "1.0"))  # equal as Version, different string
    e = tagged("empty", dep("", "0"))

    show("empty", lambda: _resolve_dependencies([]))
    show("single", lambda: ids(_resolve_dependencies([a1])))
    show("upgrade", lambda: ids(_resolve_dependencies([a1, b1, a2])))
    show("downgrade", lambda: ids(_resolve_dependencies([a2, b1, a1])))
    show("equal-first-wins", lambda: ids(_resolve_dependencies([a2, a2b])))
    show("equal-first-wins-rev", lambda: ids(_resolve_dependencies([a2b, a2])))
    show("equal-version-strings", lambda: ids(_resolve_dependencies([c1, c1b])))
    show("equal-version-strings-rev", lambda: ids(_resolve_dependencies([c1b, c1])))
    show(
        "many",
        lambda: ids(_resolve_dependencies([b1, a05, c1, a1, e, a2, a2b, a05, b1, c1b, e])),
    )
    show("same-object-twice", lambda: ids(_resolve_dependencies([a1, a1, a1])))
    show("tuple-input", lambda: ids(_resolve_dependencies((b1, a1))))
    show("generator-input", lambda: ids(_resolve_dependencies(d for d in [a1, a2, b1])))

    # Corner cases on attribute types
    weird = dep("w", "1.0")
    weird.name = ["unhashable"]
    show("unhashable-name", lambda: _resolve_dependencies([weird]))
    show("unhashable-name-second", lambda: _resolve_dependencies([a1, weird]))
    strver = dep("a", "3.0")
    strver.version = "3.0"
    show("mixed-version-types", lambda: ids(_resolve_dependencies([a1, strver])))
    show("mixed-version-types-alone", lambda: ids(_resolve_dependencies([strver])))
    show("not-a-dep", lambda: _resolve_dependencies([a1, None]))
    show("not-a-dep-first", lambda: _resolve_dependencies([None]))
    nonename = dep("n", "1.0")
    nonename.name = None
    nonename2 = dep("n", "2.0")
    nonename2.name = None
    show(
        "none-name",
        lambda: [(d.name, str(d.version)) for d in _resolve_dependencies([nonename, nonename2, a1])],
    )
    tupname = dep("t", "1.0")
    tupname.name = ("t", 1)
    show("tuple-name", lambda: [d.name for d in _resolve_dependencies([tupname, a1, tupname])])

    # Through the public API
    hc1 = head_content(tags.title("T"))
    hc2 = head_content(tags.title("T"))
    hc3 = head_content(tags.title("U"))
    tree = div(a1, span(b1, hc1, a2), hc2, TagList(hc3, a05), c1)
    show("get_dependencies", lambda: ids(tree.get_dependencies()))
    show("get_dependencies-nodedup", lambda: ids(tree.get_dependencies(dedup=False)))
    show("taglist-deps", lambda: ids(TagList(tree, a2b, tree).get_dependencies()))
    show("render-deps", lambda: ids(tree.render()["dependencies"]))
    show("doc", lambda: HTMLDocument(tree).render()["html"])
    show("doc-again", lambda: HTMLDocument(tree).render()["html"])
    show("names", lambda: [hc1.name, hc2.name, hc3.name, head_content().name])
    show("version-type", lambda: [type(a1.version) is Version, str(hc1.version)])


if __name__ == "__main__":
    if len(sys.argv) > 1 and sys.argv[1] == "child":
        child()
    else:
        outs = []
        for seed in ["0", "1", "4242", "random"]:
            env = dict(os.environ, PYTHONHASHSEED=seed)
            r = subprocess.run(
                [sys.executable, os.path.abspath(__file__), "child"],
                env=env,
                capture_output=True,
                text=True,
                timeout=50,
            )
            outs.append(r.stdout + r.stderr)
        print("all seeds identical:", all(o == outs[0] for o in outs))
        print(outs[0])
