import os
import tempfile
from htmltools import (HTML, HTMLDependency, HTMLDocument, HTMLTextDocument, Tag, TagList,
                       div, span, head_content, tags)
from htmltools._jsx import jsx_tag_create
import htmltools

ROOT = os.path.dirname(os.path.dirname(htmltools.__file__))


def norm(s):
    return s.replace(ROOT, "<ROOT>")


def show(label, fn):
    try:
        print(label, "=>", norm(repr(fn())))
    except Exception as e:  # noqa
        print(label, "=> EXC", type(e).__name__, norm(str(e)))


def snapshot(dep):
    return norm(repr((dep.name, str(dep.version), dep.source, dep.script, dep.stylesheet, dep.meta,
                      dep.all_files, None if dep.head is None else str(dep.head))))


url = HTMLDependency("u", "1.2.3", source={"href": "https://cdn.x/u"},
                     script=[{"src": "u.js", "defer": ""}, {"src": "sub dir/v.js"}],
                     stylesheet={"href": "u.css", "media": "print"},
                     meta={"name": "viewport", "content": "w"}, head=tags.link(rel="icon", href="i.png"))
nosrc = HTMLDependency("n", "0.1", head="<!-- raw head -->")
pkg = HTMLDependency("react", "17.0.2", source={"package": "htmltools", "subdir": "lib/react"},
                     script={"src": "react.production.min.js"})
older = HTMLDependency("u", "1.0", source={"href": "https://old/u"}, script={"src": "old.js"})
hc = head_content(tags.title("Title"), tags.style("a{}"))
alldeps = [url, nosrc, pkg, older, hc]
snaps = [snapshot(d) for d in alldeps]

variants = [dict(), dict(lib_prefix=None), dict(include_version=False), dict(lib_prefix="my/libs", include_version=False), dict(lib_prefix="")]

docs = {
    "nodeps": HTMLDocument(div("x")),
    "one": HTMLDocument(div("x", url)),
    "many": HTMLDocument(div("x", url, span(nosrc, pkg)), older, hc, lang="en"),
    "html_given": HTMLDocument(tags.html(pkg, tags.head(tags.title("t"), hc), tags.body("b", url))),
    "html_nohead": HTMLDocument(tags.html(tags.body(nosrc, older))),
    "jsx": HTMLDocument(jsx_tag_create("Foo")(div("c"), url, a=1)),
}
for k, d in docs.items():
    for v in variants:
        r = d.render(**v)
        r_again = d.render(**v)
        print("==", k, v, r == r_again)
        print(norm(r["html"]))
        print(r["dependencies"])

for d, s in zip(alldeps, snaps):
    print(snapshot(d) == s)

# HTMLTextDocument
tmpl = "<html><head>{{DEPS}}</head><body>{{DEPS}}</body></html>"
for deps in ([], [url], [url, nosrc, pkg, older, hc]):
    for v in variants:
        td = HTMLTextDocument(tmpl, deps=list(deps), deps_replace_pattern="{{DEPS}}")
        r = td.render(**v)
        print("== text", len(deps), v, r == td.render(**v), [a is b for a, b in zip(r["dependencies"], deps)])
        print(norm(r["html"]))
        print(r["dependencies"])

ser = str(url.serialize_to_script_json()) + str(nosrc.serialize_to_script_json(indent=2)) + str(url.serialize_to_script_json())
td = HTMLTextDocument("<html><head><!--D--></head><body>" + ser + "<p>x</p></body></html>", deps=[pkg], deps_replace_pattern="<!--D-->")
r = td.render()
print(norm(r["html"]))
print(r["dependencies"], r == td.render())
td2 = HTMLTextDocument("<html>no deps here</html>")
show("text no pattern", lambda: td2.render())
td3 = HTMLTextDocument("<html>" + ser + "</html>")
show("text no pattern with body deps", lambda: td3.render())
show("text deps w/o pattern", lambda: HTMLTextDocument("<html/>", deps=[url]))
td4 = HTMLTextDocument("A|B|A", deps=[nosrc], deps_replace_pattern="A")
show("first only", lambda: td4.render()["html"])

# error paths inside the helpers
badname = HTMLDependency(5, "1.0")
show("doc non-str name", lambda: HTMLDocument(div(badname)).render())
show("text non-str name", lambda: HTMLTextDocument("X", deps=[badname], deps_replace_pattern="X").render())
badpkg = HTMLDependency("bp", "1.0", source={"package": "no_such_pkg_xyz", "subdir": "s"}, script={"src": "a.js"})
show("doc bad pkg", lambda: HTMLDocument(div(url, badpkg)).render())
show("text bad pkg", lambda: HTMLTextDocument("X", deps=[url, badpkg], deps_replace_pattern="X").render())
t = div(url, badpkg)
before = str(t)
show("tag render ok w/ bad pkg", lambda: t.render())
print(str(t) == before)

# save_html
with tempfile.TemporaryDirectory() as tmp:
    f = os.path.join(tmp, "out", "index.html")
    os.makedirs(os.path.dirname(f))
    for k in ("many", "html_given"):
        for kw in (dict(), dict(libdir=None), dict(libdir="deps", include_version=False)):
            ret = docs[k].save_html(f, **kw)
            print(k, kw, ret == f)
            print(norm(open(f).read()))
            listing = sorted(os.path.relpath(os.path.join(dp, fn), tmp) for dp, _, fns in os.walk(tmp) for fn in fns)
            print(listing)
    ret = div("q", pkg).save_html(f)
    print(open(f).read())
    ret = TagList("q", pkg, url).save_html(f, libdir="L", include_version=False)
    print(open(f).read())
for d, s in zip(alldeps, snaps):
    print(snapshot(d) == s)
