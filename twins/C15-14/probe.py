# Probe for refactoring 4: Tag.add_class / Tag.add_style share one merge helper.
import itertools

from htmltools import HTML, Tag, TagList, div, span, tags


def show(label, fn):
    try:
        out = fn()
        print(label, "->", repr(out))
    except Exception as e:  # noqa: BLE001
        print(label, "-> EXC", type(e).__name__, str(e))


def lab(v):
    return repr(v) if type(v) is not object else "<object>"


def info(t):
    return ([(k, type(v).__name__, str(v)) for k, v in t.attrs.items()], str(t))


class S(str):
    pass


class Truthy:
    def __init__(self, v):
        self.v = v

    def __bool__(self):
        print("   __bool__ called")
        return self.v


STARTS = [
    lambda: div(),
    lambda: div(class_="a", style="x:1;"),
    lambda: div(id="first", class_="a b", title="t", style=HTML("x:'1';")),
    lambda: div(class_=HTML("h&"), style="p:<;"),
    lambda: div(class_="", style=""),
    lambda: div({"class": "a"}, {"class": "b"}, style=True),
    lambda: span("kid", class_=True),
]
CLASSES = ["c", "c d", "", " ", "<c&\"'>", S("sub"), HTML("raw<"), HTML(""), None, False, True, 3, 2.5, [1], object()]
STYLES = ["y:2;", ";", "y:2", "", "a:'<';", S("s:1;"), HTML("h:\"&\";"), HTML("nosemi"), HTML(";"), None, False, True, 3, 2.5, [1]]
PREPENDS = [False, True]

for (i, mk), c, p in itertools.product(enumerate(STARTS), CLASSES, PREPENDS):
    def run():
        t = mk()
        r = t.add_class(c, prepend=p)
        return (r is t, info(t))

    show(f"add_class start{i} {lab(c)} prepend={p}", run)

for (i, mk), s, p in itertools.product(enumerate(STARTS), STYLES, PREPENDS):
    def run():
        t = mk()
        r = t.add_style(s, prepend=p)
        return (r is t, info(t))

    show(f"add_style start{i} {lab(s)} prepend={p}", run)

# failure must leave the tag untouched
t = div(class_="keep", style="k:1;")
show("bad class", lambda: t.add_class([1]))
show("bad class prepend", lambda: t.add_class(object(), prepend=True))
show("bad style", lambda: t.add_style("nosemi"))
show("bad style type", lambda: t.add_style(3.5, prepend=True))
print(info(t))

# chaining, ordering of attributes by first appearance, interplay with the other class helpers
t = tags.a("txt", href="h")
t.add_class("x").add_style("a:1;").add_class("y", prepend=True).add_style("b:2;", prepend=True).add_class("z")
print(info(t), t.has_class("x"), t.has_class("y"), t.has_class("w"))
t.remove_class("x").add_class("x", prepend=True).remove_class("y").remove_class("z").remove_class("x")
print(info(t))
t.add_class("again")
print(info(t))
t.attrs["class"] = "replaced"
t.attrs.update(style="r:0;")
t.add_class("more").add_style("m:1;")
print(info(t))

# odd `prepend` values: truthiness is evaluated exactly once
show("prepend truthy obj", lambda: info(div(class_="a").add_class("b", prepend=Truthy(True))))
show("prepend falsy obj", lambda: info(div(class_="a").add_class("b", prepend=Truthy(False))))
show("style prepend truthy obj", lambda: info(div(style="a:1;").add_style("b:2;", prepend=Truthy(True))))
show("prepend positional", lambda: div().add_class("b", True))
show("prepend 0", lambda: info(div(class_="a").add_class("b", prepend=0)))
show("prepend 'x'", lambda: info(div(class_="a").add_class("b", prepend="x")))

# tag whose .attrs was swapped for a plain dict (unsupported, but behaviour should not move)
t = div(class_="a")
t.attrs = {"class": "a"}
show("plain dict attrs add_class", lambda: t.add_class("b"))
show("plain dict attrs add_style", lambda: t.add_style("b:1;", prepend=True))
print(t.attrs)

# copies are independent
from copy import copy

t = div(class_="a")
u = copy(t)
u.add_class("b")
t.add_style("s:1;")
print(info(t), info(u))
print(hasattr(TagList(), "add_class"))
