"""Probe for refactoring 5: every tag function of htmltools.tags / htmltools.svg (and the
top-level shortcuts) now goes through a per-module helper that receives the element name,
args, kwargs and the _add_ws value."""
import inspect

import htmltools
from htmltools import HTML, Tag, TagList, span, svg, tags


def show(label, fn):
    try:
        res = fn()
    except Exception as e:  # noqa: BLE001
        print(label, "->", "EXC", type(e).__name__, str(e))
    else:
        print(label, "->", repr(res))


def desc(t):
    return (
        type(t) is Tag, t.name, t.add_ws,
        [(k, type(v).__name__, str(v)) for k, v in t.attrs.items()],
        [(type(c).__name__, str(c)) for c in t.children],
        str(t),
    )


fns = []
for mod in (tags, svg):
    for nm in sorted(vars(mod)):
        f = getattr(mod, nm)
        if inspect.isfunction(f) and f.__module__ == mod.__name__ and not nm.startswith("_"):
            fns.append((mod.__name__.split(".")[-1] + "." + nm, nm, f))
for nm in tags.__all__:
    fns.append(("top." + nm, nm, getattr(htmltools, nm)))
print("n functions", len(fns))
print("top-level are tags'", all(getattr(htmltools, nm) is getattr(tags, nm) for nm in tags.__all__))
print("all", tags.__all__, hasattr(svg, "__all__"))

for label, nm, f in fns:
    sig = inspect.signature(f)
    print(label, f.__name__, str(sig))
    show(label + " empty", lambda: desc(f()))
    show(label + " default", lambda: desc(f("c", {"id": "i", "class": "a"}, ["d", None, 1], span("e"), class_="b", data_x=2.5)))
    show(label + " ws=True", lambda: desc(f("c", span("e"), _add_ws=True)))
    show(label + " ws=False", lambda: desc(f("c", span("e"), _add_ws=False)))
    show(label + " ws via **", lambda: desc(f("c", **{"_add_ws": not sig.parameters["_add_ws"].default, "k": "v"})))
    for bad in (None, 1, 0, "False", 1.0, [], HTML("x")):
        show(label + f" bad ws {bad!r}", lambda: f("c", _add_ws=bad))
    # attribute names that collide with names used inside the implementation
    show(label + " tricky kw", lambda: desc(f(args="1", kwargs="2", add_ws="3", name="4", self="5", cls="6", x="7")))
    show(label + " tricky kw 2", lambda: desc(f({"kwargs": "0"}, args="1", kwargs="2", add_ws="3", name="4", cls="6", x="7", _add_ws_="8")))
    show(label + " _name kw", lambda: f("c", _name="other"))
    show(label + " _name + bad ws", lambda: f(_name="other", _add_ws=None))
    show(label + " bad child", lambda: f("ok", object()))
    show(label + " bad attr", lambda: f("ok", {"a": object()}))
    show(label + " bad ws + bad child", lambda: f(object(), _add_ws="no"))
    # the element is a fresh, independent Tag each time
    t1, t2 = f("x", id="a"), f("x", id="a")
    t1.append("y")
    print(label, "fresh", t1 is t2, t1 == t2, len(t2.children), t1.children is t2.children, t1.attrs is t2.attrs)

# nesting and rendering of inline/block mix
doc = tags.html(
    tags.head(tags.title("T"), tags.meta(charset="utf-8"), tags.script("a<b"), tags.style("p>q{}")),
    tags.body(
        tags.div(tags.p("x", tags.b("bold"), tags.i("it"), " y"), tags.ul(tags.li("1"), tags.li(tags.a("l", href="#")))),
        svg.svg(svg.g(svg.circle(r=1), svg.text("t", svg.tspan("u")), svg.a(svg.path(d="M0")))),
        tags.pre(tags.code("c\n  d")), tags.br(), tags.hr(), tags.img(src="s"), tags.input(type="text"),
    ),
    lang="en",
)
print(str(doc))
print(TagList(tags.span("a"), tags.span("b"), tags.div("c"), tags.em("d"), "txt", svg.set(), svg.filter(), tags.map(), tags.object()))
