# Probe for TagAttrDict.update / __setitem__ / __init__ and their use by add_class / add_style
from collections import OrderedDict
from types import MappingProxyType

from htmltools import HTML, css, div, span, tags
from htmltools._core import TagAttrDict


def st(d):
    return "%r types=%r" % (list(d.items()), [type(v).__name__ for v in d.values()])


def run(label, fn, d=None):
    try:
        r = fn()
        print(label, "->", type(r).__name__, repr(r) if d is None else st(d))
    except Exception as e:  # noqa: BLE001
        print(label, "-> EXC", type(e).__name__, str(e), "" if d is None else "| " + st(d))


class S(str):
    pass


class ItemsOnly:
    def items(self):
        return [("class", "io1"), ("class_", HTML("io2")), ("data_x", 1)]


# construction
ctor_cases = [
    ("empty", lambda: TagAttrDict()),
    ("kw only", lambda: TagAttrDict(class_="a", id="b", data_foo_bar="c", for_="x", _x="y", __="z")),
    ("dict only", lambda: TagAttrDict({"class": "a", "class_": "b", "_class": "c"})),
    ("dict+kw", lambda: TagAttrDict({"class": "a"}, {"class": "b", "id": "i"}, class_="c", id_="j")),
    ("skip", lambda: TagAttrDict({"a": None, "b": False, "c": True, "d": 0, "e": 0.5, "f": ""}, a=None, b="B")),
    ("html mix 1", lambda: TagAttrDict({"class": "<a&\"'>"}, {"class": HTML("<b&\"'>")})),
    ("html mix 2", lambda: TagAttrDict({"class": HTML("<b&\"'>")}, {"class": "<a&\"'>"})),
    ("html mix 3", lambda: TagAttrDict({"class": HTML("<b>")}, {"class": HTML("<c>")}, class_="<d>")),
    ("html mix 4", lambda: TagAttrDict({"class": "<a>"}, {"class": "<b>"}, class_=HTML("<c>"))),
    ("three plain", lambda: TagAttrDict({"x": "1"}, {"x": 2}, {"x": True}, x=3.5)),
    ("bad value", lambda: TagAttrDict({"ok": "1", "bad": [1]})),
    ("bad value kw", lambda: TagAttrDict({"ok": "1"}, bad=object)),
    ("bad key", lambda: TagAttrDict({1: "x"})),
    ("bad key none value", lambda: TagAttrDict({1: None})),
    ("not mapping", lambda: TagAttrDict([("a", "b")])),
    ("not mapping 2", lambda: TagAttrDict({"a": "1"}, "str")),
    ("none arg", lambda: TagAttrDict(None)),
    ("items only", lambda: TagAttrDict(ItemsOnly(), class_="kw")),
    ("ordered", lambda: TagAttrDict(OrderedDict([("z", 1), ("a", 2)]), MappingProxyType({"z": 3}))),
    ("tagattrdict arg", lambda: TagAttrDict(TagAttrDict(class_="x"), TagAttrDict(class_=HTML("y")))),
    ("str subclass", lambda: TagAttrDict({S("k_k_"): S("v")}, **{S("k_k"): S("w")})),
    ("empty strings", lambda: TagAttrDict({"c": ""}, {"c": ""}, c=HTML(""))),
    ("name collisions", lambda: TagAttrDict({"a_b": "1", "a-b": "2", "a_b_": "3", "a-b_": "4"})),
]
for label, fn in ctor_cases:
    try:
        d = fn()
        print("ctor", label, "->", st(d))
    except Exception as e:  # noqa: BLE001
        print("ctor", label, "-> EXC", type(e).__name__, str(e))

# update on an existing dict: replaces (does not merge with) stored values, keeps key position
d = TagAttrDict(id="i", class_="old", style="s:1;")
run("update returns", lambda: d.update({"class": "n1"}, {"class": "n2"}, title="t"), d)
run("update empty", lambda: d.update(), d)
run("update empty dicts", lambda: d.update({}, {}), d)
run("update None values", lambda: d.update({"class": None}, class_=False), d)
run("update raises midway", lambda: d.update({"id": "changed"}, {"zz": [1]}), d)
run("update raises in kwargs", lambda: d.update({"id": "changed"}, zz={1}), d)
run("update non-mapping", lambda: d.update({"id": "changed"}, 5), d)
run("update html", lambda: d.update({"class": "p&q"}, {"class": HTML("r&s")}, {"class": "t&u"}), d)
run("update kwarg named args", lambda: d.update(args="1", kwargs="2", arg="3", k="4", v="5", attrz="6"), d)
run("update kwarg self", lambda: d.update(self="1"), d)

# __setitem__
d = TagAttrDict(a="1")
for k, v in [("b_c", "x"), ("a", None), ("a", False), ("a", True), ("n", 5), ("h", HTML("<i>")), ("bad", [1]),
             (3, "x"), (3, None), ("d_", 1.25), ("a", "replaced")]:
    def setit(k=k, v=v):
        d[k] = v
    run("setitem %r=%r" % (k, v), setit, d)

# through the Tag helpers
def tstate(t):
    return "%s | %s" % (st(t.attrs), str(t))


t = div({"class": "c0", "style": "s:0;"}, class_="c1", style="s:1;")
print(tstate(t))
for cls, pre in [("c2", False), ("c3", True), (HTML("<c4>"), False), ("<c5>", True), ("", False), (None, True)]:
    print("add_class", repr(cls), pre, t.add_class(cls, prepend=pre) is t, tstate(t))
for sty, pre in [("s:2;", False), ("s:3;", True), (HTML("s:'4';"), False), ("s:\"5\";", True), (css(sX=6), False)]:
    print("add_style", repr(sty), pre, t.add_style(sty, prepend=pre) is t, tstate(t))
run("add_style bad", lambda: t.add_style("nosemi"))
run("add_class bad type", lambda: t.add_class(["x"]))
print(tstate(t))
t.remove_class("c1").remove_class("<c4>")
print(tstate(t), t.has_class("c0"), t.has_class("c1"))

t = span()
print(t.add_class("only") is t, t.add_style("o:1;", prepend=True) is t, tstate(t))
t = tags.a(href="#", class_=HTML("h"))
print(t.add_class("p", prepend=True) is t, tstate(t))

# Tag constructor goes through the same merge
print(str(div({"class": "x", "data_a": 1}, {"class": HTML("<y>")}, class_="z&", data_a=2)))
print(str(div(class_=None, id=False, hidden=True)))
