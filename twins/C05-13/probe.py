# Probe for refactoring 3: HTMLDocument / HTMLTextDocument (head hoisting, dependency
# tags, html/body/fragment selection).
import contextlib
import os
import shutil
import tempfile

from htmltools import (
    HTML,
    HTMLDependency,
    HTMLDocument,
    HTMLTextDocument,
    Tag,
    TagList,
    div,
    head_content,
    span,
    tags,
    strong,
)


class Tgf:
    def __init__(self, out):
        self.out = out

    def tagify(self):
        return self.out


class Rep:
    def _repr_html_(self):
        return "<u>rep</u>"


def show(label, fn):
    try:
        out = fn()
        print(label, "->", type(out).__name__, repr(out))
    except Exception as e:  # noqa: BLE001
        print(label, "-> EXC", type(e).__name__, str(e))


@contextlib.contextmanager
def fixed_dir(name):
    d = os.path.join(tempfile.gettempdir(), name)
    shutil.rmtree(d, ignore_errors=True)
    os.makedirs(d)
    try:
        yield d
    finally:
        shutil.rmtree(d, ignore_errors=True)


def norm(r):
    return (repr(r["html"]), [repr(d) for d in r["dependencies"]])


with fixed_dir("c05_probe3_src") as srcdir:
    for f in ("a.js", "b.css", "c d.js"):
        open(os.path.join(srcdir, f), "w").write("x")
    dep1 = HTMLDependency(
        "dep1", "1.0", source={"subdir": srcdir}, script=[{"src": "a.js"}, {"src": "c d.js", "defer": ""}],
        stylesheet={"href": "b.css"}, meta={"name": "m", "content": "c"},
    )
    dep1b = HTMLDependency("dep1", "2.0", source={"subdir": srcdir}, script={"src": "a.js"})
    dep2 = HTMLDependency("dep2", "0.1", head=TagList(span("in-head", strong("x")), "txt", div("blk")))
    dep3 = HTMLDependency("dep3", "0.1", head="<meta name='k'>")
    dep4 = HTMLDependency("dep4", "3", source={"href": "https://x.org/lib"}, script={"src": "z.js"})
    hc = head_content(tags.title("T"), span("a"), span("b"))

    docs = {
        "empty": lambda: HTMLDocument(),
        "text": lambda: HTMLDocument("just text"),
        "inline": lambda: HTMLDocument(span("a"), span("b"), "c"),
        "block": lambda: HTMLDocument(div(span("a"), span("b")), div("c")),
        "attrs": lambda: HTMLDocument(span("a"), lang="en", class_="k"),
        "body": lambda: HTMLDocument(tags.body(span("a"), "b", class_="bd")),
        "body+more": lambda: HTMLDocument(tags.body(span("a")), span("x")),
        "html": lambda: HTMLDocument(tags.html(tags.head(tags.title("t")), tags.body(span("a"), "b")), lang="fr"),
        "html-nohead": lambda: HTMLDocument(tags.html(tags.body(span("a")))),
        "html-head-second": lambda: HTMLDocument(tags.html(dep1, tags.head(tags.title("t"), span("i")), tags.body("b"))),
        "html-two-heads": lambda: HTMLDocument(tags.html(tags.head("h1"), tags.head("h2"), tags.body())),
        "html-inline-root": lambda: HTMLDocument(Tag("html", Tag("head", _add_ws=False), Tag("body", span("a"), _add_ws=False), _add_ws=False)),
        "html-nested-head": lambda: HTMLDocument(tags.html(div(tags.head("not-direct")), tags.body())),
        "deps": lambda: HTMLDocument(div(dep1, span("a", dep2), dep3), dep4),
        "deps-dup": lambda: HTMLDocument(span(dep1), span(dep1b), span(dep1)),
        "head_content": lambda: HTMLDocument(div(hc, "x"), hc),
        "tagifiable-html": lambda: HTMLDocument(Tgf(tags.html(tags.body(span("t"))))),
        "tagifiable-body": lambda: HTMLDocument(Tgf(tags.body(span("t"), dep2))),
        "tagifiable-list": lambda: HTMLDocument(Tgf(TagList(span("t"), dep1, Tgf(span("u"))))),
        "rep": lambda: HTMLDocument(Rep(), span("s"), HTML("<raw>")),
        "html-in-body-deps": lambda: HTMLDocument(tags.html(tags.head(dep3), tags.body(span(dep1), div(dep2)))),
    }

    print("==== HTMLDocument.render")
    for name, mk in docs.items():
        show(f"{name} default", lambda: norm(mk().render()))
        show(f"{name} prefix=None", lambda: norm(mk().render(lib_prefix=None)))
        show(f"{name} prefix=L nover", lambda: norm(mk().render(lib_prefix="L/x", include_version=False)))
        # rendering twice gives the same thing and does not modify the document
        d = mk()
        show(f"{name} twice", lambda: d.render() == d.render())

    print("==== internals")
    show("hoist non-html", lambda: HTMLDocument._hoist_head_content(div("x"), "lib", True))
    show("hoist html", lambda: str(HTMLDocument._hoist_head_content(tags.html(tags.body(span(dep1))), "lib", True)))
    show("hoist html nover", lambda: str(HTMLDocument._hoist_head_content(tags.html(tags.head(), dep2), None, False)))
    src = tags.html(tags.head(tags.title("keep")), tags.body(dep1))
    hoisted = HTMLDocument._hoist_head_content(src, "lib", True)
    print("source untouched", str(src), len(src.children[0].children))
    show("gen tree", lambda: str(HTMLDocument(span("a"))._gen_html_tag_tree("lib", include_version=True)))
    show("gen tree pos", lambda: str(HTMLDocument(span("a"), dep1)._gen_html_tag_tree(None, False)))

    print("==== append / copy")
    import copy

    d = HTMLDocument(span("a"))
    d2 = copy.copy(d)
    d.append(span("b"), "c", dep1)
    show("orig", lambda: norm(d.render()))
    show("copy", lambda: norm(d2.render()))

    print("==== save_html")
    with fixed_dir("c05_probe3_out") as outdir:

        def save(doc, name, *a, **kw):
            path = os.path.join(outdir, name)
            ret = doc.save_html(path, *a, **kw)
            listing = sorted(
                os.path.relpath(os.path.join(dp, f), outdir)
                for dp, _, fs in os.walk(outdir)
                for f in fs
            )
            return (ret == path, open(path).read(), listing)

        show("save deps", lambda: save(docs["deps"](), "a.html"))
        show("save deps libdir None", lambda: save(docs["deps"](), "b.html", None))
        show("save deps nover", lambda: save(docs["deps-dup"](), "c.html", "L", False))
        show("save inline", lambda: save(docs["inline"](), "d.html", libdir="", include_version=True))

    print("==== HTMLTextDocument")
    tmpl = "<html><head><meta data-foo=\"\"></head><body><span>a</span><span>b</span></body></html>"
    for label, deps in [
        ("none", []),
        ("one", [dep1]),
        ("many", [dep1, dep2, dep3, dep4, dep1b]),
        ("head only", [dep2]),
    ]:
        for kw in ({}, {"lib_prefix": None}, {"lib_prefix": "P", "include_version": False}):
            show(
                f"text {label} {kw}",
                lambda: norm(HTMLTextDocument(tmpl, deps=list(deps), deps_replace_pattern='<meta data-foo="">').render(**kw)),
            )
    show("text nopattern nodeps", lambda: norm(HTMLTextDocument(tmpl).render()))
    show("text deps without pattern", lambda: HTMLTextDocument(tmpl, deps=[dep1]))
    show(
        "text pattern absent",
        lambda: norm(HTMLTextDocument(tmpl, deps=[dep1], deps_replace_pattern="@@").render()),
    )
    show(
        "text pattern twice",
        lambda: norm(HTMLTextDocument("<a>@@</a><b>@@</b>", deps=[dep3], deps_replace_pattern="@@").render()),
    )
    ser = dep3.serialize_to_script_json().get_html_string()
    show(
        "text with serialized dep",
        lambda: norm(HTMLTextDocument("<html><head>@@</head><body>" + ser + ser + "</body></html>", deps=[dep2], deps_replace_pattern="@@").render()),
    )
    tdoc = HTMLTextDocument(tmpl, deps=[dep1], deps_replace_pattern='<meta data-foo="">')
    r = tdoc.render()
    print("deps deep-copied", r["dependencies"][0] is not dep1, r["dependencies"][0] == dep1)
