# Probe for Tag.__copy__ / Tag.tagify (and HTMLDocument.__copy__): how fields, incl. the whitespace flag, travel.
import copy
import sys

from htmltools import HTML, HTMLDependency, HTMLDocument, Tag, TagList, div, span, tags, p, a


def show(label, fn):
    try:
        r = fn()
        print(label, "->", type(r).__name__, repr(r))
    except Exception as e:  # noqa: BLE001
        print(label, "-> EXC", type(e).__name__)


class Tagif:
    def __init__(self, out):
        self.out = out

    def tagify(self):
        return self.out


class NoCopy:
    def __copy__(self):
        raise OverflowError("cannot copy")


class Counting:
    copies = 0

    def __copy__(self):
        Counting.copies += 1
        return Counting()


class MyTag(Tag):
    def __init__(self, *args, extra=None, **kwargs):
        super().__init__("my-tag", *args, **kwargs)
        self.extra = extra if extra is not None else [["nested"], "x"]
        self._private = {"k": [1, 2]}


class SuperCopy(Tag):
    def __copy__(self):
        cp = super().__copy__()
        cp.marker = "copied"
        return cp


dep = HTMLDependency("d", "1.0", script={"src": "a.js"})

mk = {
    "div": lambda: div(span("a"), "b", id="i"),
    "span": lambda: span(span("a"), "b", class_="c"),
    "div_no_ws": lambda: div(div("x"), span("y"), "z", _add_ws=False),
    "span_ws": lambda: span(span("x"), "y", _add_ws=True),
    "empty": lambda: Tag("x-empty"),
    "void": lambda: tags.br(),
    "with_dep": lambda: div(dep, span("a", dep)),
    "with_tagif": lambda: div(Tagif(span("t1")), span(Tagif(TagList("t2", div("t3", _add_ws=False)))), "tail"),
    "tagif_to_block_in_inline": lambda: span("a", Tagif(div("blk")), "b"),
    "tagif_to_inline_in_block": lambda: div("a", Tagif(span("inl")), "b"),
    "tagif_to_nows_block": lambda: span("a", Tagif(div(div("k"), _add_ws=False)), "b"),
    "tagif_to_ws_inline": lambda: span("a", Tagif(span(span("k"), _add_ws=True)), "b"),
    "tagif_to_str": lambda: span("a", Tagif("<str>"), Tagif(HTML("<html>")), "b"),
    "tagif_to_empty": lambda: span("a", Tagif(TagList()), "b"),
    "mytag": lambda: MyTag(span("a"), "b", _add_ws=False, title="t"),
    "mytag_ws": lambda: MyTag(div("a"), "b", extra=[{"d": 1}]),
    "supercopy": lambda: SuperCopy("sc", span("a"), _add_ws=False),
    "deep": lambda: div(p(span(a("l", href="#"), "m"), "n"), tags.ul(tags.li("1"), tags.li(span("2")))),
}


def facts(t, cp):
    return {
        "type": type(cp).__name__,
        "is_same": cp is t,
        "eq": cp == t,
        "keys": list(cp.__dict__.keys()),
        "keys_same_order": list(cp.__dict__.keys()) == list(t.__dict__.keys()),
        "name": cp.name,
        "add_ws": cp.add_ws,
        "add_ws_type": type(cp.add_ws).__name__,
        "attrs": dict(cp.attrs),
        "attrs_type": type(cp.attrs).__name__,
        "attrs_shared": cp.attrs is t.attrs,
        "children_type": type(cp.children).__name__,
        "children_shared": cp.children is t.children,
        "children_data_shared": cp.children.data is t.children.data,
        "child_objs_shared": [c is o for c, o in zip(cp.children, t.children)],
        "prev_displayhook": cp.prev_displayhook,
        "extra": (
            None if not hasattr(t, "extra")
            else (cp.extra == t.extra, cp.extra is t.extra, cp.extra[0] is t.extra[0],
                  cp._private is t._private, cp._private["k"] is t._private["k"])
        ),
        "marker": getattr(cp, "marker", None),
        "str_equal": str(cp) == str(t),
    }


for label, f in mk.items():
    t = f()
    before = str(t) if "tagif" not in label else None
    show(f"{label} copy", lambda: facts(t, copy.copy(t)))
    show(f"{label} tagify", lambda: facts(t, t.tagify()))
    for kw in ({}, {"indent": 2}, {"eol": ""}):
        show(f"{label} tagify_html {kw}", lambda: t.tagify().get_html_string(**kw))
    show(f"{label} render", lambda: t.render()["html"])
    show(f"{label} in_span", lambda: span("L", t, "R").render()["html"])
    show(f"{label} in_div", lambda: div("L", t, "R").render()["html"])
    show(f"{label} in_taglist", lambda: TagList(span("L"), t, span("R")).render()["html"])
    if before is not None:
        show(f"{label} orig_unchanged", lambda: str(t) == before)

    # modifying the copy does not touch the original
    def independent():
        t = f()
        n = len(t.children)
        cp = copy.copy(t)
        cp.append(span("new"))
        cp.attrs["zz"] = "1"
        cp.add_ws = not cp.add_ws
        cp.name = "renamed"
        return (len(t.children) == n, "zz" in t.attrs, t.add_ws, t.name, cp.add_ws, len(cp.children) == n + 1)
    show(f"{label} independent", independent)

# add_ws changed after construction still travels
t = div(span("a"), span("b"))
t.add_ws = False
show("flag_changed_copy", lambda: (copy.copy(t).add_ws, str(copy.copy(t))))
show("flag_changed_tagify", lambda: (t.tagify().add_ws, str(t.tagify())))
t.add_ws = "truthy-string"
show("flag_nonbool_copy", lambda: (copy.copy(t).add_ws, str(copy.copy(t))))

# fields whose copy fails / has side effects
t = div("x")
t.bad = NoCopy()
show("field_copy_raises", lambda: copy.copy(t))
show("field_copy_raises_tagify", lambda: t.tagify())
show("field_copy_raises_render", lambda: t.render())
t = div("x")
t.c1 = Counting()
t.c2 = Counting()
Counting.copies = 0
show("counting_copy", lambda: (type(copy.copy(t).c1).__name__, Counting.copies))
show("counting_tagify", lambda: (type(t.tagify().c2).__name__, Counting.copies))

# missing fields
t = div("x")
del t.__dict__["add_ws"]
show("missing_add_ws_copy", lambda: sorted(copy.copy(t).__dict__))
show("missing_add_ws_tagify_render", lambda: t.tagify().get_html_string())
t = div("x")
del t.__dict__["children"]
show("missing_children_copy", lambda: sorted(copy.copy(t).__dict__))
show("missing_children_tagify", lambda: t.tagify())

# inside a `with` block the display hook field is a function
t = div("x")
old = sys.displayhook
with t:
    show("in_with_copy", lambda: (copy.copy(t).prev_displayhook is t.prev_displayhook, t.prev_displayhook is old))
show("after_with", lambda: (t.prev_displayhook, sys.displayhook is old))

# deepcopy is independent of __copy__
t = div(span("a"), "b", _add_ws=False)
show("deepcopy", lambda: facts(t, copy.deepcopy(t)))

# HTMLDocument copies
doc = HTMLDocument(div(span("a"), dep), "txt", lang="en")
doc.extra = ["e"]


def docfacts():
    cp = copy.copy(doc)
    return {
        "type": type(cp).__name__,
        "keys": list(cp.__dict__),
        "content_shared": cp._content is doc._content,
        "content_items_shared": [c is o for c, o in zip(cp._content, doc._content)],
        "args_shared": cp._html_attr_args is doc._html_attr_args,
        "args": cp._html_attr_args,
        "extra": (cp.extra, cp.extra is doc.extra),
        "render_equal": cp.render() == doc.render(),
    }


show("doc_copy", docfacts)
cp = copy.copy(doc)
cp.append(span("more"))
cp._html_attr_args["class"] = "k"
show("doc_copy_independent", lambda: (len(doc._content), doc._html_attr_args, len(cp._content)))
show("doc_render", lambda: doc.render()["html"])
show("doc_copy_render", lambda: cp.render()["html"])


class MyDoc(HTMLDocument):
    pass


show("doc_subclass", lambda: type(copy.copy(MyDoc(div("x")))).__name__)
d2 = HTMLDocument("x")
d2.bad = NoCopy()
show("doc_field_copy_raises", lambda: copy.copy(d2))
