# Probe for refactoring 4: Tag.render / TagList.render and the str()/repr()/_repr_html_
# wrappers that report (and, in "json" mode, serialise) the resolved dependencies.
import htmltools
from htmltools import HTML, HTMLDependency, HTMLDocument, Tag, TagList, div, head_content, span, tags
from htmltools._jsx import jsx_tag_create


def show(label, fn):
    try:
        print(label, "->", fn())
    except BaseException as e:  # noqa
        print(label, "-> EXC", type(e).__name__, str(e))


def ids(deps):
    return [(d.name, str(d.version)) for d in deps]


a1 = HTMLDependency("a", "1.9", source={"subdir": "adir"}, script={"src": "a.js"})
a2 = HTMLDependency("a", "1.10", script=[{"src": "a.js"}, {"src": "</script><b>.js"}], stylesheet={"href": "s.css"},
                    meta={"name": "m", "content": "c"}, head=tags.title("</ScRiPt> from a2"), all_files=True)
b = HTMLDependency("b", "2", source={"href": "https://cdn.example/b"})
c = HTMLDependency("c", "0.0.1", head="<script>alert('c')</script>")


class Widget:
    def __init__(self, *deps):
        self.deps = deps

    def tagify(self):
        return TagList(span("widget"), *self.deps)


class TagWidget:
    def tagify(self):
        return div("tw", b, class_="w")


class ReprOnly:
    def _repr_html_(self):
        return "<i>repr</i>"


class BadTagify:
    def tagify(self):
        raise RuntimeError("boom in tagify")


objs = {
    "empty-div": lambda: div(),
    "empty-list": lambda: TagList(),
    "text": lambda: TagList("a < b", HTML("<b>"), 3, 4.5),
    "deps": lambda: div(a1, span(a2, "x"), b, c, a1),
    "list-deps": lambda: TagList(a1, div(a2), [b, (c,)], None),
    "only-deps-list": lambda: TagList(a2, b),
    "only-dep-div": lambda: div(c),
    "widget": lambda: div(Widget(a1, c), Widget(a2)),
    "widget-list": lambda: TagList(Widget(b), TagWidget(), "t"),
    "tagwidget-in-tag": lambda: span(TagWidget(), _add_ws=False),
    "repronly": lambda: div(ReprOnly(), a1),
    "jsx": lambda: div(jsx_tag_create("Foo")(a1, x=1)),
    "head_content": lambda: TagList(head_content(tags.title("t")), head_content(tags.title("t"))),
    "bad-tagify": lambda: div(BadTagify(), a1),
    "bad-tagify-list": lambda: TagList(a1, BadTagify()),
    "script-tag": lambda: tags.script("if (a < b) {}", a1),
}

for mode in ("invisible", "json", "something-else"):
    htmltools.html_dependency_render_mode = mode
    for name, mk in objs.items():
        def r():
            x = mk()
            res = x.render()
            return (sorted(res.keys()), ids(res["dependencies"]), type(res["dependencies"]).__name__, res["html"], type(res["html"]).__name__)
        show(f"[{mode}] render {name}", r)
        show(f"[{mode}] str {name}", lambda: str(mk()))
        show(f"[{mode}] repr {name}", lambda: repr(mk()))
        show(f"[{mode}] _repr_html_ {name}", lambda: mk()._repr_html_())
        show(f"[{mode}] strtype {name}", lambda: type(str(mk())).__name__)
htmltools.html_dependency_render_mode = "invisible"

# rendering an un-tagified object directly
show("non-tagified", lambda: TagList.get_html_string(TagList(Widget())))


# order of the calls made on the tagified copy, via subclasses
class LoudTag(Tag):
    def tagify(self):
        print("   LoudTag.tagify")
        return super().tagify()

    def get_dependencies(self, dedup=True):
        print("   LoudTag.get_dependencies", dedup)
        return super().get_dependencies(dedup=dedup)

    def get_html_string(self, indent=0, eol="\n"):
        print("   LoudTag.get_html_string", indent, repr(eol))
        return super().get_html_string(indent, eol)


class LoudList(TagList):
    def tagify(self):
        print("   LoudList.tagify")
        cp = super().tagify()
        print("   tagify type", type(cp).__name__)
        return cp

    def get_dependencies(self, *, dedup=True):
        print("   LoudList.get_dependencies", dedup)
        return super().get_dependencies(dedup=dedup)

    def get_html_string(self, *a, **k):
        print("   LoudList.get_html_string", a, k)
        return super().get_html_string(*a, **k)


for mode in ("invisible", "json"):
    htmltools.html_dependency_render_mode = mode
    lt = LoudTag("section", a1, LoudTag("p", a2, "x"), b)
    r = lt.render()
    print(ids(r["dependencies"]), r["html"])
    print(str(lt))
    ll = LoudList(a1, LoudTag("p", a2), "z")
    r = ll.render()
    print(ids(r["dependencies"]), r["html"])
    print(str(ll))
htmltools.html_dependency_render_mode = "invisible"


# failing get_dependencies / get_html_string
class FailDeps(Tag):
    def get_dependencies(self, dedup=True):
        raise KeyError("deps failed")

    def get_html_string(self, indent=0, eol="\n"):
        print("   (get_html_string reached)")
        return super().get_html_string(indent, eol)


show("faildeps", lambda: FailDeps("x", a1).render())
show("faildeps str", lambda: str(FailDeps("x", a1)))


# dependency whose JSON serialisation fails in json mode
class FailJson(HTMLDependency):
    def serialize_to_script_json(self, indent=None):
        raise ValueError("cannot serialise " + self.name)


htmltools.html_dependency_render_mode = "json"
show("failjson", lambda: str(div(a1, FailJson("fj", "1"), b)))
show("okjson", lambda: str(div(a1, b)))
htmltools.html_dependency_render_mode = "invisible"

# render result is independent of the original (tagify copies)
x = div(a1, span(a2))
r1 = x.render()
r2 = x.render()
print("fresh lists", r1["dependencies"] is not r2["dependencies"], ids(r1["dependencies"]) == ids(r2["dependencies"]))
print("copies of deps", [d is a2 for d in r1["dependencies"]], [d == a2 for d in r1["dependencies"]])

# documents go through Tag.render as well
print(HTMLDocument(div(a1, a2, b)).render(lib_prefix=None)["html"])
