"""Probe for refactoring 1: JSXTagAttrDict name normalisation / update paths."""
from collections import OrderedDict

from htmltools import HTMLDependency, div, span
from htmltools._jsx import JSXTag, JSXTagAttrDict, jsx, jsx_tag_create


def show(label, fn):
    try:
        out = fn()
        print(label, "->", repr(out))
    except BaseException as e:  # noqa: BLE001
        print(label, "-> EXC", type(e).__name__, str(e))


NAMES = [
    "", "_", "__", "___", "a", "a_", "a__", "_a", "_a_", "class_", "data_foo",
    "data_foo_", "data__foo", "for_", "aria_label", "a-b", "a-b_", "-", "-_",
    "camelCase", "Camel_Case_", "x_y_z", "_x_y_z_", "été_", "a b_", "\n_", "a_\n",
]

# 1. the normaliser reached through the class and through an instance
for n in NAMES:
    show(f"norm-class {n!r}", lambda n=n: JSXTagAttrDict._normalize_attr_name(n))
    show(f"norm-inst  {n!r}", lambda n=n: JSXTagAttrDict()._normalize_attr_name(n))
for bad in [None, 1, b"a_", ("a_",)]:
    show(f"norm-bad {bad!r}", lambda bad=bad: JSXTagAttrDict._normalize_attr_name(bad))

# 2. constructor
show("ctor-empty", lambda: list(JSXTagAttrDict().items()))
show("ctor", lambda: list(JSXTagAttrDict(class_="a", data_x=1, for_=None, a__=2).items()))
show("ctor-collide", lambda: list(JSXTagAttrDict(**{"a_b": 1, "a-b": 2, "a_b_": 3}).items()))
show("ctor-collide2", lambda: list(JSXTagAttrDict(**{"a-b": 1, "z": 0, "a_b": 2}).items()))
show("ctor-positional", lambda: JSXTagAttrDict({"a": 1}))
show("type", lambda: type(JSXTagAttrDict(a=1)).__mro__[1:3])

# 3. __setitem__
def setitem():
    d = JSXTagAttrDict(b=0)
    d["class_"] = "x"
    d["data_a_b"] = [1]
    d["b_"] = 5
    d["__"] = "u"
    d[""] = "e"
    return list(d.items())
show("setitem", setitem)
def setitem_bad():
    d = JSXTagAttrDict()
    d[3] = 1
    return d
show("setitem-bad", setitem_bad)

# 4. update: positional mappings in order, then kwargs
def upd(*a, **k):
    d = JSXTagAttrDict(first_=0, keep=1)
    r = d.update(*a, **k)
    return r, list(d.items())
show("upd-none", lambda: upd())
show("upd-kw", lambda: upd(data_a=1, first=9))
show("upd-1map", lambda: upd({"x_y": 1, "keep_": 2}))
show("upd-2maps", lambda: upd({"x_y": 1, "k": 1}, {"x-y": 2, "k_": 3}))
show("upd-maps+kw", lambda: upd({"x_y": 1}, OrderedDict([("z_", 1), ("x_y_", 5)]), x_y=7, new__=8))
show("upd-dup-in-one", lambda: upd({"p_q": 1, "p-q": 2, "p_q_": 3}))
show("upd-attrdict", lambda: upd(JSXTagAttrDict(a_b=1)))
show("upd-nonstr-key", lambda: upd({1: 2}))
show("upd-partial", lambda: upd({"ok_": 1}, {2: 2}, later=3))
show("upd-list-pairs", lambda: upd([("a", 1)]))
show("upd-none-arg", lambda: upd(None))
def upd_partial_state():
    d = JSXTagAttrDict()
    try:
        d.update({"ok_": 1}, {"fine": 1, 2: 2}, later=3)
    except Exception as e:
        print("  raised", type(e).__name__)
    return list(d.items())
show("upd-partial-state", upd_partial_state)

class M:
    """Mapping-like object with only .items()."""
    def items(self):
        print("  M.items called")
        return iter([("m_a", 1), ("m_b_", 2), ("m-a", 3)])
show("upd-itemsonly", lambda: upd(M(), M()))

# 5. _update directly
def direct():
    d = JSXTagAttrDict()
    r = d._update({"a_b": 1, "c_": 2})
    return r, list(d.items())
show("_update", direct)

# 6. bypassing paths stay un-normalised (dict.setdefault / dict.update are inherited)
def bypass():
    d = JSXTagAttrDict()
    d.setdefault("raw_key_", 1)
    dict.update(d, {"other_raw_": 2})
    d["raw_key_"] = 3
    return list(d.items())
show("bypass", bypass)

# 7. through JSXTag and rendering
Foo = jsx_tag_create("Foo")
def tag_attrs():
    t = Foo(class_="a", data_x_y=1, style_="color:red", htmlFor_="z", **{"aria-label": "q", "b__": 1})
    t.attrs.update({"on_click": jsx("f")}, extra_=True)
    t.attrs["key_"] = "k"
    return list(t.attrs.items()), str(t)
show("tag-attrs", tag_attrs)
show("tag-style", lambda: str(Foo(style="color:red;margin:0")))
show("tag-style_", lambda: str(Foo(style_={"a": 1})))
show("tag-nested-attr", lambda: str(Foo(child_=span("x", class_="c"), dep_=HTMLDependency("d", "1.0"))))
