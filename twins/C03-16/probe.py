# Probe for refactoring 1: html_escape (str.translate implementation)
import itertools
import htmltools
from htmltools import HTML, Tag, TagList, div, span, tags, html_escape
from htmltools._util import html_escape as he2, _html_escape as he3
from htmltools._core import TagAttrDict


def show(label, fn):
    try:
        r = fn()
        print(label, "->", type(r).__name__, repr(r))
    except BaseException as e:  # noqa
        print(label, "-> EXC", type(e).__name__)


class S(str):
    pass


specials = ["&", "<", ">", '"', "'", "\r", "\n"]
samples = [
    "",
    "plain",
    " ",
    "a&b",
    "&amp;",
    "&&&&",
    "<script>alert('x')</script>",
    'x" onclick="evil()',
    "x' onclick='evil()",
    "line1\nline2\r\nline3\rline4",
    "\t\x0b\x0c\x00\x1f\x7f\x85  ",
    "café 中文 \U0001f600",
    "\ud800 lone surrogate <",
    "&#10;&#13;&quot;&apos;&lt;&gt;",
    "".join(chr(i) for i in range(0, 256)),
    "<" * 50 + "&" * 50,
    "a>b>c",
    "`=/ \\",
]
samples += ["".join(p) for p in itertools.permutations(specials, 3)][:60]
samples += [s + "mid" + t for s in specials for t in specials]

for s in samples:
    for attr in (False, True):
        show(f"esc({s!r},{attr})", lambda: html_escape(s, attr))

# attr given as other truthy / falsy objects, positional/keyword
for attr in (0, 1, "", "x", None, [], [0], 0.0, 2.5):
    show(f"attr={attr!r}", lambda: html_escape("<'\n&\">", attr=attr))
show("default attr", lambda: html_escape("<'\n&\">"))

# identity / type of the result
for s in ["abc", "", "a'b", "a<b"]:
    for attr in (False, True):
        r = html_escape(s, attr)
        print("same object", repr(s), attr, r is s)
for s in [S("abc"), S("a'b"), S("a<b"), S("")]:
    for attr in (False, True):
        r = html_escape(s, attr)
        print("subclass", repr(s), attr, type(r).__name__, r is s, repr(r))

# non-str inputs
for bad in (None, 1, 1.5, b"a<b", bytearray(b"<"), HTML("<b>"), ["<"], ("<",), object, True):
    for attr in (False, True):
        show(f"bad {type(bad).__name__} {attr}", lambda: html_escape(bad, attr))

print("aliases", he2 is html_escape, he3 is html_escape, htmltools.html_escape is html_escape)

# Through the library: attribute values, text children, merges, HTML addition
for s in samples[:20] + specials:
    show(f"div attr {s!r}", lambda: str(div(title=s, data_x=s)))
    show(f"div child {s!r}", lambda: str(div(s)))
    show(f"merge plain+HTML {s!r}", lambda: str(div({"class": s}, class_=HTML(s))))
    show(f"merge HTML+plain {s!r}", lambda: str(div({"class": HTML(s)}, class_=s)))
    show(f"HTML+str {s!r}", lambda: HTML("<i>") + s)
    show(f"str+HTML {s!r}", lambda: s + HTML("<i>"))
    show(f"script {s!r}", lambda: str(tags.script(s, type=s)))
    show(f"taglist {s!r}", lambda: str(TagList(s, HTML(s), span(s, id=s))))
show("numbers", lambda: str(div(a=1, b=2.5, c=-0.0, d=True, e=False, f=None)))
show("tagattrdict", lambda: dict(TagAttrDict({"a": "<"}, a=HTML(">"), b="'")))
