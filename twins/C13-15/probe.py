# Probe for refactoring 5: HTMLDependency.__init__ argument normalisation (the constructor that
# HTMLTextDocument calls with the decoded JSON of every serialised dependency).
import json
from collections import OrderedDict, UserDict
from packaging.version import Version
from htmltools import HTML, HTMLDependency, HTMLTextDocument, TagList, tags


def show(label, fn):
    try:
        r = fn()
    except Exception as e:  # noqa: BLE001
        print(label, "-> EXC", type(e).__name__, str(e)[:200])
    else:
        print(label, "->", repr(r))


def val(x):
    # generators have an address in their repr; show what is left in them instead
    if type(x).__name__ == "generator":
        return ("remaining", list(x))
    return x


def state(d):
    return (
        list(vars(d).keys()),
        d.name, repr(d.version), d.source, type(d.script).__name__, val(d.script),
        type(d.stylesheet).__name__, val(d.stylesheet), type(d.meta).__name__, val(d.meta), d.all_files,
        None if d.head is None else (type(d.head).__name__, d.head.get_html_string()),
    )


class MyDict(dict):
    pass


def gen(*items):
    for i in items:
        yield i


values = {
    "omitted": "OMIT",
    "None": None,
    "dict": lambda k: {k: "v.x"},
    "dict_extra": lambda k: {k: "v.x", "rel": "preload", "type": "module"},
    "mydict": lambda k: MyDict({k: "v.x"}),
    "ordereddict": lambda k: OrderedDict([(k, "v.x")]),
    "list1": lambda k: [{k: "v.x"}],
    "list2": lambda k: [{k: "v.x"}, {k: "w.x", "rel": "alternate"}],
    "empty_list": lambda k: [],
    "empty_dict": lambda k: {},
    "tuple": lambda k: ({k: "v.x"},),
    "gen": lambda k: gen({k: "v.x"}),
    "set_empty": lambda k: set(),
    "str": lambda k: "abc",
    "empty_str": lambda k: "",
    "int": lambda k: 5,
    "zero": lambda k: 0,
    "false": lambda k: False,
    "list_nondict": lambda k: [{k: "v.x"}, "oops"],
    "list_missing": lambda k: [{k: "v.x"}, {"other": 1}],
    "list_none": lambda k: [None],
    "userdict": lambda k: UserDict({k: "v.x"}),
    "list_userdict": lambda k: [UserDict({k: "v.x"})],
    "dict_of_lists": lambda k: {k: ["a", "b"]},
}

for param, key in (("script", "src"), ("stylesheet", "href"), ("meta", "name")):
    for vname, v in values.items():
        def f():
            kw = {}
            if v != "OMIT":
                arg = v(key) if callable(v) else v
                if param == "meta" and isinstance(arg, dict) and "name" in arg:
                    arg["content"] = "c"
                if param == "meta" and isinstance(arg, (list, tuple)):
                    for item in arg:
                        if isinstance(item, dict) and "name" in item:
                            item["content"] = "c"
                kw[param] = arg
            d = HTMLDependency("n", "1.2", **kw)
            ident = kw.get(param) is getattr(d, param) if param in kw else None
            return (state(d), "same-object:", ident)
        show(f"{param}={vname}", f)

# meta needs both keys; order of the check
show("meta only name", lambda: HTMLDependency("n", "1", meta={"name": "x"}))
show("meta only content", lambda: HTMLDependency("n", "1", meta={"content": "x"}))
show("meta neither", lambda: HTMLDependency("n", "1", meta=[{"name": "a", "content": "b"}, {}]))

# which argument is reported first when several are bad; and what got assigned before the failure
def partial(**kw):
    class Spy(HTMLDependency):
        pass
    obj = Spy.__new__(Spy)
    try:
        obj.__init__("n", "1", **kw)
    except Exception as e:  # noqa: BLE001
        return (type(e).__name__, str(e)[:120], sorted(vars(obj).keys()))
    return ("ok", sorted(vars(obj).keys()))

show("bad script+stylesheet+meta", lambda: partial(script=[1], stylesheet=[2], meta=[3]))
show("bad stylesheet+meta", lambda: partial(script={"src": "s"}, stylesheet=[2], meta=[3]))
show("bad meta only", lambda: partial(script={"src": "s"}, stylesheet={"href": "h"}, meta=[3]))
show("bad source + script", lambda: partial(source="x", script=[1]))
show("bad source keys + script", lambda: partial(source={"x": 1}, script=[1]))
show("bad head", lambda: partial(script={"src": "s"}, head=object()))
show("bad version", lambda: partial(script=[1]) if False else HTMLDependency("n", "x.y.z", script=[1]))

# source variants
for sname, src in {
    "None": None, "href": {"href": "u"}, "subdir": {"subdir": "d"}, "both": {"href": "u", "subdir": "d"},
    "pkg+subdir": {"package": "htmltools", "subdir": "libtest"}, "pkg_only": {"package": "p"}, "empty": {},
    "mydict_href": MyDict(href="u"), "list": ["href"], "str": "href", "userdict": UserDict(href="u"),
}.items():
    show(f"source={sname}", lambda: (lambda d: (d.source, d.source is src))(HTMLDependency("n", "1", source=src)))


class CountingDict(dict):
    log = []

    def __contains__(self, k):
        CountingDict.log.append(k)
        return dict.__contains__(self, k)


for content in ({"href": "u"}, {"subdir": "d"}, {"zzz": 1}):
    CountingDict.log.clear()
    show(f"source contains-order {content}", lambda: HTMLDependency("n", "1", source=CountingDict(content)).source)
    print("   lookups:", CountingDict.log)

# rel default: in-place mutation of the caller's dicts, existing rel preserved
sheet = [{"href": "a.css"}, {"href": "b.css", "rel": "preload"}, {"href": "c.css", "rel": ""}, {"href": "d.css", "rel": None}]
d = HTMLDependency("n", "1", stylesheet=sheet)
print("caller's stylesheet list:", sheet, d.stylesheet is sheet)
one = {"href": "one.css"}
d = HTMLDependency("n", "1", stylesheet=one)
print("caller's single dict:", one, d.stylesheet[0] is one)
scr = {"src": "s.js"}
d = HTMLDependency("n", "1", script=scr)
print("script single dict:", scr, d.script[0] is scr, d.script)
d1 = HTMLDependency("n", "1")
d2 = HTMLDependency("n", "1")
print("fresh defaults are distinct lists:", d1.script is not d2.script, d1.meta is not d2.meta, d1.stylesheet is not d1.script)

# subclass hooks are still the ones called
class Sub(HTMLDependency):
    calls = []

    def _validate_dicts(self, ld, req_attr):
        Sub.calls.append(("dicts", list(req_attr)))
        super()._validate_dicts(ld, req_attr)

    def _validate_dict(self, d, req_attr):
        Sub.calls.append(("dict", dict(d), list(req_attr)))
        super()._validate_dict(d, req_attr)

Sub("n", "1", script=[{"src": "a"}, {"src": "b"}], stylesheet={"href": "h"}, meta=None)
print("subclass hook calls:", Sub.calls)

# round trip through JSON <script> text with every shape
for label, kw in {
    "bare": {},
    "single dicts": dict(script={"src": "a.js"}, stylesheet={"href": "a.css"}, meta={"name": "n", "content": "c"}),
    "lists": dict(script=[{"src": "a.js"}, {"src": "b.js", "defer": ""}],
                  stylesheet=[{"href": "a.css", "rel": "preload"}, {"href": "b.css"}],
                  meta=[{"name": "n", "content": "c"}, {"name": "m", "content": "</script>"}],
                  source={"subdir": "x"}, all_files=True, head=tags.title("</script>")),
    "empty lists": dict(script=[], stylesheet=[], meta=[], head=""),
}.items():
    def rt():
        dep = HTMLDependency("rt", "0.1", **kw)
        text = dep.serialize_to_script_json().get_html_string()
        args = json.loads(text[len('<script type="application/json" data-html-dependency="">'):-len("</script>")])
        doc = HTMLTextDocument("<h>@</h>" + text, deps=[], deps_replace_pattern="@")
        (back,) = doc._deps
        return (args, back == dep, state(back), doc.render(lib_prefix=None)["html"])
    show(f"roundtrip {label}", rt)

# direct keyword use as json.loads would produce, including explicit nulls / wrong JSON shapes
for label, js in {
    "nulls": '{"name": "j", "version": "1", "source": null, "script": null, "stylesheet": null, "meta": null, "all_files": false, "head": null}',
    "script str": '{"name": "j", "version": "1", "script": "a.js"}',
    "script list of str": '{"name": "j", "version": "1", "script": ["a.js"]}',
    "stylesheet no href": '{"name": "j", "version": "1", "stylesheet": [{"rel": "x"}]}',
    "meta dict partial": '{"name": "j", "version": "1", "meta": {"name": "x"}}',
    "source list": '{"name": "j", "version": "1", "source": ["a"]}',
    "source no key": '{"name": "j", "version": "1", "source": {"package": "p"}}',
    "version int": '{"name": "j", "version": 1}',
    "all nested": '{"name": "j", "version": "1.0", "script": {"src": "s"}, "stylesheet": {"href": "h"}, "meta": {"name": "n", "content": "c"}, "head": "<b>"}',
}.items():
    show(f"from json {label}", lambda: state(HTMLDependency(**json.loads(js))))
    show(f"via textdoc {label}", lambda: [state(x) for x in HTMLTextDocument(
        '<script type="application/json" data-html-dependency="">' + js + "</script>")._deps])
