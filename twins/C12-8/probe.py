"""Probe for HTMLDependency.__init__ normalisation/validation and what it feeds."""
import collections
import json
import os
import tempfile

import htmltools
from htmltools import HTML, HTMLDependency, HTMLTextDocument, TagList, div, head_content, tags

PKG_DIR = os.path.dirname(htmltools.__file__)
TMP = os.path.realpath(tempfile.mkdtemp())
open(os.path.join(TMP, "a.js"), "w").write("a")
open(os.path.join(TMP, "a.css"), "w").write("c")


def norm(s):
    import re

    s = str(s).replace(PKG_DIR, "<PKG>").replace(TMP, "<TMP>")
    return re.sub(r" at 0x[0-9a-fA-F]+", " at 0xADDR", s)


def show(label, fn):
    try:
        out = fn()
        print(label, "->", norm(repr(out)))
    except BaseException as e:  # noqa: BLE001
        print(label, "-> EXC", type(e).__name__, norm(e))


def state(d):
    return [
        (k, type(v).__name__, [list(i.items()) if isinstance(i, dict) else i for i in v] if isinstance(v, (list, tuple)) else v)
        for k, v in d.__dict__.items()
    ]


class Contains(dict):
    """Logs membership tests, to pin evaluation order / short-circuiting."""

    def __contains__(self, k):
        print("   contains?", k)
        return super().__contains__(k)


class LoudItem(dict):
    def __contains__(self, k):
        print("   item contains?", k)
        return super().__contains__(k)

    def __setitem__(self, k, v):
        print("   item set", k, v)
        super().__setitem__(k, v)


def gen_items():
    yield {"src": "g.js"}


ARGS = {
    "nothing": {},
    "all none": dict(source=None, script=None, stylesheet=None, meta=None, head=None),
    "single dicts": dict(script={"src": "a.js"}, stylesheet={"href": "a.css"}, meta={"name": "n", "content": "c"}),
    "lists": dict(script=[{"src": "a.js"}, {"src": "b.js", "defer": ""}], stylesheet=[{"href": "a.css", "rel": "preload"}, {"media": "x", "href": "b.css"}], meta=[{"name": "n", "content": "c"}, {"content": "c2", "name": "n2", "x": "y"}]),
    "empty lists": dict(script=[], stylesheet=[], meta=[]),
    "tuples": dict(script=({"src": "a.js"},), stylesheet=({"href": "a.css"},), meta=({"name": "n", "content": "c"},)),
    "ordered": dict(script=collections.OrderedDict(src="o.js", z="1"), stylesheet=collections.OrderedDict(z="1", href="o.css")),
    "loud items": dict(script=LoudItem(src="l.js"), stylesheet=[LoudItem(href="l.css"), LoudItem(href="m.css", rel="x")], meta=LoudItem(name="n", content="c")),
    "empty dict script": dict(script={}),
    "empty dict stylesheet": dict(stylesheet={}),
    "empty dict meta": dict(meta={}),
    "script missing src": dict(script=[{"src": "a.js"}, {"sr": "b.js"}]),
    "stylesheet missing href": dict(script={"src": "ok.js"}, stylesheet=[{"rel": "stylesheet"}]),
    "meta missing content": dict(meta={"name": "n"}),
    "meta missing name": dict(meta={"content": "n"}),
    "meta missing both": dict(meta={"x": "n"}),
    "script+stylesheet+meta all bad": dict(script={"x": 1}, stylesheet={"x": 1}, meta={"x": 1}),
    "stylesheet+meta bad": dict(stylesheet={"x": 1}, meta={"x": 1}),
    "script str": dict(script="a.js"),
    "script list of str": dict(script=["a.js"]),
    "stylesheet list of None": dict(stylesheet=[None]),
    "meta int": dict(meta=5),
    "script int": dict(script=0),
    "script false": dict(script=False),
    "script generator": dict(script=gen_items()),
    "source href": dict(source={"href": "https://x"}),
    "source subdir": dict(source={"subdir": TMP}),
    "source pkg": dict(source={"package": "htmltools", "subdir": "lib"}),
    "source pkg only": dict(source={"package": "htmltools"}),
    "source empty": dict(source={}),
    "source both": dict(source={"href": "h", "subdir": "s"}),
    "source str": dict(source="lib"),
    "source list": dict(source=["href"]),
    "source 0": dict(source=0),
    "source Contains href": dict(source=Contains(href="h")),
    "source Contains subdir": dict(source=Contains(subdir="s")),
    "source Contains neither": dict(source=Contains(package="p")),
    "source bad + script bad": dict(source={}, script={"x": 1}),
    "head str": dict(head="<b>raw</b>"),
    "head empty str": dict(head=""),
    "head HTML": dict(head=HTML("<i>h</i>")),
    "head tag": dict(head=tags.title("t")),
    "head list": dict(head=[tags.title("t"), "plain <text>", None]),
    "head taglist": dict(head=TagList("x", tags.meta(name="a"))),
    "head int": dict(head=3),
    "head dep": dict(head=HTMLDependency("inner", "1")),
    "head bad": dict(head=object()),
    "head bad + all_files": dict(head=object(), all_files=True),
    "all_files": dict(all_files=True),
    "all_files truthy": dict(all_files="yes"),
}

for label, kw in ARGS.items():
    print("==", label)
    holder = {}

    def make():
        holder["d"] = HTMLDependency("nm", "1.2", **kw)
        return state(holder["d"])

    show("  state", make)
    d = holder.get("d")
    if d is not None:
        show("  as_dict", lambda: d.as_dict(lib_prefix="L"))
        show("  tags", lambda: str(d.as_html_tags(lib_prefix=None, include_version=False)))
        show("  json", lambda: str(d.serialize_to_script_json()))
        show("  source_path_map", lambda: d.source_path_map())

# identity: lists passed by the caller are stored (and updated) in place
scripts = [{"src": "a.js"}]
sheets = [{"href": "a.css"}, {"href": "b.css", "rel": "alt"}]
metas = [{"name": "n", "content": "c"}]
one = {"href": "one.css"}
d = HTMLDependency("i", "1", script=scripts, stylesheet=sheets, meta=metas)
print("identity", d.script is scripts, d.stylesheet is sheets, d.meta is metas)
print("caller sheets", sheets)
d = HTMLDependency("i", "1", stylesheet=one)
print("single identity", d.stylesheet[0] is one, one)
a, b = HTMLDependency("i", "1"), HTMLDependency("i", "1")
print("fresh defaults", a.script is not b.script, a.stylesheet is not b.stylesheet, a.meta is not b.meta)

# partially initialised object when validation fails part-way
for label, kw in [
    ("bad script", dict(script={"x": 1}, stylesheet={"href": "a"}, meta={"name": "n", "content": "c"})),
    ("bad stylesheet", dict(script={"src": "a"}, stylesheet={"x": "a"}, meta={"name": "n", "content": "c"})),
    ("bad meta", dict(script={"src": "a"}, stylesheet={"href": "a"}, meta={"name": "n"}, all_files=True, head="h")),
    ("bad head", dict(script={"src": "a"}, stylesheet={"href": "a"}, all_files=True, head=object())),
    ("bad source", dict(source={}, script={"src": "a"})),
]:
    obj = HTMLDependency.__new__(HTMLDependency)
    try:
        obj.__init__("p", "1", **kw)
    except Exception as e:  # noqa: BLE001
        print("partial", label, type(e).__name__, list(obj.__dict__.keys()))

# name / version variants used by the validation messages
show("version obj", lambda: state(HTMLDependency("v", htmltools._versions.Version("2.0"), script={"x": 1})))
show("bad version", lambda: state(HTMLDependency("v", "not a version", script={"x": 1})))
show("int name", lambda: state(HTMLDependency(5, "1", script={"x": 1})))
show("positional source", lambda: HTMLDependency("v", "1", {"href": "h"}))

# equality and copying use the instance dict
x = HTMLDependency("e", "1", script={"src": "a.js"}, head="h")
y = HTMLDependency("e", "1", script=[{"src": "a.js"}], head=HTML("h"))
z = HTMLDependency("e", "1", script=[{"src": "a.js"}], head="h2")
print("eq", x == y, x == z, x != y, x == "e")

# round trip through serialised JSON (HTMLTextDocument re-constructs via **args)
dep = HTMLDependency("rt", "3.1", source={"subdir": TMP}, script={"src": "a.js"}, stylesheet={"href": "a.css"}, meta={"name": "n", "content": "c"}, head="<!--h-->", all_files=False)
txt = "<html><head>PLACEHOLDER</head><body>" + str(dep.serialize_to_script_json()) + "</body></html>"
doc = HTMLTextDocument(txt, deps_replace_pattern="PLACEHOLDER")
r = doc.render(lib_prefix="zz")
show("roundtrip html", lambda: r["html"])
show("roundtrip state", lambda: [state(x) for x in r["dependencies"]])
bad = txt.replace('"src": "a.js"', '"nosrc": "a.js"')
show("roundtrip bad", lambda: HTMLTextDocument(bad, deps_replace_pattern="PLACEHOLDER"))

# head_content helper builds a dependency too
show("head_content", lambda: state(head_content(tags.title("t"), "x")))
show("head_content render", lambda: div(head_content("<raw>")).render()["dependencies"][0].head)

# subclass overriding the validation hook
class Lenient(HTMLDependency):
    def _validate_dicts(self, ld, req_attr):
        print("   validate", list(ld), req_attr)


show("lenient", lambda: state(Lenient("l", "1", script={"x": 1}, stylesheet=None, meta=[{"y": 2}])))
