# probe for refactoring 1: _render_react_js builds its output from a list of fragments
import copy
import os
import sys

from htmltools import HTML, HTMLDependency, Tag, TagList, div, head_content, span, svg, tags
from htmltools import _jsx
from htmltools._jsx import (
    JSXTag,
    JSXTagAttrDict,
    _render_react_js,
    _serialize_attr,
    _serialize_style_attr,
    _walk_attrs_and_children,
    jsx,
    jsx_tag_create,
)


def show(label, fn):
    try:
        res = fn()
        print(label, "=>", type(res).__name__, repr(res))
    except BaseException as e:  # noqa
        print(label, "=> EXC", type(e).__name__, repr(str(e)))


Foo = jsx_tag_create("Foo")
Bar = jsx_tag_create("Bar")
Lim = jsx_tag_create("Lim", allowedProps=["a", "b_c", "style"])
dep = HTMLDependency("mydep", "1.2.3", source={"subdir": "x"}, script={"src": "a.js"})
dep2 = HTMLDependency("other", "0.1", source={"subdir": "y"}, stylesheet={"href": "b.css"})


class TF:
    """Tagifiable that expands to a tag carrying a dependency."""

    def __init__(self, label):
        self.label = label
        self.calls = 0

    def tagify(self):
        self.calls += 1
        return span(self.label, dep2, class_="tf")

    def __str__(self):
        return f"TF<{self.label}>"


class TFList:
    def tagify(self):
        return TagList("a", dep, span("b"))


class TFJsx:
    def tagify(self):
        return Bar("inner", dep2, x=1)


class StrSub(str):
    pass


class Weird:
    def __str__(self):
        return 'we"ird'


def snapshot(x):
    """Deterministic structural dump of a component (for purity checks)."""
    if isinstance(x, JSXTag):
        return (
            "JSX",
            x.name,
            [(k, snapshot(v)) for k, v in x.attrs.items()],
            [snapshot(c) for c in x.children],
        )
    if isinstance(x, Tag):
        return (
            "Tag",
            x.name,
            sorted(x.attrs.items()),
            [snapshot(c) for c in x.children],
        )
    if isinstance(x, HTMLDependency):
        return ("Dep", x.name, str(x.version))
    if isinstance(x, (list, tuple)):
        return (type(x).__name__, [snapshot(y) for y in x])
    if isinstance(x, dict):
        return ("dict", [(k, snapshot(v)) for k, v in x.items()])
    if isinstance(x, TF):
        return ("TF", x.label)
    return (type(x).__name__, repr(x) if not hasattr(x, "tagify") else "tagifiable")


def deps_of(t):
    return [(d.name, str(d.version)) for d in t.get_dependencies()]


# ---------------------------------------------------------------- construction
def section_construction():
    print("## construction / attr dict")
    for nm in ["Foo", "foo", "a.B", "a.b", "A.b", "", ".", "A.", "_x", "1x", "É", "é", "ß"]:
        show(f"JSXTag({nm!r})", lambda nm=nm: snapshot(JSXTag(nm)))
    show("JSXTag(None)", lambda: JSXTag(None))
    show("JSXTag(5)", lambda: JSXTag(5))
    show("allowed ok", lambda: snapshot(Lim(a=1, b_c=2)))
    show("allowed bad", lambda: Lim(a=1, zz=2))
    show("allowed bad order", lambda: Lim(q=1, zz=2, a=3))
    show("allowed normalised name not allowed", lambda: Lim(**{"b-c": 1}))
    show("allowed empty list", lambda: snapshot(JSXTag("X", allowedProps=[], anything=1)))
    show("allowed None", lambda: snapshot(JSXTag("X", allowedProps=None, anything=1)))
    show("allowed tuple", lambda: JSXTag("X", allowedProps=("a",), b=1))
    show("allowed str", lambda: snapshot(JSXTag("X", allowedProps="abc", b=1)))
    show("allowed str bad", lambda: JSXTag("X", allowedProps="abc", d=1))
    show("bad name and bad prop", lambda: JSXTag("x", allowedProps=["a"], b=1))
    show("jsx_tag_create name", lambda: (Foo.__name__, Lim.__name__))

    keys = ["class_", "for_", "data_foo", "data_foo_", "_x", "__", "_", "", "a_b_c", "x__", "-", "a-b_"]
    for k in keys:
        show(f"normalize({k!r})", lambda k=k: JSXTagAttrDict._normalize_attr_name(k))
    show("normalize(StrSub)", lambda: JSXTagAttrDict._normalize_attr_name(StrSub("a_b_")))
    show("normalize(bytes)", lambda: JSXTagAttrDict._normalize_attr_name(b"a_"))
    show("normalize(None)", lambda: JSXTagAttrDict._normalize_attr_name(None))

    show("attrdict kwargs", lambda: list(JSXTagAttrDict(a_b=1, a_b_=2, c_=3, **{"a-b": 4}).items()))
    d = JSXTagAttrDict(x_y=1)
    show("attrdict update maps", lambda: (d.update({"x-y": 2, "z_": 3}, {"z": 4, "w_w": 5}, q_=6), list(d.items())))
    show("attrdict setitem", lambda: (d.__setitem__("new_key_", 9), d.__setitem__("x_y", 10), list(d.items())))
    show("attrdict update collide", lambda: (d.update({"k_": 1, "k": 2, "j": 0, "j_": 3}), list(d.items())))
    show("attrdict update nonstr key", lambda: d.update({1: 2}))
    show("attrdict after failed update", lambda: list(d.items()))
    show("attrdict update non-mapping", lambda: d.update([("a", 1)]))
    show("attrdict update empty", lambda: (d.update(), d.update({}), list(d.items())))
    show("attrdict type", lambda: type(Foo(a=1).attrs).__name__)

    x = Foo("a", span("b"), id_="i", my_prop=1)
    show("children/attrs", lambda: snapshot(x))
    x.append("c", "d")
    x.extend(["e", span("f")])
    x.attrs.update(more_=True)
    x.attrs["class_"] = "k"
    show("after append/extend", lambda: snapshot(x))
    y = copy.copy(x)
    y.append("only-in-copy")
    y.attrs["only"] = 1
    show("copy independent", lambda: (snapshot(x), snapshot(y)))
    show("nested list children", lambda: snapshot(Foo(["a", ["b", None, span("c")]], None, TagList("d"), 1, 2.5)))


# ---------------------------------------------------------------- serialisers
def section_serialize():
    print("## _serialize_attr / _serialize_style_attr")
    vals = [
        None, True, False, 0, 1, -3, 2.5, float("inf"), float("nan"), 1e100, 10**30, 1j,
        "", "plain", 'q"uote', "it's", "back\\slash", "new\nline", "tab\t", "é✓",
        jsx("() => 1"), jsx("a", "b"), jsx('"x"'), jsx("a") + jsx("b"), jsx("a") + "b", "a" + jsx("b"),
        StrSub('s"ub'), Weird(), HTML('<b>"x"</b>'), b"bytes", object, Ellipsis,
        [], (), [1, "a", None, True], (1, ("x", [False])), [jsx("f"), {"a": [1]}], range(3), {1, }, frozenset(),
        {}, {"a": 1}, {"a": {"b": [1, {"c": None}]}}, {1: 2, None: 3, True: False}, {'k"q': 'v"q'}, {"j": jsx("g()")},
        dep,
    ]
    for i, v in enumerate(vals):
        show(f"ser[{i}] {type(v).__name__}", lambda v=v: _serialize_attr(v))
    import collections

    show("ser OrderedDict", lambda: _serialize_attr(collections.OrderedDict([("b", 1), ("a", 2)])))
    show("ser defaultdict", lambda: _serialize_attr(collections.defaultdict(int, {"a": 1})))
    show("ser JSXTagAttrDict", lambda: _serialize_attr(JSXTagAttrDict(a_b=1)))
    show("ser Tag", lambda: _serialize_attr(div()))
    show("ser Tag full", lambda: _serialize_attr(div("a", span("b", id="s"), class_="c", style="color:red")))
    show("ser JSXTag", lambda: _serialize_attr(Bar()))
    show("ser JSXTag full", lambda: _serialize_attr(Bar("kid", Foo(z=None), a=[Bar()], style="x:y")))
    show("ser list of tags", lambda: _serialize_attr([div("x"), Bar(p=div())]))
    show("ser dict of tags", lambda: _serialize_attr({"t": div("x"), "u": {"v": Bar()}}))
    show("ser tag with dep child", lambda: _serialize_attr(div(dep, "t")))
    show("ser tag with TagList", lambda: _serialize_attr(TagList("a")))
    show("ser tagifiable", lambda: _serialize_attr(TF("q")))
    show("ser tag untagified child", lambda: _serialize_attr(div(TF("q"))))
    show("ser tag HTML child", lambda: _serialize_attr(div(HTML("<i>"))))

    styles = [
        None, "", "color:red", "color:red;", "color: red; margin : 0", ";;", "nocolon", "a:b;nocolon;c:d",
        "a:b:c", "a:", ":b", ":", "a:b;a:c", " a : b ", "url:http://x", {}, {"color": "red"}, {"a": 1, "b": None, "c": [1]},
        {"a": jsx("x")}, 5, 1.5, True, [], [("a", "b")], ("a:b",), jsx("a:b"), StrSub("a:b;c:d"), HTML("a:b"), b"a:b",
        {"n": {"m": "k"}}, div(), "a\n:b;\nc:d",
    ]
    for i, v in enumerate(styles):
        show(f"style[{i}] {type(v).__name__}", lambda v=v: _serialize_style_attr(v))


# ---------------------------------------------------------------- renderer
def section_render():
    print("## _render_react_js")
    show("str", lambda: _render_react_js("abc", 0, "\n"))
    show("str indent", lambda: _render_react_js('a"b"', 3, "\n"))
    show("str empty", lambda: _render_react_js("", 1, "\n"))
    show("str backslash", lambda: _render_react_js("a\\b\nc", 1, "\n"))
    show("jsx str", lambda: _render_react_js(jsx('x"y'), 1, "\n"))
    show("StrSub", lambda: _render_react_js(StrSub('x"y'), 1, "\n"))
    show("dep", lambda: _render_react_js(dep, 2, "\n"))
    show("None", lambda: _render_react_js(None, 0, "\n"))
    show("int", lambda: _render_react_js(3, 0, "\n"))
    show("HTML", lambda: _render_react_js(HTML("x"), 0, "\n"))
    show("TagList", lambda: _render_react_js(TagList("x"), 0, "\n"))
    show("TF", lambda: _render_react_js(TF("a"), 0, "\n"))
    for ind in (0, 1, 4):
        for eol in ("\n", "", " ", "\r\n"):
            show(
                f"tree ind={ind} eol={eol!r}",
                lambda ind=ind, eol=eol: _render_react_js(
                    Foo("t", div("u", Bar(), dep, id="d"), dep, Bar(k=1), "", x=1, style="a:b", y_z=[div()]),
                    ind,
                    eol,
                ),
            )
    show("empty tag", lambda: _render_react_js(div(), 1, "\n"))
    show("empty jsx", lambda: _render_react_js(Foo(), 1, "\n"))
    show("dotted jsx", lambda: _render_react_js(JSXTag("Lib.Comp", "a"), 0, "\n"))
    show("attrs only tag", lambda: _render_react_js(div(id="a", class_="b c"), 0, "\n"))
    show("attrs only jsx", lambda: _render_react_js(Foo(a=None, b=True), 0, "\n"))
    show("children only", lambda: _render_react_js(Foo("a", "b"), 0, "\n"))
    show("only metadata child", lambda: _render_react_js(Foo(dep), 0, "\n"))
    show("only metadata children tag", lambda: _render_react_js(div(dep, dep2), 1, "\n"))
    show("only empty str child", lambda: _render_react_js(Foo(""), 0, "\n"))
    show("metadata between", lambda: _render_react_js(Foo("a", dep, "b", dep2), 0, "\n"))
    show("style none", lambda: _render_react_js(Foo(style=None), 0, "\n"))
    show("style bad", lambda: _render_react_js(Foo(a=1, style=5, b=2), 0, "\n"))
    show("style bad css", lambda: _render_react_js(Foo(style="a:b:c"), 0, "\n"))
    show("style on tag", lambda: _render_react_js(div(style="color:red;margin:0"), 0, "\n"))
    show("style on tag with html", lambda: _render_react_js(div(style=HTML("color:red")), 0, "\n"))
    show("tag attr HTML", lambda: _render_react_js(div(title=HTML('a"b')), 0, "\n"))
    show("Style key case", lambda: _render_react_js(Foo(Style="a:b", STYLE=1), 0, "\n"))
    show("key with quote", lambda: _render_react_js(Foo(**{'a"b': 1}), 0, "\n"))
    show("bad child after attrs", lambda: _render_react_js(Foo("ok", 5, a=1), 0, "\n"))
    show("bad child before bad style", lambda: _render_react_js(Foo(TF("x"), style=5), 0, "\n"))
    show("attr bad nested", lambda: _render_react_js(Foo(a=div(TF("x"))), 0, "\n"))
    show("many attrs", lambda: _render_react_js(Foo(**{f"k{i}": i for i in range(6)}), 0, "\n"))
    show("one attr", lambda: _render_react_js(Foo(k=1), 0, "\n"))
    show("svg tag", lambda: _render_react_js(svg.svg(svg.circle(r="1")), 0, "\n"))
    deep = "leaf"
    for i in range(30):
        deep = Foo(deep, i=i) if i % 2 else div(deep, id=str(i))
    show("deep", lambda: _render_react_js(deep, 0, "\n"))


# ---------------------------------------------------------------- tagify / walk
def section_tagify():
    print("## tagify / walk")

    def full(make):
        x = make()
        before = snapshot(x)
        t = x.tagify()
        out = str(t)
        again = str(x)
        rep = repr(x)
        html = x._repr_html_()
        after = snapshot(x)
        return {
            "script": out,
            "same_str": out == again == rep == html,
            "pure": before == after,
            "tagname": t.name,
            "attrs": sorted(t.attrs.items()),
            "nchildren": len(t.children),
            "child_types": [type(c).__name__ for c in t.children],
            "deps": deps_of(t),
        }

    cases = {
        "empty": lambda: Foo(),
        "dotted": lambda: JSXTag("My.Comp"),
        "name quote": lambda: JSXTag('A"b\'c'),
        "strings": lambda: Foo("a", 'b"c', "", "d'e"),
        "props": lambda: Foo(n=None, t=True, f=False, i=3, fl=1.5, s="x", l=[1, (2, "3")], d={"a": {"b": None}}, j=jsx("() => 1")),
        "style props": lambda: Foo(style="color:red; margin:0"),
        "nested": lambda: Foo(Bar("x", Foo()), div(Bar(), "y", id="q"), span()),
        "deps children": lambda: Foo(dep, "x", div(dep2, Bar(dep)), dep),
        "deps props": lambda: Foo(a=div(dep, "x"), b=Bar(dep2), c=dep),
        "deps in list prop": lambda: Foo(a=[div(dep)], b={"k": Bar(dep2)}),
        "tagifiable child": lambda: Foo(TF("one"), div(TF("two"))),
        "tagifiable prop": lambda: Foo(p=TF("three")),
        "tagifiable in tag prop": lambda: Foo(p=div(TF("four"), dep)),
        "tagifiable -> jsx": lambda: Foo(TFJsx()),
        "tagifiable -> jsx in prop": lambda: Foo(p=TFJsx()),
        "tagifiable -> taglist": lambda: Foo(TFList()),
        "head_content": lambda: Foo(head_content(tags.title("T")), "x"),
        "HTML child": lambda: Foo(HTML("<b>")),
        "HTML in tag child": lambda: Foo(div(HTML("<b>"))),
        "number children": lambda: Foo(1, 2.5, None),
        "bad style": lambda: Foo(style=3),
        "normalised names": lambda: Foo(class_="a", data_x_y=1, for_="z"),
        "appended": lambda: (lambda x: (x.append("b", Bar()), x.extend(["c", dep]), x.attrs.update(k_=1), x)[-1])(Foo("a")),
        "script child tag": lambda: Foo(tags.script("var x = 1;")),
        "jsx child": lambda: Foo(jsx("`expr`")),
    }
    for label, make in cases.items():
        show(f"tagify[{label}]", lambda make=make: full(make))

    # tagifiable descendants get tagified exactly once; original untouched
    tf = TF("cnt")
    x = Foo(tf, p=tf)
    show("tagify calls", lambda: (str(x) is not None, tf.calls, snapshot(x)))

    # shared substructure is not mutated
    shared = div("s", TF("in-shared"), dep)
    x = Foo(shared, Bar(shared, q=shared), p=shared)
    b = snapshot(shared)
    show("shared", lambda: (len(str(x)), snapshot(shared) == b, [type(c).__name__ for c in shared.children]))

    # inside ordinary tags / documents
    show("in div str", lambda: str(div(Foo("a"), Bar(dep))))
    show("in div render", lambda: (lambda r: (r["html"], [d.name for d in r["dependencies"]]))(div(Foo(dep, "a"), Bar()).render()))
    show("taglist deps", lambda: [d.name for d in TagList(Foo(a=div(dep2)), dep).get_dependencies()])

    # walk helper directly
    seen = []

    def fn(v):
        seen.append(type(v).__name__)
        return copy.copy(v)

    src = Foo("a", div("b", Bar("c", z=1), dep), TF("t"), k=div("d"), l=[div("not walked")], m=None)
    out = _walk_attrs_and_children(src, fn)
    show("walk order", lambda: seen)
    show("walk result", lambda: (out is src, snapshot(out) == snapshot(src), out.children[1] is src.children[1]))
    show("walk scalar", lambda: _walk_attrs_and_children(5, lambda v: v))
    show("walk fn replaces", lambda: snapshot(_walk_attrs_and_children(div("a", span("b")), lambda v: v.upper() if isinstance(v, str) else copy.copy(v))))
    show("walk fn raises", lambda: _walk_attrs_and_children(Foo("a"), lambda v: 1 / 0))

    # react deps exist on disk
    t = Foo().tagify()
    for d in t.get_dependencies():
        base = os.path.join(os.path.dirname(_jsx.__file__), d.source["subdir"])
        show(f"dep file {d.name}", lambda d=d, base=base: [(s["src"], os.path.isfile(os.path.join(base, s["src"]))) for s in d.script])
    show("lib_dependency bad", lambda: _jsx._lib_dependency("nope", {"src": "x.js"}))


SECTIONS = {
    "construction": section_construction,
    "serialize": section_serialize,
    "render": section_render,
    "tagify": section_tagify,
}


if __name__ == "__main__":
    for name in ["render", "serialize", "tagify", "construction"]:
        SECTIONS[name]()
