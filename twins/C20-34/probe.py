"""Deterministic probe for the JSX component code (htmltools/_jsx.py).

Prints repr of results / exception type+message for a spread of inputs.
"""
from __future__ import annotations

import collections
import copy
import inspect

from htmltools import HTMLDependency, TagList, div, span, tags, HTML
from htmltools import _jsx
from htmltools._jsx import (
    JSXTag,
    JSXTagAttrDict,
    _serialize_attr,
    _serialize_style_attr,
    _render_react_js,
    jsx,
    jsx_tag_create,
)


def show(label, fn):
    try:
        r = fn()
        print(label, "->", repr(r))
    except BaseException as e:  # noqa: BLE001
        print(label, "!!", type(e).__name__, str(e))


# ---------------------------------------------------------------- _serialize_attr
class Weird:
    def __str__(self):
        return 'we"ird'


class StrSub(str):
    pass


class IntSub(int):
    pass


class ListSub(list):
    pass


NT = collections.namedtuple("NT", "a b")
Foo = jsx_tag_create("Foo")
Bar = jsx_tag_create("a.b.Bar")

values = [
    None, True, False, 0, 1, -3, 2.5, float("inf"), float("nan"), 1e100, 10**30,
    "", "plain", 'q"uote', "back\\slash", "new\nline", "'single'", StrSub('s"ub'),
    jsx("x => x"), jsx("a", "b"), jsx('"q"') + jsx("z"), jsx("a") + "b",
    [], (), {}, [1, "a", None], (True, [2, (3,)]), ListSub([1, 2]), NT(1, "x"),
    {"a": 1, "b": [1, {"c": None}]}, {1: 2, None: 3, (1, 2): "t"},
    collections.OrderedDict([("z", 1), ("a", jsx("f()"))]),
    collections.defaultdict(list, {"k": [1]}),
    JSXTagAttrDict(a_b=1, class_="c"),
    IntSub(7), Weird(), b"bytes", 3 + 4j, {1, }, frozenset(), range(3), object,
    div(), div("x", id="i"), span(div('a"b'), class_="k"),
    Foo(), Foo("c", p=1), Bar(Foo(), x=[div()]), [Foo(), div()], {"t": Foo(1 and "k")},
    TagList("a"), HTML("<b>"),
]
for i, v in enumerate(values):
    show(f"ser[{i}]", lambda v=v: _serialize_attr(v))
    show(f"style[{i}]", lambda v=v: _serialize_style_attr(v))

show("ser nested deep", lambda: _serialize_attr([[[[[["x", {"y": [(1, 2.0, False)]}]]]]]]))
show("ser gen", lambda: _serialize_attr(x for x in [1])[:18])
show("render str", lambda: _render_react_js('a"b', 1, "\n"))
show("render strsub", lambda: _render_react_js(StrSub('a"b\\'), 0, "\n"))
show("render bad", lambda: _render_react_js(3, 0, "\n"))  # type: ignore
show("render dep", lambda: _render_react_js(HTMLDependency("a", "1.0"), 0, "\n"))

# ---------------------------------------------------------------- JSXTagAttrDict
d = JSXTagAttrDict()
show("ad empty", lambda: (d, type(d).__name__))
show("ad init", lambda: JSXTagAttrDict(class_="a", data_x=1, _lead=2, a__b=3, x_=4, x=5))
show("ad init dup order", lambda: list(JSXTagAttrDict(a_=1, b=2, a=3).items()))
d = JSXTagAttrDict(a=1)
show("ad setitem", lambda: (d.__setitem__("foo_bar_", 2), d)[1])
d["a_"] = 9
d["_"] = 0
d[""] = "e"
d["__"] = "uu"
show("ad after sets", lambda: list(d.items()))
show("ad setitem nonstr", lambda: d.__setitem__(1, 2))
show("ad setitem bytes", lambda: d.__setitem__(b"x_", 2))
show("ad unchanged", lambda: list(d.items()))
show("ad update ret", lambda: d.update({"k_1": 1}, {"k-1": 2, "z_": 3}, z=4, new_key_=5))
show("ad after update", lambda: list(d.items()))
show("ad update none", lambda: (d.update(), list(d.items()))[1])
show("ad update empty", lambda: (d.update({}, {}), list(d.items()))[1])
show("ad update od", lambda: (d.update(collections.OrderedDict([("o_o", 1), ("a", "first")])), list(d.items()))[1])
show("ad update attrdict", lambda: (d.update(JSXTagAttrDict(q_r=1)), list(d.items()))[1])
d2 = JSXTagAttrDict(keep=1)
show("ad update bad 2nd", lambda: d2.update({"ok_1": 1}, {"fine_": 2, 3: 4}, later=5))
show("ad after bad", lambda: list(d2.items()))
show("ad update bad type", lambda: d2.update([("a", 1)]))  # type: ignore
show("ad update None", lambda: d2.update(None))  # type: ignore
show("ad update str", lambda: d2.update("ab"))  # type: ignore
show("ad after bad2", lambda: list(d2.items()))
show("ad _update", lambda: (d2._update({"p_q": 1, "p-q": 2, "p_q_": 3}), list(d2.items()))[1])
show("ad _update bad", lambda: d2._update({"g_": 1, None: 2}))
show("ad after bad3", lambda: list(d2.items()))
show("ad norm", lambda: [JSXTagAttrDict._normalize_attr_name(s) for s in ["", "_", "__", "a_", "_a", "a_b_c_", "a-b_"]])
show("ad dict methods", lambda: (d2.get("p-q"), "p_q" in d2, "p-q" in d2, d2.setdefault("s_t", 1), list(d2)))
show("ad copy", lambda: (type(copy.copy(d2)).__name__, copy.copy(d2) == d2))


class Rec(JSXTagAttrDict):
    def _normalize_attr_name(self, x):  # type: ignore
        return "n:" + x


show("ad subclass", lambda: (lambda r: (r.update({"b": 2}, c=3), r.__setitem__("d", 4), list(r.items()))[2])(Rec(a=1)))

# ---------------------------------------------------------------- JSXTag.__init__
show("ctor plain", lambda: (lambda t: (t.name, t.attrs, list(t.children), list(t.__dict__)))(JSXTag("Foo", "a", div(), x_y=1, class_="c")))
for nm in ["foo", "Foo", "a.b", "a.B", "A.b", "", ".", "A.", "_x", "1x", "éa", "Éa", "ß", "a.b.C.d", "x..Y"]:
    show(f"ctor name {nm!r}", lambda nm=nm: JSXTag(nm).name)
show("ctor name nonstr", lambda: JSXTag(3))  # type: ignore
show("ctor name None", lambda: JSXTag(None))  # type: ignore
show("ctor no name", lambda: JSXTag())  # type: ignore
show("ctor allow ok", lambda: JSXTag("Foo", allowedProps=["a", "b_c"], a=1, b_c=2).attrs)
show("ctor allow bad", lambda: JSXTag("Foo", allowedProps=["a", "b_c"], a=1, b_c=2, d=3, e=4))
show("ctor allow norm", lambda: JSXTag("Foo", allowedProps=["b-c"], b_c=2))
show("ctor allow trailing", lambda: JSXTag("Foo", allowedProps=["class"], class_=2))
show("ctor allow empty list", lambda: JSXTag("Foo", allowedProps=[], zz=2).attrs)
show("ctor allow None", lambda: JSXTag("Foo", allowedProps=None, zz=2).attrs)
show("ctor allow tuple", lambda: JSXTag("Foo", allowedProps=("zz",), zz=2).attrs)
show("ctor allow set", lambda: JSXTag("Foo", allowedProps={"zz"}, zz=2, y=1))
show("ctor allow str", lambda: JSXTag("Foo", allowedProps="abc", ab=2, bc=1).attrs)
show("ctor allow str bad", lambda: JSXTag("Foo", allowedProps="abc", ac=2))
show("ctor allow dict", lambda: JSXTag("Foo", allowedProps={"k": 0}, k=2, j=1))
show("ctor allow int", lambda: JSXTag("Foo", allowedProps=5, k=2))  # type: ignore
show("ctor allow int nokw", lambda: JSXTag("Foo", allowedProps=5).attrs)  # type: ignore
show("ctor allow no kwargs", lambda: JSXTag("Foo", "c", allowedProps=["a"]).attrs)
show("ctor bad name + bad prop", lambda: JSXTag("foo", allowedProps=["a"], b=1))
show("ctor bad prop + bad child", lambda: JSXTag("Foo", object(), allowedProps=["a"], b=1))
show("ctor bad child", lambda: JSXTag("Foo", object()))
show("ctor bad name + bad child", lambda: JSXTag("foo", object()))
show("ctor children flatten", lambda: list(JSXTag("Foo", ["a", ["b", None]], None, TagList("c"), 1, 2.5).children))
show("ctor attrs any", lambda: JSXTag("Foo", a=None, b=[1], c={"x": 1}, d=div(), e=object).attrs)
t = JSXTag("Foo", x=1)
show("ctor attr types", lambda: (type(t.attrs).__name__, type(t.children).__name__))
shared = {"k_v": 1}
t = JSXTag("Foo", **shared)
t.attrs["zz"] = 1
show("ctor kwargs not aliased", lambda: shared)
lst = ["a"]
t = JSXTag("Foo", lst)
t.append("b")
show("ctor child list not aliased", lambda: lst)
show("ctor sig", lambda: str(inspect.signature(JSXTag.__init__)))

# ---------------------------------------------------------------- jsx_tag_create
allow = ["a", "b_c"]
F = jsx_tag_create("Ns.Comp", allow)
show("factory name", lambda: (F.__name__, F.__qualname__, type(F).__name__, F.__module__))
show("factory sig", lambda: str(inspect.signature(F)))
show("factory ok", lambda: (lambda t: (t.name, t.attrs, list(t.children)))(F("c1", div(), a=1, b_c=2)))
show("factory bad", lambda: F(d=1))
show("factory norm rejected", lambda: F(**{"b-c": 1}))
allow.append("d")
show("factory list mutated", lambda: F(d=1).attrs)
allow.clear()
show("factory list cleared", lambda: F(anything=1).attrs)
allow.append("only")
show("factory list refilled", lambda: F(anything=1))
show("factory dup allowedProps", lambda: F(allowedProps=["x"]))
show("factory dup _name", lambda: F(_name="X"))
show("factory name kw", lambda: F(name="X"))
show("factory lower", lambda: jsx_tag_create("lower").__name__)
show("factory lower call", lambda: jsx_tag_create("lower")())
show("factory nonstr name", lambda: jsx_tag_create(3))  # type: ignore
show("factory no allow", lambda: jsx_tag_create("Q")(z=1, class_="k").attrs)
show("factory empty allow", lambda: jsx_tag_create("Q", [])(z=1).attrs)
show("factory tuple allow", lambda: jsx_tag_create("Q", ("z",))(z=1, y=2))  # type: ignore
show("factory kw allow", lambda: jsx_tag_create(name="Q", allowedProps=["z"])(z=1).attrs)
show("factory distinct", lambda: (jsx_tag_create("A")() is not jsx_tag_create("A")(), jsx_tag_create("A") is not jsx_tag_create("A")))
G = jsx_tag_create("G", ["p"])
H = jsx_tag_create("H", ["q"])
show("factory independent", lambda: (G(p=1).attrs, H(q=1).attrs))
show("factory independent bad", lambda: G(q=1))
show("factory outer sig", lambda: str(inspect.signature(jsx_tag_create)))

# ---------------------------------------------------------------- end to end
dep = HTMLDependency("dep", "1.0", source={"subdir": "x"}, script={"src": "d.js"})
dep2 = HTMLDependency("dep2", "2.0", source={"subdir": "y"}, script={"src": "e.js"})
C = jsx_tag_create("C")
comp = C(
    "te\"xt",
    div("in", dep, C("deep", k=None)),
    [C(), "s"],
    dep2,
    num=1, flt=1.5, yes=True, no=False, nothing=None, s='q"', lst=[1, (2, "x")],
    dct={"a": {"b": jsx("c")}}, fn=jsx("() => 1"), tag=span("t", dep), comp=C(x=dep2),
    style="color: red; margin:0", class_name_="k", data_x="v",
)
comp.append("late", C("later"))
comp.extend(["ext", div()])
comp.attrs["set_later_"] = [div(), None]
comp.attrs.update({"upd_1": 1}, upd_2=2)
before = (repr(comp.attrs.keys()), len(comp.children), [type(c).__name__ for c in comp.children])
out = comp.tagify()
show("e2e str", lambda: str(out))
show("e2e str again", lambda: str(comp) == str(out))
show("e2e unchanged", lambda: before == (repr(comp.attrs.keys()), len(comp.children), [type(c).__name__ for c in comp.children]))
show("e2e deps", lambda: [(d.name, str(d.version)) for d in out.get_dependencies()] if hasattr(out, "get_dependencies") else None)
show("e2e taglist deps", lambda: [(d.name, str(d.version)) for d in TagList(comp).get_dependencies()])
show("e2e render", lambda: TagList(div(comp)).render()["html"])
show("e2e style dict", lambda: str(C(style={"a": 1})))
show("e2e style bad", lambda: str(C(style=3)))
show("e2e style none", lambda: str(C(style=None)))
show("e2e copy", lambda: (lambda c: (c.attrs == comp.attrs, c.attrs is not comp.attrs, c.children is not comp.children))(copy.copy(comp)))
show("e2e repr", lambda: repr(C("x")) == C("x")._repr_html_())
show("e2e weird child attr", lambda: str(C(a=[Weird()])))
