"""Probe for wrap_displayhook_handler (directly and via the Tag context manager)."""
import sys
from htmltools import HTML, Tag, TagList, HTMLDependency, div, span, tags, wrap_displayhook_handler

LOG = []


def show(label, fn):
    try:
        out = fn()
        print(label, "=>", type(out).__name__, repr(out))
    except BaseException as e:  # noqa
        print(label, "=> EXC", type(e).__name__)


class Repr:
    def __init__(self, s):
        self.s = s

    def _repr_html_(self):
        LOG.append("repr_html called")
        return self.s

    def __repr__(self):
        return "Repr(%r)" % self.s


class ReprRaises:
    def _repr_html_(self):
        raise LookupError("no html")

    def __repr__(self):
        return "ReprRaises()"


class ReprNonStr:
    def _repr_html_(self):
        return 42

    def __repr__(self):
        return "ReprNonStr()"


class ReprAndTagify:
    def _repr_html_(self):
        LOG.append("WRONG: repr_html called")
        return "<wrong>"

    def tagify(self):
        return span("<tagified&>")

    def __repr__(self):
        return "ReprAndTagify()"


class Tagif:
    def tagify(self):
        return div(HTML("<t>"), "<t>")

    def __repr__(self):
        return "Tagif()"


class EqRaises:
    def __eq__(self, other):
        raise ArithmeticError("eq")

    def __repr__(self):
        return "EqRaises()"


class EqAlways:
    def __eq__(self, other):
        LOG.append("eq asked")
        return True

    __hash__ = None

    def __repr__(self):
        return "EqAlways()"


class ReprAttrNotCallable:
    _repr_html_ = "<not callable>"

    def __repr__(self):
        return "ReprAttrNotCallable()"


dep = HTMLDependency("d", "1.0", source={"subdir": "x"}, script={"src": "a.js"})

VALUES = [
    None, ..., 0, False, "", "<s&>", HTML("<h&>"), HTML(""), 1.5, b"<b>", [], ["<l>"], (None,), {},
    div("<d>"), TagList("<tl>", HTML("<tl>")), TagList(), tags.script("a<b"), dep,
    Repr("<r&>"), Repr(""), Repr("&lt;"), ReprRaises(), ReprNonStr(), ReprAndTagify(), Tagif(),
    EqRaises(), EqAlways(), ReprAttrNotCallable(), NotImplemented, float("nan"), Ellipsis, type(None), Repr,
]


def describe(x):
    return (type(x).__name__, repr(x), repr(str(x)) if isinstance(x, HTML) else None)


# 1. direct use with a recording handler
for i, v in enumerate(VALUES):
    got = []
    del LOG[:]
    w = wrap_displayhook_handler(got.append)
    show(f"direct {i} {v!r}: returns", lambda: w(v))
    print("   received:", [describe(x) for x in got], "same object:", [x is v for x in got], "log:", LOG)

# 2. handler that raises / returns a value
def raising(x):
    raise OSError("handler")


def returning(x):
    return "ret<%r>" % (x,)


for i, v in enumerate(VALUES):
    show(f"raising {i}", lambda: wrap_displayhook_handler(raising)(v))
    show(f"returning {i}", lambda: wrap_displayhook_handler(returning)(v))

# 3. each wrap makes an independent function; non-callable handler only fails when used
w1 = wrap_displayhook_handler(print)
w2 = wrap_displayhook_handler(print)
print("independent", w1 is w2, w1.__name__, w2.__name__)
show("bad handler none-value", lambda: wrap_displayhook_handler(None)(None))
show("bad handler ellipsis", lambda: wrap_displayhook_handler(None)(...))
show("bad handler str", lambda: wrap_displayhook_handler(None)("x"))
show("bad handler repr", lambda: wrap_displayhook_handler(None)(Repr("x")))
show("bad handler tag", lambda: wrap_displayhook_handler(None)(div()))
show("no args", lambda: wrap_displayhook_handler(print)())

# 4. via the context manager: the values end up as children and are rendered
for i, v in enumerate(VALUES):
    def run():
        shown = []
        old = sys.displayhook
        sys.displayhook = shown.append
        try:
            d = div(id="ctx")
            with d:
                sys.displayhook("<first&>")
                sys.displayhook(v)
                sys.displayhook(HTML("<last&>"))
        finally:
            sys.displayhook = old
        return (str(d), len(shown), shown[0] is d if shown else None)

    show(f"ctx {i} {v!r}", run)

for nm in ("script", "style", "span", "p"):
    def run2():
        old = sys.displayhook
        sys.displayhook = lambda x: None
        try:
            t = Tag(nm)
            with t:
                sys.displayhook(Repr("<r&>"))
                sys.displayhook("<s&>")
                sys.displayhook(None)
                with span():
                    sys.displayhook(Repr("<inner&>"))
                    sys.displayhook(...)
        finally:
            sys.displayhook = old
        return str(t)

    show(f"ctx nested {nm}", run2)
