"""Probe for HTMLDependency.copy_to and save_html() copying."""
import hashlib
import os
import re
import shutil
import tempfile
import urllib.parse

import htmltools
from htmltools import HTMLDependency, HTMLDocument, TagList, div, tags

PKG_DIR = os.path.dirname(htmltools.__file__)
TMP = os.path.realpath(tempfile.mkdtemp())


def norm(s):
    return str(s).replace(PKG_DIR, "<PKG>").replace(TMP, "<TMP>")


def show(label, fn):
    try:
        out = fn()
        print(label, "->", norm(repr(out)))
    except BaseException as e:  # noqa: BLE001
        print(label, "-> EXC", type(e).__name__, norm(e))


def tree(root):
    """Deterministic listing of a directory tree with content hashes."""
    if not os.path.lexists(root):
        return "<absent>"
    if not os.path.isdir(root):
        return "<file:" + hashlib.sha1(open(root, "rb").read()).hexdigest()[:10] + ">"
    out = []
    for dirpath, dirnames, filenames in os.walk(root):
        dirnames.sort()
        rel = os.path.relpath(dirpath, root)
        out.append(("D", rel))
        for fn in sorted(filenames):
            full = os.path.join(dirpath, fn)
            if os.path.isfile(full):
                data = open(full, "rb").read()
                out.append(("F", os.path.join(rel, fn), hashlib.sha1(data).hexdigest()[:10], os.stat(full).st_mtime_ns == 1_500_000_000_000_000_000))
            else:
                out.append(("?", os.path.join(rel, fn)))
    return out


def write(path, data):
    os.makedirs(os.path.dirname(path), exist_ok=True)
    with open(path, "wb") as f:
        f.write(data)
    os.utime(path, ns=(1_500_000_000_000_000_000, 1_500_000_000_000_000_000))


# ---------------------------------------------------------------- source trees
SRC = os.path.join(TMP, "src")
write(os.path.join(SRC, "a.js"), b"alert('a')\n")
write(os.path.join(SRC, "a b.js"), b"space\x00\xff")
write(os.path.join(SRC, "s.css"), b"body{}")
write(os.path.join(SRC, "sub", "deep", "x.js"), b"deep")
write(os.path.join(SRC, "sub", "y.css"), b"y")
write(os.path.join(SRC, ".hidden"), b"h")
write(os.path.join(SRC, "unlisted.txt"), b"unlisted")
os.makedirs(os.path.join(SRC, "emptydir"))
os.symlink("a.js", os.path.join(SRC, "link.js"))
EMPTY = os.path.join(TMP, "emptysrc")
os.makedirs(EMPTY)
write(os.path.join(TMP, "outside.js"), b"outside")
FIFO = os.path.join(TMP, "fifosrc")
os.makedirs(FIFO)
write(os.path.join(FIFO, "r.js"), b"r")
try:
    os.mkfifo(os.path.join(FIFO, "pipe"))
except (AttributeError, OSError):
    pass

counter = [0]


def fresh(stale=False):
    counter[0] += 1
    d = os.path.join(TMP, f"out{counter[0]}")
    os.makedirs(d)
    return d


def run(label, dep, include_version=True, pre=None, kwargs_style="kw"):
    out = fresh()
    if pre:
        pre(out)
    before = tree(out)
    print("==", label)
    if kwargs_style == "kw":
        show("  copy_to", lambda: dep.copy_to(out, include_version=include_version))
    elif kwargs_style == "pos":
        show("  copy_to", lambda: dep.copy_to(out, include_version))
    else:
        show("  copy_to", lambda: dep.copy_to(out))
    after = tree(out)
    print("  changed:", before != after)
    print("  tree:", norm(repr(after)))


def stale(name):
    def pre(out):
        write(os.path.join(out, name, "old.txt"), b"stale")
        write(os.path.join(out, name, "sub", "old2.txt"), b"stale2")
        write(os.path.join(out, "other-9", "keep.txt"), b"keep")

    return pre


local = {"subdir": SRC}
listed = dict(
    script=[{"src": "a.js"}, {"src": "a b.js"}, {"src": "sub/deep/x.js"}],
    stylesheet=[{"href": "s.css"}, {"href": "sub/y.css"}],
)

run("listed", HTMLDependency("d", "1.0", source=local, **listed))
run("listed default-arg", HTMLDependency("d", "1.0", source=local, **listed), kwargs_style="none")
run("listed positional False", HTMLDependency("d", "1.0", source=local, **listed), False, kwargs_style="pos")
run("listed noversion", HTMLDependency("d", "1.0", source=local, **listed), False)
run("listed stale", HTMLDependency("d", "1.0", source=local, **listed), pre=stale("d-1.0"))
run("listed stale noversion", HTMLDependency("d", "1.0", source=local, **listed), False, pre=stale("d"))
run("all_files", HTMLDependency("d", "1.0", source=local, all_files=True))
run("all_files+listed", HTMLDependency("d", "1.0", source=local, all_files=True, **listed))
run("all_files stale", HTMLDependency("d", "1.0", source=local, all_files=True), pre=stale("d-1.0"))
run("all_files empty src", HTMLDependency("d", "1.0", source={"subdir": EMPTY}, all_files=True), pre=stale("d-1.0"))
run("all_files missing src dir", HTMLDependency("d", "1.0", source={"subdir": os.path.join(TMP, "nope")}, all_files=True), pre=stale("d-1.0"))
run("all_files listed-missing ignored", HTMLDependency("d", "1.0", source=local, all_files=True, script={"src": "zzz.js"}))
run("all_files fifo", HTMLDependency("d", "1.0", source={"subdir": FIFO}, all_files=True))
run("nothing listed", HTMLDependency("d", "1.0", source=local), pre=stale("d-1.0"))
run("missing script", HTMLDependency("d", "1.0", source=local, script=[{"src": "a.js"}, {"src": "nope.js"}], stylesheet={"href": "s.css"}), pre=stale("d-1.0"))
run("missing stylesheet", HTMLDependency("d", "1.0", source=local, script=[{"src": "a.js"}], stylesheet={"href": "nope.css"}), pre=stale("d-1.0"))
run("missing first of two", HTMLDependency("d", "1.0", source=local, script=[{"src": "nope1.js"}, {"src": "nope2.js"}]))
run("missing src dir listed", HTMLDependency("d", "1.0", source={"subdir": os.path.join(TMP, "nope")}, script={"src": "a.js"}), pre=stale("d-1.0"))
run("url source", HTMLDependency("d", "1.0", source={"href": "https://x/y"}, script={"src": "a.js"}), pre=stale("d-1.0"))
run("no source", HTMLDependency("d", "1.0", script={"src": "a.js"}, all_files=True), pre=stale("d-1.0"))
run("package source", HTMLDependency("td", "0.1", source={"package": "htmltools", "subdir": "libtest/testdep"}, script={"src": "testdep.js"}, stylesheet={"href": "testdep.css"}))
run("package all_files", HTMLDependency("td", "0.1", source={"package": "htmltools", "subdir": "libtest"}, all_files=True))
run("package missing", HTMLDependency("td", "0.1", source={"package": "no_such_pkg_zz", "subdir": "x"}, script={"src": "a.js"}))
run("dir listed", HTMLDependency("d", "1.0", source=local, script={"src": "sub"}))
run("dir listed twice", HTMLDependency("d", "1.0", source=local, script={"src": "sub"}, stylesheet={"href": "sub"}))
run("file listed twice", HTMLDependency("d", "1.0", source=local, script=[{"src": "a.js"}, {"src": "a.js"}], stylesheet={"href": "a.js"}))
run("empty name listed", HTMLDependency("d", "1.0", source=local, script={"src": ""}))
run("dotdot listed", HTMLDependency("d", "1.0", source=local, script={"src": "../outside.js"}))
run("abs listed", HTMLDependency("d", "1.0", source=local, script={"src": os.path.join(TMP, "outside.js")}))
run("symlink listed", HTMLDependency("d", "1.0", source=local, script={"src": "link.js"}))
run("hidden listed", HTMLDependency("d", "1.0", source=local, stylesheet={"href": ".hidden"}))
run("weird name/version", HTMLDependency("na me/x", "2.0.1rc1", source=local, script={"src": "a.js"}))


def target_is_file(out):
    write(os.path.join(out, "d-1.0"), b"i am a file")


run("target is file", HTMLDependency("d", "1.0", source=local, script={"src": "a.js"}), pre=target_is_file)
run("target is file but missing src", HTMLDependency("d", "1.0", source=local, script={"src": "nope.js"}), pre=target_is_file)

bad = HTMLDependency("d", "1.0", source=local, script=[{"src": "a.js"}, {"src": "b.js"}])
bad.script[1]["src"] = 7
run("int src (after valid)", bad, pre=stale("d-1.0"))
bad = HTMLDependency("d", "1.0", source=local, script=[{"src": "nope.js"}, {"src": "b.js"}])
bad.script[1]["src"] = 7
run("int src (after missing)", bad, pre=stale("d-1.0"))
bad = HTMLDependency("d", "1.0", source=local, script=[{"src": "a.js"}], stylesheet={"href": "s.css"})
del bad.stylesheet[0]["href"]
run("href key removed", bad, pre=stale("d-1.0"))
bad = HTMLDependency("d", "1.0", source=local, script=[{"src": "a.js"}])
bad.script[0]["src"] = b"a.js"
run("bytes src", bad, pre=stale("d-1.0"))

# Source directory inside the target directory: the target is wiped before copying.
out = fresh()
inner = os.path.join(out, "d-1.0", "inner")
write(os.path.join(inner, "a.js"), b"inner a")
print("== source inside target")
show("  copy_to", lambda: HTMLDependency("d", "1.0", source={"subdir": inner}, script={"src": "a.js"}).copy_to(out))
print("  tree:", norm(repr(tree(out))))

# relative target path
cwd = os.getcwd()
out = fresh()
os.chdir(out)
try:
    show("relative path", lambda: HTMLDependency("d", "1.0", source=local, **listed).copy_to("rel/lib"))
    show("empty path", lambda: HTMLDependency("e", "1.0", source=local, script={"src": "a.js"}).copy_to(""))
finally:
    os.chdir(cwd)
print("  tree:", norm(repr(tree(out))))


# ---------------------------------------------------------------- save_html
def check_saved(file):
    """Resolve every local URL of the written file and compare with the sources."""
    html = open(file).read()
    res = []
    for url in re.findall(r'(?:src|href)="([^"]*)"', html):
        if re.match(r"^[a-z]+://|^//", url):
            res.append((url, "remote"))
            continue
        p = os.path.join(os.path.dirname(os.path.abspath(file)), urllib.parse.unquote(url))
        res.append((url, hashlib.sha1(open(p, "rb").read()).hexdigest()[:10] if os.path.isfile(p) else "MISSING"))
    return res


deps = [
    HTMLDependency("d", "1.0", source=local, **listed),
    HTMLDependency("all", "2.0", source=local, all_files=True, script={"src": "a b.js"}),
    HTMLDependency("td", "0.1", source={"package": "htmltools", "subdir": "libtest/testdep"}, script={"src": "testdep.js"}, stylesheet={"href": "testdep.css"}),
    HTMLDependency("remote", "3", source={"href": "https://cdn/x"}, script={"src": "r.js"}),
    HTMLDependency("nosrc", "3", head="<meta name='n'>"),
]
makers = {
    "doc": lambda: HTMLDocument(div("x", *deps)),
    "tag": lambda: div("x", *deps),
    "list": lambda: TagList("x", *deps, div(deps[0])),
}
for mname, maker in makers.items():
    for libdir in ("lib", None, "", "a/b c"):
        for iv in (True, False):
            out = fresh()
            write(os.path.join(out, libdir or "", "d-1.0" if iv else "d", "stale.txt"), b"stale")
            file = os.path.join(out, "page.html")
            obj = maker()
            print("== save_html", mname, repr(libdir), iv)
            if mname == "doc":
                show("  ret", lambda: obj.save_html(file, libdir, iv))
            else:
                show("  ret", lambda: obj.save_html(file, libdir=libdir, include_version=iv))
            show("  urls", lambda: check_saved(file))
            print("  tree:", norm(repr(tree(out))))

# defaults
out = fresh()
show("default save", lambda: makers["doc"]().save_html(os.path.join(out, "p.html")))
print("  tree:", norm(repr(tree(out))))
# failing dependency: earlier deps already copied, html not written
out = fresh()
broken = HTMLDependency("zz", "1", source=local, script={"src": "nope.js"})
show("broken save", lambda: div(deps[0], broken, deps[2]).save_html(os.path.join(out, "p.html")))
print("  tree:", norm(repr(tree(out))))
# relative file name
out = fresh()
os.chdir(out)
try:
    show("relative file", lambda: div(deps[0]).save_html("p.html"))
    show("relative file in subdir (missing)", lambda: div(deps[0]).save_html("nodir/p.html"))
finally:
    os.chdir(cwd)
print("  tree:", norm(repr(tree(out))))

shutil.rmtree(TMP, ignore_errors=True)
