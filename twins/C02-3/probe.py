# Probe for refactoring 3: TagList.get_html_string
from htmltools import HTML, HTMLDependency, Tag, TagList, div, span, tags


class S(str):
    pass


class Repr:
    def __init__(self, v="<repr&>"):
        self.v = v

    def _repr_html_(self):
        return self.v


class Lazy:
    def tagify(self):
        return TagList("<lazy>", span("&"))


def show(label, fn):
    try:
        r = fn()
        print(label, "->", type(r).__name__, repr(r))
    except Exception as e:  # noqa: BLE001
        print(label, "-> EXC", type(e).__name__)


dep = HTMLDependency("d", "1.0", source={"subdir": "."}, script={"src": "x.js"})
T = ["", "plain", "a & b < c > d", "<script>x</script>", "<!-- c --><!DOCTYPE a>&lt;&#60;]]>", "\"'\n\r", S("s<&>")]


def variants(label, make):
    show(label + " default", lambda: make().get_html_string())
    show(label + " indent2", lambda: make().get_html_string(2))
    show(label + " eol", lambda: make().get_html_string(1, "\r\n"))
    show(label + " nows", lambda: make().get_html_string(3, "|", add_ws=False))
    show(label + " noesc", lambda: make().get_html_string(1, "\n", _escape_strings=False))
    show(label + " noesc nows", lambda: make().get_html_string(add_ws=False, _escape_strings=False))
    show(label + " str", lambda: str(make()))


variants("empty", lambda: TagList())
variants("only deps", lambda: TagList(dep, dep))
for t in T:
    variants(f"one {t!r}", lambda: TagList(t))
    variants(f"two {t!r}", lambda: TagList(t, t))
    variants(f"nested {t!r}", lambda: TagList([t, [t, (t, None)]], None, t))
    variants(f"dep first {t!r}", lambda: TagList(dep, t, dep, t, dep))
    variants(f"text tag text {t!r}", lambda: TagList(t, div(t), t))
    variants(f"tag text tag {t!r}", lambda: TagList(div(t), t, span(t, t)))
    variants(f"inline {t!r}", lambda: TagList(t, span(t, _add_ws=False), t, span(t, _add_ws=False), div(t)))
    variants(f"inline first {t!r}", lambda: TagList(span(t, _add_ws=False), span(t, _add_ws=False), t))
    variants(f"html {t!r}", lambda: TagList(HTML(t), t, HTML(t), div(HTML(t), t)))
    variants(f"repr {t!r}", lambda: TagList(Repr(t), t, Repr(t), div(), Repr(t)))
    variants(f"numbers {t!r}", lambda: TagList(1, t, 2.5, True, -0.0))
    show(f"in div {t!r}", lambda: str(div(t, t)))
    show(f"in div nows {t!r}", lambda: str(div(t, span(t), t, _add_ws=False)))
    show(f"in script {t!r}", lambda: str(tags.script(t, t)))
    show(f"in style {t!r}", lambda: str(tags.style(t, HTML(t), t)))
    show(f"deep {t!r}", lambda: str(div(div(t, div(t, span(t, t), t)), t)))

variants("untagified", lambda: TagList("<a>", Lazy()))
variants("untagified first", lambda: TagList(Lazy(), "<a>"))
show("tagified", lambda: TagList("<a>", Lazy()).tagify().get_html_string())
variants("repr nonstr", lambda: TagList("<a>", Repr(5)))
variants("repr HTML", lambda: TagList("<a>", Repr(HTML("<b>")), "<c>"))


def later():
    tl = TagList("<0>")
    tl.append("<1>", ["&2", 3])
    tl.extend(["<4>", HTML("<5>"), (6.5, None)])
    tl.insert(0, "<first>")
    tl.insert(2, ["<x>", "<y>"])
    tl += ["<iadd>"]
    tl2 = "<radd>" + tl + "<add>"
    return [tl.get_html_string(), tl2.get_html_string(1), list(map(type, tl2))]


show("later", later)


def raw(objs, **kw):
    tl = TagList()
    tl.data.extend(objs)  # bypass normalization
    return tl.get_html_string(**kw)


for objs in [[None], [5], ["<a>", 5], [b"x"], [["<"]], ["<a>", None, "<b>"]]:
    show(f"raw {objs!r}", lambda: raw(objs))
    show(f"raw noesc {objs!r}", lambda: raw(objs, _escape_strings=False))

# odd arguments
show("indent None empty", lambda: TagList().get_html_string(None))
show("indent None tag", lambda: TagList(div()).get_html_string(None))
show("indent None text", lambda: TagList("<").get_html_string(None))
show("indent None text nows", lambda: TagList("<").get_html_string(None, add_ws=False))
show("indent float", lambda: TagList("<").get_html_string(1.5))
show("indent neg", lambda: TagList("<", div("<")).get_html_string(-3))
show("eol None one", lambda: TagList("<").get_html_string(0, None))
show("eol None two", lambda: TagList("<", "<").get_html_string(0, None))
show("eol None two tags", lambda: TagList(div(), div()).get_html_string(0, None))
show("eol None inline", lambda: TagList("<", span(_add_ws=False)).get_html_string(0, None))
show("eol HTML", lambda: TagList("<a>", div(), "<b>").get_html_string(0, HTML("<br>")))
show("add_ws truthy", lambda: TagList("<", "<", div()).get_html_string(1, "\n", add_ws="yes"))
show("add_ws 0", lambda: TagList("<", "<", div()).get_html_string(1, "\n", add_ws=0))
show("escape 0", lambda: TagList("<").get_html_string(_escape_strings=0))
show("escape 'x'", lambda: TagList("<").get_html_string(_escape_strings="x"))
