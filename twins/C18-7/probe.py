"""Probe for refactoring 2: head_content() naming and _util.hash_deterministic."""
from htmltools import (
    HTML,
    HTMLDependency,
    HTMLDocument,
    TagList,
    div,
    head_content,
    span,
    tags,
)
from htmltools._util import hash_deterministic


def show(label, fn):
    try:
        res = fn()
    except BaseException as e:  # noqa: BLE001
        print(label, "-> EXC", type(e).__name__, str(e)[:100])
    else:
        print(label, "->", repr(res))


# hash_deterministic directly
for s in ["", "a", "abc", "<title>x</title>", "é中\U0001f600", "a\x00b", "x" * 10000, HTML("<b>")]:
    show("hash %r" % (str(s)[:20],), lambda: hash_deterministic(s))
show("hash type", lambda: type(hash_deterministic("q")).__name__)
show("hash lone surrogate", lambda: hash_deterministic("\ud800"))
show("hash bytes", lambda: hash_deterministic(b"abc"))
show("hash None", lambda: hash_deterministic(None))
show("hash int", lambda: hash_deterministic(3))
show("hash repeat equal", lambda: hash_deterministic("abc") == hash_deterministic("abc"))


def describe(d):
    return (
        type(d).__name__,
        d.name,
        type(d.name).__name__,
        str(d.version),
        d.source,
        d.script,
        d.stylesheet,
        d.meta,
        d.all_files,
        type(d.head).__name__,
        None if d.head is None else d.head.get_html_string(),
    )


contents = {
    "none": (),
    "None arg": (None,),
    "empty str": ("",),
    "text": ("hello",),
    "text needs escape": ("<&>",),
    "HTML raw": (HTML("<&>"),),
    "title": (tags.title("My Title"),),
    "title2": (tags.title("My Title"), tags.meta(name="x", content="y")),
    "nested list": ([tags.title("My Title"), [tags.meta(name="x", content="y")]],),
    "taglist": (TagList(tags.title("My Title"), tags.meta(name="x", content="y")),),
    "numbers": (1, 2.5),
    "script": (tags.script("if (a < b && c) {}"),),
    "style+ws": (tags.style("a > b {}"), span("x", _add_ws=False)),
    "unicode": (tags.title("é中\U0001f600"),),
    "nested dep": (tags.title("t"), HTMLDependency("inner", "1.0")),
    "nested head_content": (head_content(tags.title("t")),),
}
for label, args in contents.items():
    show("head_content " + label, lambda: describe(head_content(*args)))

# Same rendered content <=> same name
names = {label: head_content(*args).name for label, args in contents.items()}
groups = {}
for label, n in names.items():
    groups.setdefault(n, []).append(label)
print("groups:", sorted(groups.values()))
print("all prefixed:", all(n.startswith("headcontent_") and len(n) == len("headcontent_") + 40 for n in names.values()))

# Errors
show("bad child", lambda: head_content(object()))
show("dict child", lambda: head_content({"a": 1}))
show("surrogate content", lambda: head_content("\ud800").name)


class Tagif:
    def tagify(self):
        return tags.title("late")


show("tagifiable child", lambda: head_content(Tagif()).name)

# In documents: equal content once, different content kept apart
x = tags.title("My Title")
tree = div(
    head_content(x),
    span(head_content(tags.title("My Title"))),
    head_content(tags.title("Other")),
    head_content(x, tags.meta(name="k", content="v")),
    head_content(),
)
show("deps", lambda: [(d.name, str(d.version)) for d in tree.get_dependencies()])
show("deps nodedup", lambda: [(d.name, str(d.version)) for d in tree.get_dependencies(dedup=False)])
show("doc", lambda: HTMLDocument(tree).render()["html"])
show("doc again", lambda: HTMLDocument(tree).render()["html"])
show("str(dep)", lambda: str(head_content(x)))
show("repr(dep)", lambda: repr(head_content(x)))
show("as_dict", lambda: head_content(x).as_dict())
show("json", lambda: str(head_content(x).serialize_to_script_json()))
show("eq", lambda: (head_content(x) == head_content(x), head_content(x) == head_content("y")))
