# Probe for refactoring 2: _resolve_dependencies / TagList.get_dependencies
import itertools

from htmltools import HTMLDependency, HTMLDocument, Tag, TagList, div, head_content, span, tags
from htmltools._core import _resolve_dependencies


def show(label, fn):
    try:
        out = fn()
    except Exception as e:  # noqa: BLE001
        print(label, "-> EXC", type(e).__name__, str(e)[:200])
    else:
        print(label, "->", repr(out))


def D(name, version, tagname=None):
    d = HTMLDependency(name, version, script={"src": f"{name}-{version}.js"})
    d.label = tagname or f"{name}@{version}"  # identity marker
    return d


def ids(deps):
    return [(d.name, str(d.version), getattr(d, "label", None)) for d in deps]


pool = [
    D("a", "1.0"),
    D("a", "1.0", "a@1.0#second"),
    D("a", "1.0.0", "a@1.0.0(equal)"),
    D("a", "2.0"),
    D("a", "1.10"),
    D("a", "1.9"),
    D("b", "0.1"),
    D("b", "0.1rc1"),
    D("c", "3"),
]

show("empty", lambda: _resolve_dependencies([]))
show("single", lambda: ids(_resolve_dependencies([pool[0]])))
# every ordered selection of 3 from the pool, plus all permutations of a 4-subset
for combo in itertools.permutations(range(len(pool)), 3):
    sel = [pool[i] for i in combo]
    print("perm3", combo, ids(_resolve_dependencies(sel)))
for combo in itertools.permutations([0, 3, 6, 7, 8]):
    sel = [pool[i] for i in combo]
    print("perm5", combo, ids(_resolve_dependencies(sel)))

# the input list is not modified and the result is a fresh list
inp = [pool[3], pool[0], pool[6]]
res = _resolve_dependencies(inp)
print("fresh", res is not inp, ids(inp), type(res).__name__)
res.append("x")
print("fresh2", len(inp))

# head_content: equal content merges, different content never does
h1 = head_content(tags.title("one"))
h1b = head_content(tags.title("one"))
h2 = head_content(tags.title("two"))
h3 = head_content("one")
print("hc", [d.name for d in _resolve_dependencies([h1, h2, h1b, h3, h2])])
print("hc_identity", _resolve_dependencies([h1, h1b])[0] is h1)

# through TagList / Tag.get_dependencies
tree = div(
    pool[0],
    span(pool[3], "txt", div(pool[6], h1)),
    TagList(pool[4], "s", pool[7]),
    h1b,
    pool[8],
    h2,
)
tl = TagList(pool[5], tree, "z", pool[1], HTMLDependency("zz", "0"))
for obj_name, obj in (("tag", tree), ("taglist", tl), ("empty_tl", TagList()), ("leaf", div("x"))):
    show(f"{obj_name}:default", lambda: ids(obj.get_dependencies()))
    for dd in (True, False, 0, 1, "", "no", None, [], [0]):
        show(f"{obj_name}:dedup={dd!r}", lambda: ids(obj.get_dependencies(dedup=dd)))
# dedup=False returns the raw list (same object semantics: a new list each call)
r1 = tl.get_dependencies(dedup=False)
r2 = tl.get_dependencies(dedup=False)
print("raw_distinct", r1 is not r2, r1 == r2)

# rendering
show("render_tag", lambda: (lambda r: (r["html"], ids(r["dependencies"])))(tree.render()))
show("render_doc", lambda: (lambda r: (r["html"], ids(r["dependencies"])))(HTMLDocument(tl).render()))


# corner cases: unhashable / odd names, incomparable versions
class Odd(HTMLDependency):
    pass


u1 = Odd("u", "1")
u1.name = ["unhashable"]  # type: ignore
show("unhashable_name", lambda: ids(_resolve_dependencies([pool[0], u1])))
v1 = Odd("v", "1")
v2 = Odd("v", "2")
v2.version = "2"  # type: ignore  (str vs Version comparison)
show("incomparable_version", lambda: ids(_resolve_dependencies([v1, v2])))
show("incomparable_version_rev", lambda: ids(_resolve_dependencies([v2, v1])))
show("incomparable_only_one", lambda: ids(_resolve_dependencies([v2, pool[0]])))
n1 = Odd("n", "1")
n1.name = None  # type: ignore
n2 = Odd("n", "2")
n2.name = None  # type: ignore
show("none_name", lambda: [(d.name, str(d.version)) for d in _resolve_dependencies([n1, n2, n1])])
show("not_a_dep", lambda: _resolve_dependencies([pool[0], "str"]))
show("generator_input", lambda: ids(_resolve_dependencies(d for d in pool)))
