import copy
from htmltools import (HTML, HTMLDependency, HTMLDocument, Tag, TagList, div, span, p,
                       head_content, tags)
from htmltools._core import MetadataNode, _equals_impl, _resolve_dependencies
from htmltools._jsx import jsx_tag_create


def show(label, fn):
    try:
        print(label, "=>", repr(fn()))
    except Exception as e:  # noqa
        print(label, "=> EXC", type(e).__name__, e)


def D(name, ver, **kw):
    return HTMLDependency(name, ver, source={"href": "http://cdn/" + name}, **kw)


# ---------- equality ----------
objs = {
    "div": lambda: div("a", id="x"),
    "div_ws": lambda: div("a", id="x", _add_ws=False),
    "div_attr": lambda: div("a", id="y"),
    "div_attr2": lambda: div("a", id="x", class_="c"),
    "div_child": lambda: div("b", id="x"),
    "div_nested": lambda: div(span("a"), id="x"),
    "div_nested2": lambda: div(span("a", "b"), id="x"),
    "div_html": lambda: div(HTML("a"), id="x"),
    "span": lambda: span("a", id="x"),
    "tl": lambda: TagList("a", div()),
    "tl2": lambda: TagList("a", div(), "b"),
    "tl_empty": lambda: TagList(),
    "list": lambda: ["a", div()],
    "dep": lambda: D("d", "1.0", script={"src": "a.js"}),
    "dep_v": lambda: D("d", "1.1", script={"src": "a.js"}),
    "dep_s": lambda: D("d", "1.0", script={"src": "b.js"}),
    "dep_head": lambda: HTMLDependency("d", "1.0", head="<x>"),
    "div_dep": lambda: div("a", D("d", "1.0"), id="x"),
    "div_dep2": lambda: div("a", D("d", "2.0"), id="x"),
    "str": lambda: "a",
    "none": lambda: None,
    "int": lambda: 3,
}
names = list(objs)
for a in names:
    row = []
    for b in names:
        x, y = objs[a](), objs[b]()
        try:
            r = (x == y, x != y)
        except Exception as e:
            r = type(e).__name__
        row.append("T" if r == (True, False) else "F" if r == (False, True) else str(r))
    print(f"{a:12s}", " ".join(row))


class Sub(Tag):
    pass


print(Tag("div", "a") == Sub("div", "a"), Sub("div", "a") == Tag("div", "a"))
t = div("a")
t2 = div("a")
t2.extra = 1
print(t == t2, t2 == t)
t3 = div("a")
del t3.__dict__["children"]
show("missing field", lambda: (t == t3, t3 == t))
print(type(_equals_impl(t, 5)), type(_equals_impl(t, div("a"))), type(_equals_impl(t, div("b"))))


class Weird:
    def __init__(self, r):
        self.r = r

    def __ne__(self, other):
        print("  __ne__ called", self.r)
        return self.r

    def __eq__(self, other):
        print("  __eq__ called", self.r)
        return not self.r


a1, a2 = div(), div()
a1.w1, a2.w1 = Weird(0), Weird(0)
a1.w2, a2.w2 = Weird("yes"), Weird("yes")
a1.w3, a2.w3 = Weird([]), Weird([])
print(a1 == a2)


class Boom:
    def __ne__(self, other):
        raise ValueError("ambiguous")


b1, b2 = div(), div()
b1.z = b2.z = Boom()
show("boom", lambda: b1 == b2)
show("boom-shortcircuit", lambda: div("q", z=1) == b2)

# ---------- dependency collection / dedup ----------
deps = [D("a", "1.0"), D("b", "2.0"), D("a", "1.5"), D("c", "0.1"), D("b", "1.0"), D("a", "1.5", script={"src": "z.js"}), D("a", "1.2")]
r = _resolve_dependencies(deps)
print([(d.name, str(d.version), d.script) for d in r], [deps.index(d) for d in r], [any(d is e for e in deps) for d in r])
print(_resolve_dependencies([]))
one = [D("a", "1")]
r1 = _resolve_dependencies(one)
print(r1, r1 is one, r1[0] is one[0])
tree = div(deps[0], span(deps[1], p(deps[2], TagList(deps[3]))), deps[4], [deps[5], deps[6]], "txt")
print(tree.get_dependencies())
print(tree.get_dependencies(dedup=False))
print(tree.get_dependencies(False))
print(tree.children.get_dependencies(dedup=False), tree.children.get_dependencies(dedup=0), tree.children.get_dependencies(dedup="x"))
nd = TagList().get_dependencies(dedup=False)
print(nd, TagList("a").get_dependencies())
print(tree.render()["dependencies"], tree.tagify() == tree)
show("bad version cmp", lambda: _resolve_dependencies([D("a", "1"), "notadep"]))
show("unhashable name", lambda: _resolve_dependencies([HTMLDependency(["l"], "1")]))

# ---------- hoisting of head content ----------
docs = {
    "plain": HTMLDocument(div("x", deps[0])),
    "body": HTMLDocument(tags.body("x", deps[1], class_="b")),
    "html_head_first": HTMLDocument(tags.html(tags.head(tags.title("t")), tags.body("b", deps[0]))),
    "html_head_second": HTMLDocument(tags.html(deps[2], tags.head(tags.title("t")), tags.body("b"))),
    "html_two_heads": HTMLDocument(tags.html(tags.body("b"), tags.head("h1"), tags.head("h2"), deps[3])),
    "html_no_head": HTMLDocument(tags.html(tags.body("b", head_content(tags.meta(name="m"))))),
    "html_nested_head": HTMLDocument(tags.html(tags.body(tags.head("inner")))),
    "html_empty": HTMLDocument(tags.html()),
    "html_str_children": HTMLDocument(tags.html("s", HTML("<!-- c -->"), tags.head())),
    "empty": HTMLDocument(),
}
for k, d in docs.items():
    r1 = d.render()
    r2 = d.render(lib_prefix=None, include_version=False)
    print("==", k, r1 == d.render())
    print(r1["html"])
    print(r1["dependencies"])
    print(r2["html"] == r1["html"])
show("hoist non-html", lambda: HTMLDocument._hoist_head_content(div(), "lib", True))
h = tags.html(tags.body("z"), tags.head("hh"))
before = str(h)
res = HTMLDocument._hoist_head_content(h, None, False)
print(str(h) == before, res is h, res.children[1] is h.children[1], res.children[0] is h.children[0])
print(res)
