# Probe for refactoring 3: Tag.add_class / Tag.add_style (shared merge helper) and the
# TagAttrDict.update merge they rely on.
import copy
from htmltools import HTML, Tag, TagList, div, span, tags
from htmltools._core import TagAttrDict


def show(label, fn):
    try:
        out = fn()
        print(label, "=>", type(out).__name__, repr(out))
    except Exception as e:  # noqa: BLE001
        print(label, "=> EXC", type(e).__name__)


def state(t):
    return (str(t), {k: (type(v).__name__, str(v)) for k, v in t.attrs.items()})


NASTY = ["", "b", "a&b", "<i>", 'q"q', "it's", "l1\nl2", "c\r", "&amp;", "x y  z", " lead", "trail "]
STARTS = [
    ("none", lambda: div()),
    ("plain", lambda: div(class_="a", style="k:v;")),
    ("nasty", lambda: div(class_="a<\"'&\n", style="k:'v';")),
    ("html", lambda: div(class_=HTML("a<\"'&\n"), style=HTML("k:'<v>';"))),
    ("empty", lambda: div(class_="", style="")),
    ("true", lambda: div(class_=True, style=True)),
    ("num", lambda: div(class_=5, style=1.5)),
    ("merged", lambda: div({"class": "a", "style": "a:b;"}, class_=HTML("<b>"), style="c:d;")),
]

for sname, mk in STARTS:
    for v in NASTY:
        for prepend in (False, True):
            show(f"add_class {sname} {v!r} prepend={prepend}", lambda: state(mk().add_class(v, prepend=prepend)))
            show(f"add_class HTML {sname} {v!r} prepend={prepend}", lambda: state(mk().add_class(HTML(v), prepend=prepend)))
            sv = v + ";"
            show(f"add_style {sname} {sv!r} prepend={prepend}", lambda: state(mk().add_style(sv, prepend=prepend)))
            show(f"add_style HTML {sname} {sv!r} prepend={prepend}", lambda: state(mk().add_style(HTML(sv), prepend=prepend)))

# return value is the same object; chaining; other attrs untouched and order kept
t = div(id="i", class_="c1", title="<", style="a:b;")
show("returns self (class)", lambda: t.add_class("c2") is t)
show("returns self (style)", lambda: t.add_style("c:d;") is t)
show("chain", lambda: state(t.add_class("c0", prepend=True).add_style("z:z;", prepend=True).add_class("c3")))
show("order of keys", lambda: list(t.attrs.keys()))
t = div(id="i")
show("new key appended last", lambda: list(t.add_style("a:b;").add_class("k").attrs.keys()))

# prepend truthiness, keyword-only
show("prepend=1", lambda: state(div(class_="a").add_class("b", prepend=1)))
show("prepend=0", lambda: state(div(class_="a").add_class("b", prepend=0)))
show("prepend=''", lambda: state(div(style="a;").add_style("b;", prepend="")))
show("prepend='x'", lambda: state(div(style="a;").add_style("b;", prepend="x")))
show("prepend positional", lambda: div().add_class("b", True))
show("prepend positional style", lambda: div().add_style("b;", True))

# unusual values
for v in [None, False, True, 3, 2.5, [], object(), b"x;"]:
    show(f"add_class value {type(v).__name__}:{v!r}"[:60].split(" at 0x")[0], lambda: state(div(class_="a").add_class(v)))
    show(f"add_class prepend value {type(v).__name__}"[:60], lambda: state(div(class_="a").add_class(v, prepend=True)))
    show(f"add_style value {type(v).__name__}"[:60], lambda: state(div(style="a;").add_style(v)))
    show(f"add_style prepend value {type(v).__name__}"[:60], lambda: state(div(style="a;").add_style(v, prepend=True)))
show("add_style no semicolon", lambda: div().add_style("a:b"))
show("add_style HTML no semicolon", lambda: div().add_style(HTML("a:b")))
show("add_style empty", lambda: div().add_style(""))

# failed merge leaves tag untouched
t = div(class_="keep", style="keep;")
show("bad add_class", lambda: t.add_class([1]))
show("bad add_style", lambda: t.add_style([1], prepend=True))
show("after bad", lambda: state(t))

# attrs replaced by other objects
t = div()
t.attrs = {"class": "plain<"}
show("plain dict attrs add_class", lambda: (t.add_class("x&").attrs, str(t)))
t.attrs = {"class": "plain<"}
show("plain dict attrs add_class prepend", lambda: (t.add_class("x&", prepend=True).attrs, str(t)))
t.attrs = None
show("attrs None add_class", lambda: t.add_class("x"))
show("attrs None add_style", lambda: t.add_style("x;"))
t.attrs = []
show("attrs list add_class", lambda: t.add_class("x"))

# has_class / remove_class after merges; copy independence
t = div(class_="a b").add_class("c<").add_class(HTML("d&"), prepend=True)
show("has_class", lambda: [t.has_class(c) for c in ["a", "b", "c<", "c&lt;", "d&", "d&amp;", "x"]])
show("remove_class", lambda: state(copy.copy(t).remove_class("a")))
c = copy.copy(t)
c.add_class("only-copy")
show("copy independent", lambda: (state(t), state(c)))

# subclasses / tag functions / svg
from htmltools import svg
show("svg", lambda: state(svg.circle(class_="a").add_class("b\"").add_style("fill:'red';")))
show("void", lambda: state(tags.input(class_="a").add_class("b'", prepend=True)))
show("in tree", lambda: str(div(span("x").add_class("<s>"), TagList(span().add_style(HTML("a:\"b\";"))))))
