# Probe for refactoring 1: _render_react_js / JSX serialisation with metadata nodes.
from htmltools import HTML, HTMLDependency, MetadataNode, Tag, TagList, div, span, tags
from htmltools._jsx import JSXTag, jsx, jsx_tag_create, _render_react_js, _serialize_attr


class Meta(MetadataNode):
    def __repr__(self):
        return "<Meta>"


def dep(name="a", version="1.0"):
    return HTMLDependency(name, version, source={"subdir": "."}, script={"src": name + ".js"})


def show(label, fn):
    try:
        r = fn()
        print(label, "=>", repr(r))
    except Exception as e:  # noqa: BLE001
        print(label, "!!", type(e).__name__, str(e))


Foo = jsx_tag_create("Foo")
Bar = jsx_tag_create("My.Bar")

cases = {
    "empty": lambda: Foo(),
    "only-meta": lambda: Foo(Meta()),
    "only-dep": lambda: Foo(dep()),
    "meta-first": lambda: Foo(Meta(), "a", div("b")),
    "meta-mid": lambda: Foo("a", Meta(), div("b")),
    "meta-last": lambda: Foo("a", div("b"), Meta()),
    "no-meta": lambda: Foo("a", div("b")),
    "deps-everywhere": lambda: Foo(dep("x"), "a", dep("y"), div(dep("z"), "b", dep("x", "2.0")), dep("w")),
    "attrs-only": lambda: Foo(id="i", class_="c", n=1, f=1.5, b=True, none=None),
    "attrs-and-meta": lambda: Foo(Meta(), id="i"),
    "style-str": lambda: Foo(style="color:red;margin:0"),
    "style-dict": lambda: Foo(style={"color": "red"}),
    "style-none": lambda: Foo(style=None),
    "style-empty": lambda: Foo(style=""),
    "style-bad": lambda: Foo(style=3),
    "style-bad-after-ok": lambda: Foo(a=1, style=[1], b=2),
    "tag-attr": lambda: Foo(icon=div(Meta(), "x"), other=Bar(dep("q"), k="v")),
    "list-dict-attr": lambda: Foo(l=[1, "two", None, div()], d={"a": [1], "b": jsx("x => x")}),
    "quotes": lambda: Foo('say "hi"', title='a "b"'),
    "nested-jsx": lambda: Foo(Bar(Meta(), "x", Bar()), Meta(), Bar(a=1)),
    "html-child": lambda: Foo(HTML("<b>x</b>")),
    "void-child": lambda: Foo(tags.br(), tags.br(Meta()), div(Meta()), div()),
    "in-div": lambda: div(Foo(Meta(), "a"), dep("p")),
    "taglist": lambda: TagList(Foo("a"), Meta(), Foo(Meta())),
}

for label, mk in cases.items():
    show("str   " + label, lambda: str(mk()))
    show("render " + label, lambda: (lambda r: (r["html"], [repr(d) for d in r["dependencies"]]))(TagList(mk()).render()))

# Direct calls of the serialiser (tagified and non-tagified input)
direct = [
    Meta(),
    dep(),
    "plain",
    'q"uote',
    div(),
    div(Meta()),
    div(Meta(), Meta()),
    div("a", Meta(), span(Meta(), "b"), Meta()),
    div(id="x"),
    div(Meta(), id="x", style="a:b;"),
    JSXTag("Foo"),
    JSXTag("Foo", Meta()),
    JSXTag("Foo", "a", Meta(), x=1),
    JSXTag("Foo", style={"a": 1}, z=None),
    TagList("a"),
    3,
    None,
    HTML("<i>"),
    div(HTML("<i>")),
    div(3.5, None, [Meta(), "s"]),
]
for i, x in enumerate(direct):
    for indent, eol in [(0, "\n"), (2, "\n"), (1, ""), (0, "\r\n")]:
        show(f"direct[{i}] indent={indent} eol={eol!r}", lambda: _render_react_js(x, indent, eol))

for v in [None, True, False, 1, 1.5, "s", 's"q', jsx("a"), [1, [2]], (1,), {"k": {"j": None}}, div(Meta()), JSXTag("A", Meta()), Meta(), object]:
    show(f"_serialize_attr({v!r})" if not isinstance(v, (Tag, JSXTag)) else "_serialize_attr(tag)", lambda: _serialize_attr(v))
