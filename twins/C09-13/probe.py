"""Probe for refactoring 3: HTMLDocument._gen_html_tag_tree / _hoist_head_content."""
from htmltools import HTML, HTMLDependency, HTMLDocument, Tag, TagList, div, span, tags


def dep(name, version="1.0", **kw):
    return HTMLDependency(name, version, source={"subdir": "."}, script={"src": name + ".js"}, **kw)


class Multi:
    def __init__(self, *items):
        self.items = items

    def tagify(self):
        return TagList(*self.items)


class Empty:
    def tagify(self):
        return TagList()


class One:
    def __init__(self, x):
        self.x = x

    def tagify(self):
        return self.x


class Both:
    def tagify(self):
        return span("tagified")

    def _repr_html_(self):
        return "<b>repr</b>"


class Raises:
    def tagify(self):
        raise ValueError("boom")


class Lazy:
    def tagify(self):
        return TagList(One("late"))


class LogName(str):
    """A tag name that records every comparison made against it."""

    log = []

    def __eq__(self, other):
        LogName.log.append(("eq", str(self), other))
        return str.__eq__(self, other)

    def __ne__(self, other):
        LogName.log.append(("ne", str(self), other))
        return str.__ne__(self, other)

    __hash__ = str.__hash__


class MyHtml(Tag):
    def __init__(self, *args, **kwargs):
        super().__init__("html", *args, **kwargs)


def show(label, fn):
    try:
        r = fn()
        if isinstance(r, dict) and "html" in r:
            print(label, "html=", repr(r["html"]), "deps=", [(d.name, str(d.version)) for d in r["dependencies"]])
        else:
            print(label, repr(r))
    except Exception as e:  # noqa
        print(label, "EXC", type(e).__name__, str(e))


html, head, body, title, meta = tags.html, tags.head, tags.body, tags.title, tags.meta

cases = {
    "empty": lambda: (),
    "only_empty_tagifiable": lambda: (Empty(),),
    "text": lambda: ("just text",),
    "text_html_word": lambda: ("html",),
    "div": lambda: (div("a", Multi("b", span("c"), dep("d1"))),),
    "two_items": lambda: (div("a"), Multi("b", dep("d1")), "c"),
    "sole_body": lambda: (body("x", Multi("y", dep("bd")), class_="bc"),),
    "sole_body_via_one": lambda: (One(body("x", dep("bd"))),),
    "sole_body_via_multi": lambda: (Multi(body(One("in body"))),),
    "body_plus_text": lambda: (body("x"), "after"),
    "two_bodies": lambda: (body("1"), body("2")),
    "body_plus_empty": lambda: (body("x", dep("q")), Empty()),
    "sole_html_full": lambda: (html(head(title("T")), body("x", Multi("y", dep("hd"))), lang="xx"),),
    "sole_html_no_head": lambda: (html(body("x", dep("hd"))),),
    "sole_html_empty": lambda: (html(),),
    "sole_html_head_second": lambda: (html(dep("first"), head(title("T")), body("b")),),
    "sole_html_head_last": lambda: (html(body("b"), "txt", head(meta(name="m"))),),
    "sole_html_two_heads": lambda: (html(head(title("1")), head(title("2")), body()),),
    "sole_html_nested_head_only": lambda: (html(body(head(title("nested")))),),
    "sole_html_head_from_tagifiable": lambda: (html(One(head(title("late head"))), body("b")),),
    "sole_html_heads_from_multi": lambda: (html(Multi("s", head(title("m1")), head(title("m2"))), body("b")),),
    "sole_html_via_one": lambda: (One(html(body(One("deep"), dep("zz")))),),
    "sole_html_via_multi": lambda: (Multi(html(head(), body("q"))),),
    "html_plus_dep": lambda: (html(body("x")), dep("sib")),
    "html_plus_empty": lambda: (html(body("x")), Empty()),
    "html_in_list": lambda: ([html(body("x"))],),
    "html_in_taglist": lambda: (TagList(html(body("x"))),),
    "subclass_html": lambda: (MyHtml(body("sub"), dep("s1")),),
    "uppercase_html": lambda: (Tag("HTML", body("x")),),
    "dep_only": lambda: (dep("lonely"),),
    "deps_dups": lambda: (dep("a", "1.0"), div(dep("a", "2.0")), Multi(dep("b"), dep("a", "0.5"))),
    "dep_with_head": lambda: (div("c", dep("wh", head="<style>x{}</style>", all_files=False)),),
    "both": lambda: (Both(), div(Both())),
    "repr_html_obj": lambda: (HTML("<raw>"), "esc<>"),
    "raises": lambda: (div("a"), Raises()),
    "raises_in_html": lambda: (html(body(Raises())),),
    "lazy": lambda: (Lazy(),),
    "lazy_in_body": lambda: (body(Lazy()),),
    "lazy_in_html": lambda: (html(body(Lazy())),),
}

kwsets = [{}, {"lang": "en", "class_": "k"}, {"data_x": None, "hidden": True}]
rsets = [{}, {"lib_prefix": None}, {"lib_prefix": "assets/x", "include_version": False}]

for name, mk in cases.items():
    for i, kw in enumerate(kwsets):
        for j, rk in enumerate(rsets):
            if i and j:
                continue
            show("doc %s kw%d r%d" % (name, i, j), lambda: HTMLDocument(*mk(), **kw).render(**rk))

# append after construction, then render twice (no mutation of stored content)
doc = HTMLDocument(lang="q")
doc.append(html(body("x", Multi("y", dep("ap")))))
r1 = doc.render()
r2 = doc.render()
print("idempotent", r1["html"] == r2["html"], [type(c).__name__ for c in doc._content], [type(c).__name__ for c in doc._content[0].children])
print("orig html attrs untouched", dict(doc._content[0].attrs))
doc.append("more")
show("after second append", lambda: doc.render())

# the internal tree builder and hoister called directly
show("gen tree positional", lambda: str(HTMLDocument(div("a"))._gen_html_tag_tree("p", True)))
show("gen tree keyword", lambda: str(HTMLDocument(body("a"))._gen_html_tag_tree(lib_prefix=None, include_version=False)))
show("hoist non-html", lambda: HTMLDocument._hoist_head_content(div("a"), "lib", True))
show("hoist body", lambda: HTMLDocument._hoist_head_content(body("a"), "lib", True))
x = html(body("b", dep("hh")), head(title("t")))
res = HTMLDocument._hoist_head_content(x, None, False)
print("hoist result", repr(str(res)))
print("hoist orig untouched", repr(x.get_html_string()), res is x, res.children[1] is x.children[1])
x2 = html("t", span("s"))
res2 = HTMLDocument._hoist_head_content(x2, "L", True)
print("hoist inserts head", repr(res2.get_html_string()), len(x2.children), len(res2.children))

# sequence of name comparisons
for nm in ("html", "body", "div", "head"):
    LogName.log.clear()
    t = Tag("div", "c")
    t.name = LogName(nm)
    show("logname " + nm, lambda: HTMLDocument(t).render())
    print("  cmp log", LogName.log)
LogName.log.clear()
inner_head = Tag("x", title("T"))
inner_head.name = LogName("head")
other = Tag("x")
other.name = LogName("other")
show("logname children", lambda: HTMLDocument(html(other, "txt", inner_head, head("second"))).render())
print("  cmp log", LogName.log)
