"""Probe for refactoring 4: JSX serialisers and metadata nodes."""
from htmltools import HTML, HTMLDependency, MetadataNode, Tag, TagList, div, span, tags
from htmltools._jsx import (
    JSXTag,
    _render_react_js,
    _serialize_attr,
    _serialize_style_attr,
    _walk_attrs_and_children,
    jsx,
    jsx_tag_create,
)


class Meta(MetadataNode):
    def __init__(self, label="m"):
        self.label = label

    def __repr__(self):
        return f"Meta({self.label!r})"


class MetaStr(MetadataNode, str):
    """A metadata node that is also a str."""


class MetaTag(Tag, MetadataNode):
    """A metadata node that is also a Tag."""


class Widget:
    def tagify(self):
        return TagList(dep("w"), span("widget"), Meta("from widget"))


class WidgetTag:
    def tagify(self):
        return div("widget tag", dep("wt"), Meta("wt"))


def dep(name, version="1.0"):
    return HTMLDependency(name, version, source={"href": "/lib"}, script={"src": name + ".js"})


def show(label, fn):
    try:
        print(f"{label}: {fn()!r}")
    except Exception as e:  # noqa
        print(f"{label}: raised {type(e).__name__}: {e}")


def rr(x, indent, eol="\n"):
    # `eol` is passed by keyword: valid for both the positional and keyword-only signature
    return _render_react_js(x, indent, eol=eol)


Foo = jsx_tag_create("Foo")
Bar = jsx_tag_create("Lib.Bar", allowedProps=["a", "style"])

cases = {
    "empty": lambda: Foo(),
    "only-meta": lambda: Foo(Meta()),
    "only-metas": lambda: Foo(Meta(1), dep("a"), Meta(2)),
    "meta-and-attr": lambda: Foo(Meta(), a=1),
    "text": lambda: Foo("text"),
    "empty-text": lambda: Foo("", Meta(), ""),
    "quotes": lambda: Foo('say "hi"', x='q"q'),
    "meta-first": lambda: Foo(Meta(), "a", "b"),
    "meta-middle": lambda: Foo("a", Meta(), "b"),
    "meta-last": lambda: Foo("a", "b", Meta()),
    "meta-everywhere": lambda: Foo(dep("a"), "a", Meta(), dep("b"), "b", Meta(), dep("a", "2.0")),
    "no-meta": lambda: Foo("a", "b"),
    "nested-html": lambda: Foo(div(Meta(), span("x", dep("in-span")), Meta(), id="d"), dep("top")),
    "nested-empty-div": lambda: Foo(div(), div(Meta()), tags.br(dep("br"))),
    "nested-jsx": lambda: Foo(Bar(Meta(), "inner", a=[1, 2]), Meta(), Bar()),
    "attr-tags": lambda: Foo(el=div("in attr", dep("attr-dep"), Meta()), j=Bar(Meta(), a=1), n=None),
    "attr-list": lambda: Foo(items=[div(dep("l1")), Meta("in list"), 1, True, None, "s", 2.5, jsx("a.b")]),
    "attr-dict": lambda: Foo(d={"k": span(dep("d1")), "n": {"deep": [Bar()]}}),
    "attr-meta": lambda: Foo(m=Meta("attr")),
    "style-str": lambda: Foo(style="color:red;font-size:12px;;junk"),
    "style-dict": lambda: Foo(style={"color": "red", "n": 1}),
    "style-none": lambda: Foo(style=None),
    "style-bad": lambda: Foo(style=1),
    "widget": lambda: Foo(Widget(), "after"),
    "widget-tag": lambda: Foo(WidgetTag(), Meta()),
    "widget-attr": lambda: Foo(w=WidgetTag()),
    "html-child": lambda: Foo(HTML("<b>raw</b>")),
    "number-child": lambda: Foo(1, 2.5),
    "meta-str": lambda: Foo(MetaStr("hidden"), "shown"),
    "meta-tag": lambda: Foo(MetaTag("x-meta", "hidden"), "shown"),
    "allowed-ok": lambda: Bar(Meta(), a=1, style="a:b"),
    "allowed-bad": lambda: Bar(b=1),
    "lowercase": lambda: JSXTag("foo"),
    "bad-child": lambda: Foo(object()),
}

for name, mk in cases.items():
    show(f"{name}/str", lambda: str(mk()))
    show(f"{name}/render", lambda: mk().tagify().render())
    show(f"{name}/in-div", lambda: div(Meta("outer"), mk(), "txt").render())
    show(f"{name}/in-taglist", lambda: TagList(mk(), Meta("outer")).render())
    show(f"{name}/repr-html", lambda: mk()._repr_html_() == repr(mk()) == str(mk()))

# Direct calls of the serialisers
show("render/meta-top", lambda: rr(Meta(), 3))
show("render/dep-top", lambda: rr(dep("a"), 0))
show("render/meta-str-top", lambda: rr(MetaStr("x"), 1))
show("render/meta-tag-top", lambda: rr(MetaTag("t"), 1))
show("render/str", lambda: rr('a"b', 2))
show("render/div", lambda: rr(div(Meta(), "a", Meta(), span(), Meta(), id="i", class_="c"), 1))
show("render/div-only-meta", lambda: rr(div(Meta()), 0))
show("render/div-attrs-only-meta", lambda: rr(div(Meta(), id="x"), 0))
show("render/jsx-untagified", lambda: rr(Foo("a", Meta(), b=2), 0))
show("render/non-tagified", lambda: rr(div(Widget()), 0))
show("render/html-child", lambda: rr(div(HTML("<i>"), "t"), 0))
show("render/bad", lambda: rr(3, 0))
show("render/other-eol", lambda: rr(div("a", Meta(), span("b", Meta(), "c")), 1, eol=" "))
show("attr/tag", lambda: _serialize_attr(div(Meta(), "x")))
show("attr/jsx", lambda: _serialize_attr(Foo(Meta(), "x")))
show("attr/meta-tag", lambda: _serialize_attr(MetaTag("t", "x")))
show("attr/meta", lambda: _serialize_attr(Meta()))
show("attr/tuple", lambda: _serialize_attr((div(), [Foo()], {"a": span(Meta())})))
show("attr/scalars", lambda: [_serialize_attr(v) for v in (None, True, False, 0, 1.5, "s", jsx("x"), 'q"')])
show("style/tag", lambda: _serialize_style_attr({"a": div(Meta())}))

# _walk_attrs_and_children
seen = []

def record(x):
    seen.append(type(x).__name__)
    return x

tree = Foo(div("a", Meta(), Foo("inner", z=span("zz"))), "b", k=div("attr-child"), m=Meta())
res = _walk_attrs_and_children(tree, record)
show("walk/same-object", lambda: res is tree)
show("walk/order", lambda: seen)
seen.clear()
mt = MetaTag("x", "c1", span("c2"))
_walk_attrs_and_children(mt, record)
show("walk/metatag-order", lambda: seen)
seen.clear()
_walk_attrs_and_children(Widget(), record)
_walk_attrs_and_children("s", record)
_walk_attrs_and_children(None, record)
show("walk/leaves", lambda: seen)
show("walk/replace", lambda: str(_walk_attrs_and_children(div("a", span("b")), lambda x: x.upper() if isinstance(x, str) else x)))

# tagify leaves the original untouched and collects metadata nodes
orig = Foo(div(dep("a"), "x"), Meta("keep"), k=span(dep("k")))
t = orig.tagify()
show("tagify/children-types", lambda: [type(c).__name__ for c in t.children])
show("tagify/deps", lambda: t.get_dependencies(dedup=False))
show("tagify/orig-children", lambda: [type(c).__name__ for c in orig.children])
show("tagify/orig-str-stable", lambda: str(orig) == str(orig))
