# Probe for html_escape and the module-level escape tables, directly and through rendering.
import html
import itertools
import zlib

import htmltools
from htmltools import HTML, TagList, div, html_escape, span, tags
from htmltools import _util
from htmltools._util import HTML_ATTRS_ESCAPE_TABLE, HTML_ESCAPE_TABLE


def show(label, fn):
    try:
        r = fn()
        print(label, "->", type(r).__name__, repr(r))
    except Exception as e:  # noqa: BLE001
        print(label, "!!", type(e).__name__, str(e))


class StrSub(str):
    pass


# the tables themselves (contents and order are part of the behaviour)
print("table", type(HTML_ESCAPE_TABLE).__name__, list(HTML_ESCAPE_TABLE.items()))
print("attr table", type(HTML_ATTRS_ESCAPE_TABLE).__name__, list(HTML_ATTRS_ESCAPE_TABLE.items()))
print("same objects", _util.HTML_ESCAPE_TABLE is HTML_ESCAPE_TABLE, _util._html_escape is _util.html_escape, htmltools.html_escape is _util.html_escape)

ALPHABET = ["&", "<", ">", '"', "'", "\r", "\n", "a", " ", ";", "#", "|", "\\", "é", "\t", "\x00"]
strings = [""]
strings += ALPHABET
strings += ["".join(p) for p in itertools.product(ALPHABET[:9], repeat=2)]
strings += [
    "&amp;",
    "&amp;amp;",
    "&lt;&gt;&quot;&apos;&#13;&#10;",
    "&#13",
    "<script>alert('x' && \"y\")</script>\r\n",
    "a|b",
    "no specials at all 0123456789",
    "x" * 1000 + "<" + "y" * 1000,
    "\U0001F600< > ",
    "]]>",
    "<!-- c -->",
    "\\n \\r",
    "line1\nline2\rline3\r\nline4",
]
for s in strings:
    for attr in (False, True):
        r = html_escape(s, attr)
        # identity of the result matters on the fast path
        print("esc", repr(s) if len(s) < 60 else f"<{len(s)} chars>", attr, "->", repr(r) if len(r) < 80 else f"<{len(r)} chars {zlib.crc32(r.encode())}>", r is s)
    # escaped text decodes back
    assert html.unescape(html_escape(s.replace("\r", ""), True)) == s.replace("\r", "")
    assert html.unescape(html_escape(s, False)) == html.unescape(s) or "&" in s

# default / keyword / truthy-falsy values of `attr`
for attr in [0, 1, None, "", "x", [], [0], 0.0, 2]:
    show(f"attr={attr!r}", lambda: html_escape("<'\n>", attr))
show("default", lambda: html_escape("<'\n>"))
show("keyword", lambda: html_escape(text="<'\n>", attr=True))
show("alias", lambda: _util._html_escape("<'&>", True))

# str subclass: same object on the fast path, plain str otherwise
for s in [StrSub("abc"), StrSub("a<b"), StrSub("")]:
    for attr in (False, True):
        r = html_escape(s, attr)
        print("sub", repr(s), attr, type(r).__name__, repr(r), r is s)

# wrong types
BAD = [None, 5, 2.5, b"a<b", b"", bytearray(b"<"), ["<"], ("<",), {"<": 1}, HTML("<b>"), HTML("plain"), object(), True]
for v in BAD:
    for attr in (False, True):
        show(f"bad {type(v).__name__} {attr}", lambda: html_escape(v, attr))
show("no args", lambda: html_escape())
show("3 args", lambda: html_escape("a", True, 1))

# through HTML() arithmetic and the renderers
show("HTML+str", lambda: (HTML("<a>") + "<b>'\n").as_string())
show("str+HTML", lambda: ("<b>'\n" + HTML("<a>")).as_string())
show("HTML+HTML", lambda: (HTML("<a>") + HTML("<b>")).as_string())
show("HTML+int", lambda: (HTML("<a>") + 5).as_string())
show("text child", lambda: str(div("a<b & 'c' \"d\"\r\n")))
show("text children", lambda: str(div("a<b", "&", span(">"), HTML("<raw&>"))))
show("attr", lambda: str(div(title="a<b & 'c' \"d\"\r\n", data_h=HTML("<raw&'>"))))
show("merged attr", lambda: str(div({"class": "a'<"}, class_=HTML("b'<"))))
show("script", lambda: str(tags.script("a<b && c", src="x?a=1&b=2")))
show("taglist", lambda: str(TagList("<", HTML("<"), 1, span("&", id="&"))))
show("taglist noesc", lambda: TagList("<", HTML("<")).get_html_string(_escape_strings=False))
show("already escaped", lambda: str(div("&amp;", title="&amp;")))

# repeated calls give the same answers (no state carried between calls)
print("repeat", [html_escape("<&>", a) for a in (True, False, True, False)], [html_escape("plain", a) for a in (True, False)])
