# Probe for refactoring 1: TagList.get_html_string (sibling separation / inline content)
import itertools
from htmltools import HTML, Tag, TagList, HTMLDependency, div, span, a, p, tags

b = tags.b

log = []


class Repr:
    def __init__(self, s):
        self.s = s

    def _repr_html_(self):
        log.append(("repr_html", self.s))
        return self.s


class BadRepr:
    def _repr_html_(self):
        log.append(("bad_repr",))
        return None


class Tagifiable_:
    def tagify(self):
        return span("tagified")


class Both:
    # both self-rendering and tagifiable: the self-rendering branch wins in get_html_string
    def tagify(self):
        return span("from-tagify")

    def _repr_html_(self):
        return "<i>from-repr</i>"


class StrSub(str):
    pass


def show(label, fn):
    try:
        r = fn()
        print(label, "->", type(r).__name__, repr(r))
    except BaseException as e:  # noqa
        print(label, "!!", type(e).__name__, str(e))


dep = HTMLDependency("x", "1.0", source={"subdir": "."}, script={"src": "x.js"})

atoms = {
    "s": lambda: "t<&>",
    "h": lambda: HTML("<em>r</em>"),
    "r": lambda: Repr("<u>R</u>"),
    "i": lambda: span("in", " ", b("x")),
    "e": lambda: span(),
    "B": lambda: div("blk"),
    "N": lambda: div(span("a"), "b"),
    "I": lambda: span(div("d"), "z"),
    "m": lambda: dep,
    "v": lambda: tags.br(),
    "w": lambda: Tag("x-inl", "q", _add_ws=False),
    "S": lambda: StrSub("sub>"),
}

# all sequences of up to 3 children, in a TagList, with every flag combination
keys = sorted(atoms)
for n in range(0, 4):
    for combo in itertools.product(keys, repeat=n):
        if n == 3 and not (set(combo) & set("BNIm")):
            # keep output size reasonable, but keep all-inline triples for a subset
            if combo[0] not in "sri":
                continue
        kids = [atoms[k]() for k in combo]
        tl = TagList(*kids)
        name = "".join(combo)
        for add_ws in (True, False):
            for esc in (True, False):
                show(
                    f"TL[{name}] ws={add_ws} esc={esc}",
                    lambda: tl.get_html_string(2, "\n", add_ws=add_ws, _escape_strings=esc),
                )
        show(f"TL[{name}] default", lambda: tl.get_html_string())
        show(f"TL[{name}] eol=|", lambda: tl.get_html_string(1, "|"))
        show(f"div[{name}]", lambda: str(div(*[atoms[k]() for k in combo])))
        show(f"span[{name}]", lambda: str(span(*[atoms[k]() for k in combo])))
        show(f"script[{name}]", lambda: Tag("script", *[atoms[k]() for k in combo]).get_html_string())

print("log entries:", len(log))
log.clear()

# inline subtree appears contiguously wherever placed
inline = span("x", a("y", href="#"), HTML("<b>z</b>"), Repr("<i>w</i>"), "  spaced  ")
flat = inline.get_html_string()
print(repr(flat))
for holder in (
    lambda x: div(x),
    lambda x: div(div(x)),
    lambda x: div("t", x, "u"),
    lambda x: div(div("q"), x, div("r")),
    lambda x: TagList(x, x),
    lambda x: TagList(div(), x, p()),
    lambda x: span(x, x),
    lambda x: p(span(x), div(x)),
):
    out = str(holder(inline))
    print(repr(out), out.count(flat))

# non-tagified object / odd arguments / bad children
show("tagifiable", lambda: TagList(Tagifiable_()).get_html_string())
show("tagifiable after text", lambda: TagList("a", Repr("b"), Tagifiable_()).get_html_string())
print(log)
log.clear()
show("tagifiable rendered", lambda: str(TagList("a", Tagifiable_(), div(Tagifiable_()))))
show("both", lambda: TagList("a", Both(), div()).get_html_string())
show("both rendered", lambda: str(TagList("a", Both(), div())))
show("bad repr first", lambda: TagList(BadRepr(), Repr("later")).get_html_string())
print(log)
log.clear()
show("bad repr after", lambda: TagList(Repr("first"), BadRepr(), Repr("later")).get_html_string())
print(log)
log.clear()
show("indent str", lambda: TagList("a", div()).get_html_string("x"))
show("indent str inline only", lambda: TagList(span(), span()).get_html_string("x", add_ws=False))
show("indent float text", lambda: TagList("a", Repr("never")).get_html_string(1.5))
print(log)
log.clear()
show("indent float repr", lambda: TagList(Repr("called?")).get_html_string(1.5))
print(log)
log.clear()
show("indent float, no ws", lambda: TagList("a", Repr("r")).get_html_string(1.5, add_ws=False))
show("eol None inline", lambda: TagList("a", span(), "b").get_html_string(0, None, add_ws=False))
show("eol None block", lambda: TagList("a", div(), "b").get_html_string(0, None))
show("eol None first only", lambda: TagList(div()).get_html_string(0, None))
show("eol bytes", lambda: TagList(div(), div()).get_html_string(0, b"\n"))
show("negative indent", lambda: TagList("a", div("b", span("c"), "d")).get_html_string(-3))
show("add_ws=0", lambda: TagList("a", span("b")).get_html_string(1, add_ws=0))
show("add_ws='yes'", lambda: TagList("a", span("b")).get_html_string(1, add_ws="yes"))
show("add_ws=[]", lambda: TagList(span("b"), "a").get_html_string(1, add_ws=[]))

tl = TagList("a", span("b"))
tl.data.append(5)
show("int child esc", lambda: tl.get_html_string())
show("int child noesc", lambda: tl.get_html_string(_escape_strings=False))
tl2 = TagList(Repr("seen"))
tl2.data.append(None)
tl2.data.append(Repr("unseen"))
show("None child", lambda: tl2.get_html_string())
print(log)
log.clear()

# add_ws flipped after construction
t = span("a", span("b"), "c")
t.children[1].add_ws = True
show("flipped child", lambda: str(div(t)))
t.add_ws = True
show("flipped outer", lambda: str(div(t, "x", span("y"))))
d = div("a", div("b"), span("c"), "d")
d.add_ws = False
show("block made inline", lambda: str(TagList("x", d, "y", div(d))))

# deep nesting, alternating
x = "core"
for i in range(8):
    x = (span if i % 2 else div)(x, span(str(i)), "t")
show("deep", lambda: str(x))
show("deep in span", lambda: str(span(x)))
show("doc", lambda: str(tags.html(tags.head(tags.title("T")), tags.body(span("a"), span("b"), p("c", a("d"))))))
