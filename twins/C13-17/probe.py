# Probe for HTMLDependency.serialize_to_script_json (JSON <script> form) and its users.
import json
import htmltools as ht
from packaging.version import Version
from htmltools import HTMLDependency, HTMLTextDocument, TagList, Tag, div, tags, HTML, head_content


def run(label, f):
    try:
        print(label, "->", f())
    except BaseException as e:  # noqa
        print(label, "!!", type(e).__name__, str(e)[:120])


def mk():
    return [
        HTMLDependency("a", "1.0"),
        HTMLDependency("a", Version("1.0.1"), source={"subdir": "x"}, script={"src": "a.js"}),
        HTMLDependency("b", "2.1.3", source={"href": "https://x/y"}, stylesheet=[{"href": "b.css"}, {"href": "c d.css", "media": "print"}]),
        HTMLDependency("c", "0.1", head="<script>alert('</script>')</SCRIPT></ScRiPt x>"),
        HTMLDependency("d\n</script><b>", "3", meta={"name": "</script>", "content": "</ </a \\/ <\\/   é \U0001f600"}, all_files=True,
                       head=TagList(tags.title("T & <"), HTML("<!-- </sCrIpT -->"), tags.script("if (a</b/) {}"))),
        HTMLDependency("e", "1", source={"package": "htmltools", "subdir": "lib"}, script=[{"src": "e.js", "defer": ""}, {"src": "</f.js"}]),
        HTMLDependency("f", "1", head=TagList()),
        HTMLDependency("g", "1", head=""),
        HTMLDependency("h", "1", head=div("x", HTMLDependency("inner", "9"), class_="k")),
        HTMLDependency("i", "1", head=["a<", HTML("<b>"), 3, None, [tags.i("n")]]),
        head_content(tags.title("</title>")),
        HTMLDependency("j", "1", all_files=1),  # type: ignore
        HTMLDependency("</", "1", source={"subdir": "</"}),
    ]


O = '<script type="application/json" data-html-dependency="">'
C = "</script>"
for i, d in enumerate(mk()):
    for indent in (None, 0, 1, 2, 4, "\t", "</", True, -1):
        def go():
            t = d.serialize_to_script_json(indent) if indent is not None else d.serialize_to_script_json()
            s = t.get_html_string()
            inner = s[len(O): -len(C)]
            back = HTMLTextDocument._static_extract_serialized_html_deps("<" + s + ">")
            return (
                type(t).__name__, t.name, dict(t.attrs), len(t.children), type(t.children[0]).__name__,
                repr(s), "</script" in inner.lower(), json.loads(inner) == json.loads(json.dumps(json.loads(inner))),
                back[0], back[1] == [d], [x.as_dict() for x in back[1]],
            )
        run(f"dep{i} indent={indent!r}", go)
    run(f"dep{i} kw", lambda: d.serialize_to_script_json(indent=3).get_html_string())
    run(f"dep{i} str/tagified", lambda: (str(d), str(div(d)), d.serialize_to_script_json().tagify() == d.serialize_to_script_json()))

# The dependency is left untouched by serialisation.
for i, (d, e) in enumerate(zip(mk(), mk())):
    d.serialize_to_script_json(2)
    print(i, d == e, d.__dict__.keys() == e.__dict__.keys(), sorted(k for k in dir(d) if k not in dir(e)))

# Values json cannot encode, bad indent, mutated attributes.
bad = mk()[1]
bad.source = {"subdir": {1, 2}}  # type: ignore
run("set in source", lambda: bad.serialize_to_script_json())
bad2 = mk()[1]
bad2.script = [{"src": b"x"}]  # type: ignore
run("bytes in script", lambda: bad2.serialize_to_script_json())
bad3 = mk()[1]
bad3.head = "raw string head </script>"  # type: ignore
run("str head attr", lambda: bad3.serialize_to_script_json().get_html_string())
bad4 = mk()[1]
bad4.head = object()  # type: ignore
run("object head attr", lambda: bad4.serialize_to_script_json().get_html_string())
bad5 = mk()[1]
del bad5.meta
run("missing meta", lambda: bad5.serialize_to_script_json())
bad6 = mk()[1]
bad6.version = None  # type: ignore
run("None version", lambda: bad6.serialize_to_script_json().get_html_string())
bad7 = mk()[1]
bad7.name = float("nan")  # type: ignore
run("nan name", lambda: bad7.serialize_to_script_json().get_html_string())
run("indent list", lambda: mk()[1].serialize_to_script_json([]).get_html_string())  # type: ignore
run("indent float", lambda: mk()[1].serialize_to_script_json(1.5).get_html_string())  # type: ignore
run("two positional", lambda: mk()[1].serialize_to_script_json(1, 2))  # type: ignore


class Sub(HTMLDependency):
    @property
    def all_files(self):
        print("  read all_files")
        return True

    @all_files.setter
    def all_files(self, v):
        pass


run("subclass", lambda: Sub("s", "1", head="h").serialize_to_script_json().get_html_string())

# JSON render mode uses the same serialisation.
old = ht.html_dependency_render_mode
ht.html_dependency_render_mode = "json"
try:
    ds = mk()
    for ui in (div("hi", ds[1], tags.span(ds[4], ds[3]), ds[2]), TagList(ds[5], "t", ds[8]), TagList(), div()):
        txt = str(ui)
        print(repr(txt))
        doc = HTMLTextDocument("<html><head>@@</head><body>" + txt + "@@</body></html>", deps_replace_pattern="@@")
        r = doc.render()
        print(repr(r["html"]), r["dependencies"], r["dependencies"] == ui.render()["dependencies"])
finally:
    ht.html_dependency_render_mode = old
