import collections
import htmltools
from htmltools import HTMLDependency, HTMLDocument, Tag, TagList, div, span, tags
from htmltools import _core
from packaging.version import Version


def show(label, fn):
    try:
        r = fn()
        print(label, "->", repr(r))
    except BaseException as e:  # noqa
        print(label, "!!", type(e).__name__, repr(str(e)))


def desc(d):
    return (
        d.name,
        str(d.version),
        d.source,
        d.script,
        d.stylesheet,
        d.meta,
        d.all_files,
        None if d.head is None else str(d.head),
    )


class MyDict(dict):
    pass


def gen(items):
    for i in items:
        yield i


# ---------------------------------------------------------------- constructor
print("== constructor: item forms")
item_cases = {
    "none": lambda: None,
    "dict": lambda: {"src": "a.js", "href": "a.css", "name": "n", "content": "c"},
    "list1": lambda: [{"src": "a.js", "href": "a.css", "name": "n", "content": "c"}],
    "list2": lambda: [
        {"src": "a.js", "href": "a.css", "name": "n", "content": "c"},
        {"src": "b.js", "href": "b.css", "name": "m", "content": "d", "rel": "preload"},
    ],
    "empty_list": lambda: [],
    "empty_dict": lambda: {},
    "tuple": lambda: ({"src": "a.js", "href": "a.css", "name": "n", "content": "c"},),
    "empty_tuple": lambda: (),
    "generator": lambda: gen([{"src": "a.js", "href": "a.css", "name": "n", "content": "c"}]),
    "mydict": lambda: MyDict(src="a.js", href="a.css", name="n", content="c"),
    "ordereddict": lambda: collections.OrderedDict(src="a.js", href="a.css", name="n", content="c"),
    "list_mydict": lambda: [MyDict(src="a.js", href="a.css", name="n", content="c")],
    "str": lambda: "a.js",
    "empty_str": lambda: "",
    "int": lambda: 5,
    "zero": lambda: 0,
    "false": lambda: False,
    "list_str": lambda: ["a.js"],
    "list_none": lambda: [None],
    "list_list": lambda: [[{"src": "a.js"}]],
    "missing_all": lambda: {"other": "x"},
    "only_name": lambda: {"name": "n"},
    "only_content": lambda: {"content": "c"},
    "second_bad": lambda: [
        {"src": "a.js", "href": "a.css", "name": "n", "content": "c"},
        {"zzz": 1},
    ],
    "second_nondict": lambda: [
        {"src": "a.js", "href": "a.css", "name": "n", "content": "c"},
        3,
    ],
    "none_values": lambda: {"src": None, "href": None, "name": None, "content": None},
    "set_of_str": lambda: {"src"},
}

for kw in ("script", "stylesheet", "meta"):
    for label, mk in item_cases.items():
        def run(kw=kw, mk=mk):
            val = mk()
            d = HTMLDependency("nm", "1.2", **{kw: val})
            stored = getattr(d, kw)
            ident = stored is val
            if not isinstance(stored, (list, tuple)):
                stored_repr = type(stored).__name__
            else:
                stored_repr = repr(stored)
            parts = tuple(
                x if isinstance(x, (list, tuple)) else type(x).__name__
                for x in desc(d)[3:6]
            )
            leftover = list(stored) if not isinstance(stored, (list, tuple)) else None
            return (parts, ident, stored_repr, type(stored).__name__, leftover)
        show(f"{kw}/{label}", run)

print("== constructor: single vs list identical")
for kw, item in (
    ("script", {"src": "x.js", "defer": ""}),
    ("stylesheet", {"href": "x.css"}),
    ("stylesheet", {"href": "x.css", "rel": "other"}),
    ("meta", {"name": "viewport", "content": "w"}),
):
    a = HTMLDependency("nm", "1", **{kw: dict(item)})
    b = HTMLDependency("nm", "1", **{kw: [dict(item)]})
    print(kw, desc(a) == desc(b), a == b, str(a) == str(b), desc(a))

print("== constructor: input mutation (rel default)")
inp = [{"href": "a.css"}, {"href": "b.css", "rel": "x"}]
d = HTMLDependency("nm", "1", stylesheet=inp)
print(inp, d.stylesheet is inp)
inp2 = {"href": "a.css"}
d = HTMLDependency("nm", "1", stylesheet=inp2)
print(inp2, d.stylesheet[0] is inp2)

print("== constructor: order of validation errors")
show("bad script+bad stylesheet", lambda: HTMLDependency("nm", "1", script={"x": 1}, stylesheet=3))
show("bad stylesheet+bad meta", lambda: HTMLDependency("nm", "1", stylesheet=[1], meta={"name": "n"}))
show("bad source+bad script", lambda: HTMLDependency("nm", "1", source=[], script={"x": 1}))
show("bad source2+bad script", lambda: HTMLDependency("nm", "1", source={}, script={"x": 1}))
show("bad version+bad source", lambda: HTMLDependency("nm", "zzz", source=[]))

print("== constructor: source forms")
source_cases = {
    "none": None,
    "href": {"href": "http://x/"},
    "subdir": {"subdir": "lib"},
    "pkg_subdir": {"package": "htmltools", "subdir": "lib"},
    "both": {"href": "h", "subdir": "s"},
    "pkg_only": {"package": "htmltools"},
    "empty": {},
    "other": {"x": 1},
    "mydict_href": MyDict(href="h"),
    "mydict_empty": MyDict(),
    "ordered": collections.OrderedDict(subdir="s"),
    "list": ["href"],
    "tuple": ("href", "subdir"),
    "str": "href",
    "empty_str": "",
    "int": 0,
    "false": False,
    "set": {"href"},
    "href_none": {"href": None},
    "mappingproxy": type(object.__dict__)({"href": "h"}),
    "defaultdict": collections.defaultdict(list),
    "counter": collections.Counter(href=1),
}
for label, src in source_cases.items():
    def run(src=src):
        d = HTMLDependency("nm", "1.2", source=src)
        return (d.source, d.source is src)
    show(f"source/{label}", run)

dd = collections.defaultdict(list)
show("defaultdict untouched", lambda: (HTMLDependency("nm", "1", source=dd) if False else None, dict(dd)))
try:
    HTMLDependency("nm", "1", source=dd)
except TypeError as e:
    print("dd after:", dict(dd))

print("== validate helpers directly")
d0 = HTMLDependency("lib-x", "2.0.1")
show("vd ok", lambda: d0._validate_dict({"a": 1, "b": 2}, ["a", "b"]))
show("vd empty req", lambda: d0._validate_dict({}, []))
show("vd missing b", lambda: d0._validate_dict({"a": 1}, ["a", "b"]))
show("vd missing a first", lambda: d0._validate_dict({}, ["a", "b"]))
show("vd nondict", lambda: d0._validate_dict([("a", 1)], ["a"]))
show("vd none", lambda: d0._validate_dict(None, ["a"]))
show("vd str", lambda: d0._validate_dict("abc", []))
show("vds ok", lambda: d0._validate_dicts([{"a": 1}, {"a": 2}], ["a"]))
show("vds empty", lambda: d0._validate_dicts([], ["a"]))
show("vds second", lambda: d0._validate_dicts([{"a": 1}, {"b": 2}], ["a"]))
show("vds noniter", lambda: d0._validate_dicts(3, ["a"]))
show("vds dict iter", lambda: d0._validate_dicts({"a": 1}, ["a"]))
show("vds tuple req", lambda: d0._validate_dicts([{"a": 1}], ("a", "z")))


class BadStr(dict):
    def __repr__(self):
        raise RuntimeError("repr boom")

    __str__ = __repr__


show("vd badstr missing", lambda: d0._validate_dict(BadStr(), ["a"]))


class NoFmt:
    def __str__(self):
        raise RuntimeError("str boom")

    __repr__ = __str__


show("vd nofmt", lambda: d0._validate_dict(NoFmt(), ["a"]))

d1 = HTMLDependency("weird", Version("3.1rc1"))
show("repr", lambda: repr(d1))
show("repr d0", lambda: repr(d0))
show("vd msg with Version obj", lambda: d1._validate_dict(1, []))
d1.version = 7
d1.name = None
show("repr odd", lambda: repr(d1))
show("vd msg odd", lambda: d1._validate_dict({}, ["q"]))
del d1.version
show("repr no version", lambda: repr(d1))
show("vd ok no version", lambda: d1._validate_dict({"q": 1}, ["q"]))
show("vd fail no version", lambda: d1._validate_dict({}, ["q"]))
show("vd nondict no version", lambda: d1._validate_dict(1, ["q"]))

# ---------------------------------------------------------------- resolution
print("== resolve")


def dep(name, version, **kw):
    return HTMLDependency(name, version, **kw)


def ids(deps, pool):
    out = []
    for x in deps:
        idx = [i for i, p in enumerate(pool) if p is x]
        out.append((x.name, str(x.version), idx))
    return out


pool = [
    dep("a", "1.9"),
    dep("b", "2.0"),
    dep("a", "1.10"),
    dep("c", "0.1"),
    dep("a", "1.10.0"),
    dep("b", "2.0"),
    dep("b", "1.99"),
    dep("c", "0.1.1"),
    dep("d", "1.0a1"),
    dep("d", "1.0"),
    dep("d", "1.0.post1"),
    dep("d", "1.0.dev3"),
    dep("A", "0"),
    dep("", "1"),
    dep("", "2"),
]

R = _core._resolve_dependencies
show("empty", lambda: R([]))
show("all", lambda: ids(R(pool), pool))
show("rev", lambda: ids(R(pool[::-1]), pool))
show("idem", lambda: ids(R(R(pool)), pool) == ids(R(pool), pool))
show("idem rev", lambda: ids(R(R(pool[::-1])), pool) == ids(R(pool[::-1]), pool))
show("single", lambda: ids(R([pool[0]]), pool))
show("same obj twice", lambda: ids(R([pool[0], pool[0]]), pool))
show("tuple input", lambda: ids(R(tuple(pool)), pool))
show("gen input", lambda: ids(R(gen(pool)), pool))
show("new list", lambda: (lambda l: R(l) is l)([pool[0]]))
import itertools
for perm in itertools.permutations([pool[0], pool[2], pool[4], pool[1], pool[6]], 5):
    pass
cnt = 0
for perm in itertools.permutations([pool[0], pool[2], pool[4], pool[1]], 4):
    print("perm", cnt, ids(R(list(perm)), pool))
    cnt += 1


class Fake:
    def __init__(self, **kw):
        self.__dict__.update(kw)

    def __repr__(self):
        return "Fake(%r)" % (sorted(self.__dict__.items()),)


show("fake ints", lambda: R([Fake(name=1, version=1), Fake(name=1, version=3), Fake(name=1, version=2), Fake(name=1.0, version=3)]))
show("fake first no version", lambda: R([Fake(name="x")]))
show("fake first no version, second has", lambda: R([Fake(name="x"), Fake(name="x", version=1)]))
show("fake second no version", lambda: R([Fake(name="x", version=1), Fake(name="x")]))
show("fake no name", lambda: R([Fake(version=1)]))
show("fake unhashable", lambda: R([Fake(name=[], version=1)]))
show("fake incomparable", lambda: R([Fake(name="x", version=1), Fake(name="x", version="1")]))
show("none in list", lambda: R([None]))
show("nan versions", lambda: R([Fake(name="x", version=float("nan")), Fake(name="x", version=2.0), Fake(name="x", version=float("nan"))]))
show("none name", lambda: R([Fake(name=None, version=1), Fake(name=None, version=2)]))
show("not iterable", lambda: R(None))
show("version str vs Version", lambda: R([Fake(name="x", version=Version("1")), Fake(name="x", version="2")]))

print("== trees")
p = pool
tree = div(
    p[0],
    "text",
    span(p[1], span(p[2], TagList(p[3], [p[4], (p[5],)]))),
    TagList(p[6], div(p[7])),
    [p[8], [p[9], div(div(div(p[10])))]],
    p[11],
    None,
    p[12],
    div(p[13], id="x"),
    span(p[14]),
)
show("tag dedup default", lambda: ids(tree.get_dependencies(), pool))
show("tag dedup True pos", lambda: ids(tree.get_dependencies(True), pool))
show("tag dedup False pos", lambda: ids(tree.get_dependencies(False), pool))
show("tag dedup kw False", lambda: ids(tree.get_dependencies(dedup=False), pool))
show("tag dedup 0", lambda: ids(tree.get_dependencies(0), pool))
show("tag dedup 'x'", lambda: ids(tree.get_dependencies("x"), pool))
show("tag dedup None", lambda: ids(tree.get_dependencies(None), pool))
show("children dedup", lambda: ids(tree.children.get_dependencies(), pool))
show("children nodedup", lambda: ids(tree.children.get_dependencies(dedup=False), pool))
show("children dedup []", lambda: ids(tree.children.get_dependencies(dedup=[]), pool))
show("children positional", lambda: tree.children.get_dependencies(False))
tl = TagList(tree, p[2], tree, p[0])
show("taglist dedup", lambda: ids(tl.get_dependencies(), pool))
show("taglist nodedup", lambda: ids(tl.get_dependencies(dedup=False), pool))
show("empty taglist", lambda: (TagList().get_dependencies(), TagList().get_dependencies(dedup=False)))
show("empty tag", lambda: (div().get_dependencies(), div().get_dependencies(False)))
show("no deps", lambda: div("a", span("b")).get_dependencies())
show("result fresh list", lambda: (lambda t: t.get_dependencies(dedup=False) is t.get_dependencies(dedup=False))(TagList(p[0])))
show("result types", lambda: (type(tl.get_dependencies()).__name__, type(tl.get_dependencies(dedup=False)).__name__))

# position independence
flat = TagList(*pool)
deep = TagList()
cur = deep
for x in pool:
    nxt = div(x)
    cur.append(nxt)
    cur = nxt.children
show("flat vs deep", lambda: (ids(flat.get_dependencies(), pool) == ids(deep.get_dependencies(), pool), ids(flat.get_dependencies(dedup=False), pool) == ids(deep.get_dependencies(dedup=False), pool)))
show("deep", lambda: ids(deep.get_dependencies(), pool))
show("idempotent via tree", lambda: ids(TagList(*flat.get_dependencies()).get_dependencies(), pool) == ids(flat.get_dependencies(), pool))

# dependencies in attrs are not collected; deps within head= are not collected
show("dep in head", lambda: ids(div(dep("h", "1", head=div(p[0]))).get_dependencies(), pool))


class CountingTag(Tag):
    calls = []

    def get_dependencies(self, dedup=True):
        CountingTag.calls.append((self.name, dedup))
        return super().get_dependencies(dedup)


class FixedTag(Tag):
    def get_dependencies(self, dedup=True):
        return (p[6], p[0], p[6])


class BoomTag(Tag):
    def get_dependencies(self, dedup=True):
        raise ValueError("boom " + self.name)


ct = CountingTag("ct1", p[0], CountingTag("ct2", p[2], div(CountingTag("ct3", p[4]))), FixedTag("fx"), p[1])
show("counting dedup", lambda: ids(ct.get_dependencies(), pool))
print(CountingTag.calls)
CountingTag.calls.clear()
show("counting nodedup", lambda: ids(TagList(ct, ct).get_dependencies(dedup=False), pool))
print(CountingTag.calls)
CountingTag.calls.clear()
show("boom", lambda: TagList(p[0], div(BoomTag("bt1")), BoomTag("bt2")).get_dependencies())
show("render with counting", lambda: ids(ct.render()["dependencies"], pool))
print(CountingTag.calls)

# Non-tagified / odd children in a raw list subclass
raw = TagList()
raw.data.extend([p[0], 5, None, [p[1]], (p[2],), {"a": p[3]}, div(p[4])])
show("raw children", lambda: ids(raw.get_dependencies(dedup=False), pool))

print("== render")
show("tag render", lambda: (lambda r: (ids(r["dependencies"], pool), r["html"]))(tree.render()))
show("taglist render", lambda: (lambda r: (ids(r["dependencies"], pool), r["html"]))(tl.render()))
full = [
    dep("x", "1.1", source={"href": "https://cdn/x"}, script={"src": "x.js"}, stylesheet={"href": "x.css"}, meta={"name": "m", "content": "c"}),
    dep("x", "1.2", source={"href": "https://cdn/x2"}, script=[{"src": "x2.js"}, {"src": "y 2.js", "defer": ""}], stylesheet=[{"href": "x2.css", "media": "print"}], head="<title>t</title>"),
    dep("y", "0.3", source={"subdir": "nonexistent-dir"}, script={"src": "y.js"}, all_files=True),
]
doc = HTMLDocument(div(full[0], span(full[2], full[1]), full[0]))
show("doc render", lambda: (lambda r: ([(x.name, str(x.version)) for x in r["dependencies"]], r["html"]))(doc.render()))
show("doc render noversion", lambda: doc.render(lib_prefix=None, include_version=False)["html"])
for f in full:
    show("as_dict", lambda f=f: {k: v for k, v in f.as_dict().items()})
    show("tags", lambda f=f: str(f.as_html_tags()))
    show("json", lambda f=f: str(f.serialize_to_script_json()))
show("head_content dedup", lambda: [x.name for x in div(htmltools.head_content("a"), htmltools.head_content("a"), htmltools.head_content("b")).get_dependencies()])

print("== versions")
for v in ("1", "1.0", "01.0", "1.0.0.0", "1!0", "2.0rc1", "v1.2", " 1.3 ", "1.0+local"):
    show("ver " + repr(v), lambda v=v: desc(dep("n", v))[:2])
for v in ("", "abc", "1..2", "1.x"):
    show("badver " + repr(v), lambda v=v: dep("n", v))
show("ver obj", lambda: dep("n", Version("4.5")).version)
show("ver int", lambda: dep("n", 3).version)
show("ver none", lambda: dep("n", None).version)
show("lexical trap", lambda: ids(TagList(dep("q", "1.9"), dep("q", "1.10"), dep("q", "1.2")).get_dependencies(), []))
show("tie earliest", lambda: (lambda a, b, c: [x is a for x in TagList(c, a, b).get_dependencies()])(dep("q", "2.0"), dep("q", "2"), dep("q", "1")))
