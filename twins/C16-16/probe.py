import htmltools
from htmltools import css, div, HTML, tags


def show(label, f):
    try:
        r = f()
        print(label, "->", type(r).__name__, repr(r))
    except BaseException as e:  # noqa
        print(label, "-> EXC", type(e).__name__, str(e))


class Weird:
    def __str__(self):
        return "weird;val"


class BadStr:
    def __str__(self):
        raise RuntimeError("nope")


cases = [
    ("empty", lambda: css()),
    ("all none", lambda: css(a=None, b=None)),
    ("basic", lambda: css(font_size="12px", backgroundColor="red")),
    ("collapse nl", lambda: css("\n", font_size="12px", backgroundColor="red")),
    ("collapse kw", lambda: css(collapse_=" ", a=1, b=2.5)),
    ("collapse None", lambda: css(None, a=1)),
    ("collapse int", lambda: css(1, a=1)),
    ("collapse None no kwargs", lambda: css(None)),
    ("skip none middle", lambda: css(a="1", b=None, c="3")),
    ("list val", lambda: css(margin=["1px", "2px"])),
    ("empty list val", lambda: css(margin=[])),
    ("list bad", lambda: css(margin=[1, 2])),
    ("tuple val", lambda: css(margin=("1px", "2px"))),
    ("bool", lambda: css(a=True, b=False)),
    ("zero", lambda: css(a=0, b="")),
    ("float", lambda: css(opacity=0.5, z=1e30)),
    ("camel multi", lambda: css(borderTopLeftRadius="1px")),
    ("leading upper", lambda: css(WebkitTransform="x", MozX="y")),
    ("consecutive upper", lambda: css(fooBAR="x", ABC="1")),
    ("underscore edge", lambda: css(_a="1", a_="2", a__b="3", _="4", __="5")),
    ("mixed", lambda: css(font_Size="1", Font_size="2", a_B_c="3")),
    ("digits", lambda: css(a1B2="x", h1_="y")),
    ("unicode", lambda: css(**{"École": "1", "straßeX": "2", "İx": "3", "ǅ": "4"})),
    ("nonident keys", lambda: css(**{"a-b": "1", "a b": "2", "": "3", "A": "4", "a:b;": "5"})),
    ("html value", lambda: css(a=HTML("<b>"))),
    ("weird", lambda: css(a=Weird())),
    ("badstr", lambda: css(a="1", b=BadStr())),
    ("none then bad", lambda: css(a=None, b=BadStr())),
    ("val with specials", lambda: css(content="';\"<&>")),
    ("order", lambda: css(z="1", a="2", m="3")),
    ("many", lambda: css("|", **{f"prop_{i}Name": i for i in range(12)})),
    ("dict val", lambda: css(a={"x": 1})),
    ("bytes val", lambda: css(a=b"x")),
    ("nested list", lambda: css(a=[["x"]])),
]
for label, f in cases:
    show(label, f)


# Accepted by add_style
def style_roundtrip(**kw):
    t = div()
    r = t.add_style(css(**kw))
    return (r is t, str(t))


show("add_style(css)", lambda: style_roundtrip(font_size="1px", backgroundColor="blue"))
show("add_style(css) list", lambda: style_roundtrip(margin=["1px", "2px"]))
show("add_style(css none)", lambda: div().add_style(css()))
show("style attr", lambda: str(div(style=css(color="red", fontWeight="bold"))))
show("style attr nl", lambda: str(div(style=css("\n", color="red", fontWeight="bold"))))
show("helper names", lambda: sorted(n for n in dir(htmltools) if n in ("css", "html_escape")))
