# Probe for refactoring 4: Tag.add_class / Tag.add_style share _merge_attr_value.
import copy
from htmltools import HTML, TagList, Tag, div, span, tags


def show(label, fn):
    try:
        r = fn()
        print(label, "->", type(r).__name__, repr(r))
    except Exception as e:  # noqa: BLE001
        print(label, "-> EXC", type(e).__name__, str(e))


def items(t):
    return [(k, type(v).__name__, str(v)) for k, v in t.attrs.items()]


def mk(kind):
    return {
        "none": lambda: div("k"),
        "empty": lambda: div("k", class_="", style=""),
        "plain": lambda: div("k", id="i", class_="a b", style="x:1;", title="t"),
        "html": lambda: div("k", class_=HTML("<h>"), style=HTML("y:'2';")),
        "esc": lambda: div("k", class_="a&b", style='f:"q";'),
        "void": lambda: tags.img(class_="im", src="s"),
    }[kind]()


CLASSES = ["c", "", "c d", " c ", "a", "<c>&'\"", HTML("<raw>"), HTML(""), "é"]
STYLES = ["z:3;", ";", "a:'b';", HTML("h:<4>;"), HTML(";"), "w:1; v:2;"]
PREPENDS = [False, True, 0, 1, None, "yes", ""]

for kind in ("none", "empty", "plain", "html", "esc", "void"):
    for c in CLASSES:
        for p in PREPENDS:
            def f():
                t = mk(kind)
                r = t.add_class(c, prepend=p)
                return (r is t, items(t), str(t))
            show(f"add_class[{kind}]({c!r},prepend={p!r})", f)
    for s in STYLES:
        for p in PREPENDS:
            def g():
                t = mk(kind)
                r = t.add_style(s, prepend=p)
                return (r is t, items(t), str(t))
            show(f"add_style[{kind}]({s!r},prepend={p!r})", g)

# defaults, positional misuse, bad values
show("default-class", lambda: str(mk("plain").add_class("z")))
show("default-style", lambda: str(mk("plain").add_style("z:0;")))
show("positional-prepend-class", lambda: mk("plain").add_class("z", True))
show("positional-prepend-style", lambda: mk("plain").add_style("z:0;", True))
for bad in (None, False, True, 5, 2.5, ["a"], b"b;", object()):
    for p in (False, True):
        def h():
            t = mk("plain")
            try:
                return str(t.add_class(bad, prepend=p))
            finally:
                print("   state:", items(t))
        show(f"bad-class({type(bad).__name__},{p})", h)

        def k():
            t = mk("plain")
            try:
                return str(t.add_style(bad, prepend=p))
            finally:
                print("   state:", items(t))
        show(f"bad-style({type(bad).__name__},{p})", k)
show("style-nosemi", lambda: mk("plain").add_style("a:b"))
show("style-nosemi-html", lambda: mk("plain").add_style(HTML("a:b")))
show("style-empty", lambda: mk("plain").add_style(""))

# chaining, attribute order, interplay with remove_class / has_class / copy / equality
t = div("k", id="i")
t.add_class("one").add_style("s:1;").add_class("zero", prepend=True).add_style("s:0;", prepend=True).add_class(HTML("<t>"))
show("chain", lambda: (items(t), str(t)))
show("has", lambda: (t.has_class("one"), t.has_class("<t>"), t.has_class("nope")))
show("remove", lambda: str(t.remove_class("one")))
c = copy.copy(t)
c.add_class("only-copy")
show("copy", lambda: (str(t), str(c), t == c))
show("eq", lambda: div(class_="a").add_class("b") == div(class_="a b"))
show("dict-keys", lambda: sorted(div().add_class("a").__dict__.keys()))
show("nested", lambda: str(TagList(div(span("x").add_class("in"), tags.br().add_style("d:n;")).add_class("out"))))
show("svg-like", lambda: str(Tag("my-el", "t", _add_ws=False).add_class("a_b").add_style("c_d:e;")))
