# Probe for refactoring 2: htmltools._core._tagchilds_to_tagnodes (and every caller)
import copy
from htmltools import TagList, Tag, div, span, HTML, HTMLDependency, HTMLDocument
from htmltools import is_tag_node, is_tag_child
from htmltools._core import _tagchilds_to_tagnodes as norm

LOG = []


def desc(v):
    if isinstance(v, (list, tuple)) and not isinstance(v, str):
        return type(v).__name__ + "[" + ", ".join(desc(i) for i in v) + "]"
    if isinstance(v, TagList):
        return type(v).__name__ + "<" + ", ".join(desc(i) for i in v.data) + ">"
    if isinstance(v, (str, int, float, Tag)) or v is None:
        return type(v).__name__ + ":" + repr(str(v))
    return type(v).__name__


def show(label, fn):
    try:
        print(label, "->", desc(fn()))
    except BaseException as e:  # noqa
        print(label, "!!", type(e).__name__, str(e))


class MyInt(int):
    def __str__(self):
        LOG.append("MyInt.__str__")
        return "myint<%d>" % int(self)


class MyFloat(float):
    def __str__(self):
        LOG.append("MyFloat.__str__")
        return "myfloat"


class BadStr(int):
    def __str__(self):
        LOG.append("BadStr.__str__")
        raise ValueError("no str for you")


class NonStrStr(int):
    def __str__(self):
        return 5  # str() raises TypeError


class IntTagifiable(int):
    def tagify(self):
        return "tagified"

    def __str__(self):
        return "int-wins"


class MyStr(str):
    pass


class Tagif:
    def tagify(self):
        return TagList("t", 1, None, [2.5, span("s")])


class Repr:
    def _repr_html_(self):
        return "<b>r</b>"


class Spy:
    def __getattr__(self, name):
        LOG.append("Spy.getattr:" + name)
        raise AttributeError(name)


dep = HTMLDependency("d", "1.0")
cases = [
    ("empty-list", lambda: norm([])),
    ("empty-tuple", lambda: norm(())),
    ("str", lambda: norm("hello")),
    ("empty-str", lambda: norm("")),
    ("mystr", lambda: norm(MyStr("abc"))),
    ("HTML-top", lambda: norm(HTML("<i>x</i>"))),
    ("list-of-str", lambda: norm(["ab", "", "c"])),
    ("numbers", lambda: norm([1, 2.5, -0.0, 1e100, float("nan"), float("inf"), True, False, 10**30])),
    ("nested", lambda: norm([1, [2, (None, "x", [None, [3.5]])], None, TagList("a", 4)])),
    ("taglist-arg", lambda: norm(TagList("a", div("b"), 3))),
    ("nodes", lambda: norm([div(), span("x"), HTML("<p>"), dep, Repr(), Tagif(), MyStr("s")])),
    ("subclass-numbers", lambda: norm([MyInt(3), MyFloat(1.5), IntTagifiable(7)])),
    ("generator", lambda: norm(x for x in [1, [2, None], "s"])),
    ("dict-top", lambda: norm({"a": 1})),
    ("range", lambda: norm(range(3))),
    ("bad-dict", lambda: norm([1, {"a": 1}])),
    ("bad-set", lambda: norm([{1}])),
    ("bad-bytes", lambda: norm(["ok", b"bytes"])),
    ("bad-object", lambda: norm([object()])),
    ("bad-complex", lambda: norm([1, 2j, 3])),
    ("bad-range-nested", lambda: norm([range(3)])),
    ("bad-generator-nested", lambda: norm([(x for x in [1])])),
    ("bad-type-class", lambda: norm([int])),
    ("bad-function", lambda: norm([len])),
    ("not-iterable", lambda: norm(5)),
    ("none", lambda: norm(None)),
    ("bad-str-raises", lambda: norm([MyInt(1), BadStr(2), MyInt(3)])),
    ("nonstr-str", lambda: norm([NonStrStr(2)])),
    ("spy", lambda: norm(["a", Spy(), MyInt(9)])),
    ("order", lambda: norm([MyInt(1), [MyFloat(2.0), object()], MyInt(3)])),
]
for label, fn in cases:
    LOG.clear()
    show(label, fn)
    print("   log:", LOG)

# result is a fresh list, independent of the input; input not altered
src = [1, ["a", None], div()]
before = desc(src)
out = norm(src)
out.append("extra")
print("input-unchanged", desc(src) == before, out is src, len(src), len(out))
print("identity-kept", norm([src[2]])[0] is src[2])
tl = TagList("a", "b")
out = norm(tl)
print("taglist-fresh", out is tl.data, out == tl.data)
s = "abc"
o1 = norm(s)
o2 = norm(s)
print("str-fresh", o1 is o2, o1)

# all callers: constructor, extend, append, insert, +=, tagify; atomic on failure
def state(x):
    return desc(x), all(is_tag_node(i) for i in x)

show("ctor-bad", lambda: TagList("a", [1, object()]))
show("div-bad", lambda: div("a", [1, {2}]))
t = TagList("a", 1)
for label, fn in [
    ("extend-bad", lambda: t.extend([2, [3, object()]])),
    ("append-bad", lambda: t.append(2, 3, b"x")),
    ("insert-bad", lambda: t.insert(0, [2, {1: 2}.keys()])),
    ("iadd-bad", lambda: t.__iadd__([5, 6j])),
    ("extend-ok", lambda: t.extend([2, [3, None, (MyInt(4),)]])),
    ("append-ok", lambda: t.append(5.5, None, [span(6)])),
    ("insert-ok", lambda: t.insert(1, [True, "i", None])),
    ("insert-none", lambda: t.insert(0, None)),
    ("insert-neg", lambda: t.insert(-1, 0)),
    ("extend-str", lambda: t.extend("xyz")),
    ("iadd-ok", lambda: t.__iadd__((7, [8]))),
]:
    show(label, fn)
    print("   ", *state(t))

d = div("k", 1, [2.0, None])
show("tag-append-bad", lambda: d.append("ok", object()))
print("   ", *state(d.children))
show("tag-insert", lambda: d.insert(1, [None, 9, ("z",)]))
print("   ", *state(d.children))
show("tagify", lambda: TagList("a", Tagif(), div(Tagif()), dep).tagify())


class BadTagif:
    def tagify(self):
        r = TagList("x")
        r.data.append(object())
        return r


orig = TagList("a", BadTagif(), "b")
show("tagify-bad", lambda: orig.tagify())
print("   ", [type(i).__name__ for i in orig])
show("doc", lambda: HTMLDocument(1, [2, None]).render()["html"])
show("slice", lambda: TagList(1, 2, 3, "x")[1:3])
show("mul", lambda: TagList(1, "x") * 2)
show("add", lambda: TagList(1) + [2, None, (3,)])
show("radd", lambda: [2, None, (3,)] + TagList(1))
show("copy", lambda: copy.copy(TagList(1, div())))
