# Probe for refactoring 5: _VOID_TAG_NAMES / _NO_ESCAPE_TAG_NAMES tables and the
# empty / single-text-child branches of Tag.get_html_string
from htmltools import HTML, HTMLDependency, HTMLDocument, Tag, TagList, div, span, head_content, tags
from htmltools import _core
from htmltools._jsx import jsx


def show(label, fn):
    try:
        r = fn()
        print(label, "->", repr(r))
    except BaseException as e:  # noqa
        print(label, "!!", type(e).__name__, str(e)[:100])


print("void:", sorted(_core._VOID_TAG_NAMES), len(_core._VOID_TAG_NAMES))
print("noescape:", sorted(_core._NO_ESCAPE_TAG_NAMES), len(_core._NO_ESCAPE_TAG_NAMES))
for probe in ["br", "BR", "meta", "div", "script", "style", "Script", "", "br ", None, 1, ("br",)]:
    show("membership %r" % (probe,), lambda p=probe: (p in _core._VOID_TAG_NAMES, p in _core._NO_ESCAPE_TAG_NAMES))
show("membership unhashable", lambda: ["br"] in _core._VOID_TAG_NAMES)
show("equal to plain sets", lambda: (_core._VOID_TAG_NAMES == {"area", "base", "br", "col", "command", "embed", "hr", "img", "input", "keygen", "link", "meta", "param", "source", "track", "wbr"}, _core._NO_ESCAPE_TAG_NAMES == {"script", "style"}))


class S(str):
    pass


dep = HTMLDependency("d", "1.0", script={"src": "d.js"})
hc = head_content(tags.title("T"))
names = ["div", "br", "BR", "img", "meta", "link", "input", "wbr", "command", "keygen", "script", "style",
         "Script", "p", "", "x-y", "svg:a", S("br"), S("script"), S("div"), "title", "textarea", "pre"]
kids = {
    "none": (),
    "None": (None,),
    "dep_only": (dep,),
    "hc_only": (hc, dep),
    "empty_str": ("",),
    "text": ("a < b & \"c\" 'd' >",),
    "text_nl": ("l1\nl2\r\n",),
    "html": (HTML("<b>&amp;</b>"),),
    "html_empty": (HTML(""),),
    "str_subclass": (S("s<t"),),
    "jsx": (jsx("a<b"),),
    "number": (3,),
    "float": (2.5,),
    "text_and_dep": ("a<b", dep),
    "dep_and_html": (hc, HTML("<i>")),
    "two_text": ("a<", "b>"),
    "text_html": ("a<", HTML("<b>")),
    "tag": (span("x"),),
    "tag_inline": (span("x", _add_ws=False),),
    "void_child": (tags.br(),),
    "mixed": ("t<", span("x"), HTML("<i>"), dep, tags.br(), "u>"),
    "nested_list": (["a<", [HTML("<b>")]],),
    "script_child": (tags.script("1<2"), tags.style("a>b{}")),
    "taglist_one": (TagList("only<"),),
    "taglist_empty": (TagList(),),
}
for n in names:
    for kname, kv in kids.items():
        for add_ws in (True, False):
            t = Tag(n, *kv, _add_ws=add_ws, id="i", title="a<\"b")
            show("html %r %s ws=%s" % (n, kname, add_ws), t.get_html_string)
        t = Tag(n, *kv)
        show("html %r %s indent2" % (n, kname), lambda t=t: t.get_html_string(2, "\r\n"))
        show("html %r %s eol=''" % (n, kname), lambda t=t: t.get_html_string(1, ""))

# return type and str()/repr
show("type empty", lambda: type(div().get_html_string()).__name__)
show("type void", lambda: type(tags.br().get_html_string()).__name__)
show("type text", lambda: type(div(S("x")).get_html_string()).__name__)
show("type script html", lambda: type(tags.script(HTML("x")).get_html_string()).__name__)
show("str", lambda: str(tags.script("a<b", dep)))
show("render", lambda: (lambda r: (r["html"], [repr(d) for d in r["dependencies"]]))(div(tags.meta(hc), tags.style("x>y"), dep).render()))

# children manipulated after construction
t = tags.br(); t.append("now has a child")
show("void with late child", t.get_html_string)
t = tags.script("a<b"); t.children.clear()
show("script emptied", t.get_html_string)
t = tags.style("a<b"); t.append("c>d")
show("style two strings", t.get_html_string)
t = div("x"); t.name = "script"
show("renamed to script", t.get_html_string)
t = div(); t.name = "hr"
show("renamed to hr", t.get_html_string)

# bad names / bad children
t = div("x"); t.name = None
show("name None", t.get_html_string)
t = div(); t.name = None
show("name None empty", t.get_html_string)
t = div(); t.name = 3
show("name int", t.get_html_string)
t = div(); t.name = ["div"]
show("name list", t.get_html_string)
t = div("x"); t.name = b"div"
show("name bytes", t.get_html_string)
t = div(); t.children.data.append(5)
show("int child single", t.get_html_string)
t = div("a"); t.children.data.append(5)
show("int child second", t.get_html_string)
t = tags.script(); t.children.data.append(5)
show("script int child", t.get_html_string)
t = div(); t.children.data.append(None)
show("None child", t.get_html_string)


class R:
    def _repr_html_(self):
        return "<r/>"


show("reprhtml single", lambda: div(R()).get_html_string())
show("reprhtml in script", lambda: tags.script(R()).get_html_string())
show("reprhtml in br", lambda: tags.br(R()).get_html_string())


class Tg:
    def tagify(self):
        return "tagified<"


show("tagifiable unrendered", lambda: div(Tg()).get_html_string())
show("tagifiable rendered", lambda: str(tags.script(Tg())))

# documents
doc = HTMLDocument(tags.head(tags.meta(name="a"), tags.script("x<y")), tags.body(tags.br(), tags.img(src="a&b"), hc, dep))
print(doc.render()["html"])
print(HTMLDocument(tags.html(tags.body(tags.input(type="text"), tags.style("p>q{}"), hc))).render(lib_prefix=None)["html"])
