"""Probe for refactoring 2: _equals_impl (== of Tag / TagList / HTMLDependency)."""
import copy
import itertools

from htmltools import HTML, HTMLDependency, HTMLDocument, Tag, TagList, div, span, tags
from htmltools import _core
from htmltools._jsx import jsx_tag_create


def show(label, fn):
    try:
        res = fn()
        print(label, "=>", repr(res), type(res).__name__)
    except Exception as e:  # noqa: BLE001
        print(label, "=> EXC", type(e).__name__, str(e))


def dep(name="a", version="1.0", **kw):
    kw.setdefault("source", {"subdir": "x"})
    return HTMLDependency(name, version, **kw)


class MyDiv(Tag):
    pass


class Sub(TagList):
    pass


class SubDep(HTMLDependency):
    pass


objs = {
    "div()": div(),
    "div()#2": div(),
    "span()": span(),
    "Tag(div,ws=F)": Tag("div", _add_ws=False),
    "div(a)": div("a"),
    "div(a)#2": div("a"),
    "div(b)": div("b"),
    "div(a,b)": div("a", "b"),
    "div(ab)": div("ab"),
    "div(id=x)": div(id="x"),
    "div(id=y)": div(id="y"),
    "div(id=x,cls)": div(id="x", class_="c"),
    "div(cls,id=x)": div(class_="c", id="x"),
    "div(HTML a)": div(HTML("a")),
    "div(span)": div(span("k")),
    "div(span)#2": div(span("k")),
    "div(span k2)": div(span("k2")),
    "div(dep)": div(dep()),
    "div(dep)#2": div(dep()),
    "div(dep v2)": div(dep(version="2.0")),
    "div(dep b)": div(dep(name="b")),
    "MyDiv": MyDiv("div"),
    "MyDiv(a)": MyDiv("div", "a"),
    "TagList()": TagList(),
    "TagList()#2": TagList(),
    "TagList(a)": TagList("a"),
    "TagList(div)": TagList(div()),
    "TagList(div)#2": TagList(div()),
    "TagList(a,b)": TagList("a", "b"),
    "Sub()": Sub(),
    "Sub(a)": Sub("a"),
    "dep": dep(),
    "dep#2": dep(),
    "dep v1": dep(version="1"),
    "dep script": dep(script={"src": "s.js"}),
    "dep script#2": dep(script=[{"src": "s.js"}]),
    "dep css": dep(stylesheet={"href": "s.css"}),
    "dep meta": dep(meta={"name": "n", "content": "c"}),
    "dep head": dep(head="<x>"),
    "dep head#2": dep(head=HTML("<x>")),
    "dep head tag": dep(head=tags.title("t")),
    "dep all": dep(all_files=True),
    "dep href": dep(source={"href": "http://h"}),
    "dep nosrc": HTMLDependency("a", "1.0"),
    "SubDep": SubDep("a", "1.0", source={"subdir": "x"}),
    "str a": "a",
    "HTML a": HTML("a"),
    "None": None,
    "int 1": 1,
    "list []": [],
    "list [a]": ["a"],
    "dict": {},
    "doc": HTMLDocument(),
}

names = list(objs)
print("=== full == / != matrix")
for a in names:
    row_eq = []
    row_ne = []
    for b in names:
        try:
            r = objs[a] == objs[b]
            row_eq.append("T" if r is True else "F" if r is False else "?" + repr(r))
        except Exception as e:  # noqa: BLE001
            row_eq.append("E:" + type(e).__name__)
        try:
            r = objs[a] != objs[b]
            row_ne.append("T" if r is True else "F" if r is False else "?" + repr(r))
        except Exception as e:  # noqa: BLE001
            row_ne.append("E:" + type(e).__name__)
    print(f"{a:16s} ==", "".join(row_eq))
    print(f"{a:16s} !=", "".join(row_ne))

print("=== direct _equals_impl on odd inputs")
impl = _core._equals_impl
show("impl(div,div)", lambda: impl(div(), div()))
show("impl(div,None)", lambda: impl(div(), None))
show("impl(div,MyDiv)", lambda: impl(Tag("div"), MyDiv("div")))
show("impl(MyDiv,div)", lambda: impl(MyDiv("div"), Tag("div")))
show("impl(TagList,list)", lambda: impl(TagList("a"), ["a"]))
show("impl(list,TagList)", lambda: impl(["a"], TagList("a")))
show("impl(1,1)", lambda: impl(1, 1))
show("impl(None,None)", lambda: impl(None, None))


class Plain:
    def __init__(self, **kw):
        self.__dict__.update(kw)


show("plain eq", lambda: impl(Plain(a=1, b=2), Plain(a=1, b=2)))
show("plain extra in y", lambda: impl(Plain(a=1), Plain(a=1, b=2)))
show("plain extra in x", lambda: impl(Plain(a=1, b=2), Plain(a=1)))
show("plain extra None in x", lambda: impl(Plain(a=1, b=None), Plain(a=1)))
show("plain empty", lambda: impl(Plain(), Plain()))
show("plain nan", lambda: impl(Plain(a=float("nan")), Plain(a=float("nan"))))
p = Plain(a=float("nan"))
show("plain nan self", lambda: impl(p, p))

# order of comparison + short circuit
log = []


class Loud:
    def __init__(self, tag, val):
        self.tag, self.val = tag, val

    def __ne__(self, other):
        log.append(("ne", self.tag))
        return self.val != getattr(other, "val", None)

    def __eq__(self, other):
        log.append(("eq", self.tag))
        return self.val == getattr(other, "val", None)


x = Plain(a=Loud("xa", 1), b=Loud("xb", 2), c=Loud("xc", 3))
y = Plain(a=Loud("ya", 1), b=Loud("yb", 9), c=Loud("yc", 3))
show("loud ne", lambda: impl(x, y))
print(log)
log.clear()
y.b.val = 2
show("loud eq", lambda: impl(x, y))
print(log)


class Boom:
    def __ne__(self, other):
        raise ArithmeticError("boom")


show("raising __ne__", lambda: impl(Plain(a=1, b=Boom()), Plain(a=1, b=2)))
show("raising __ne__ after diff", lambda: impl(Plain(a=1, b=Boom()), Plain(a=2, b=2)))


class Weird:
    def __ne__(self, other):
        return "nonempty"  # truthy non-bool


class Weird0:
    def __ne__(self, other):
        return ""  # falsy non-bool


class NoBool:
    def __ne__(self, other):
        class R:
            def __bool__(self):
                raise ValueError("ambiguous")

        return R()


show("truthy non-bool ne", lambda: impl(Plain(a=Weird()), Plain(a=1)))
show("falsy non-bool ne", lambda: impl(Plain(a=Weird0()), Plain(a=1)))
show("unboolable ne", lambda: impl(Plain(a=NoBool()), Plain(a=1)))


class Slots:
    __slots__ = ("a",)


show("no __dict__ x", lambda: impl(Slots(), Slots()))
show("no __dict__ x, other type", lambda: impl(Slots(), 3))

# tags with ad-hoc fields and context-manager field
d1, d2 = div("a"), div("a")
d1.extra = 1
show("extra field on lhs", lambda: (d1 == d2, d2 == d1))
d2.extra = 1
show("extra field both", lambda: (d1 == d2, d2 == d1))
d3 = div("a")
with d3:
    pass
show("after with", lambda: (d3 == div("a"), div("a") == d3))

# tagify / copy results compare equal to originals
t = div("a", span("b", id="i"), dep(), TagList("x", tags.p("y")))
show("copy eq", lambda: copy.copy(t) == t)
show("tagify eq", lambda: (t.tagify() == t, t == t.tagify(), t.tagify() == t.tagify()))
show("deepcopy eq", lambda: copy.deepcopy(t) == t)
show("taglist tagify eq", lambda: TagList("a", div(), dep()).tagify() == TagList("a", div(), dep()))
Foo = jsx_tag_create("Foo")
show("jsx tagify eq", lambda: Foo(div(), a=1).tagify() == Foo(div(), a=1).tagify())
show("in list", lambda: (div("a") in [span(), div("a")], [div()].index(div()), [div(), div()].count(div())))
show("hashable?", lambda: hash(div()))
show("dep in list", lambda: dep() in [dep(name="q"), dep()])
