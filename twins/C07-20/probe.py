# Probe for refactoring 5: child normalisation (_tagchilds_to_tagnodes) and TagList.tagify().
from htmltools import HTML, HTMLDependency, MetadataNode, Tag, TagList, div, span, tags
from htmltools._core import _tagchilds_to_tagnodes

LOG = []


class Meta(MetadataNode):
    def __init__(self, label):
        self.label = label

    def __copy__(self):
        LOG.append(("copy", self.label))
        return Meta(self.label + "'")

    def __repr__(self):
        return f"<Meta {self.label}>"


class TagifiableMeta(MetadataNode):
    """A metadata node that is also Tagifiable: tagify() wins over copy()."""

    def tagify(self):
        LOG.append(("tagify", "tm"))
        return Meta("from-tm")

    def __copy__(self):
        LOG.append(("copy", "tm"))
        return self


class Widget:
    def __init__(self, label, result):
        self.label = label
        self.result = result

    def tagify(self):
        LOG.append(("tagify", self.label))
        r = self.result
        return r() if callable(r) else r

    def __repr__(self):
        return f"<Widget {self.label}>"


class Rep:
    def _repr_html_(self):
        return "<rep/>"

    def __repr__(self):
        return "<Rep>"


def dep(name="a", version="1.0"):
    return HTMLDependency(name, version, source={"subdir": "."}, script={"src": name + ".js"})


def desc(items):
    out = []
    for c in items:
        if isinstance(c, (Tag, TagList)):
            out.append(type(c).__name__ + ":" + str(c))
        else:
            out.append((type(c).__name__, repr(c) if not isinstance(c, HTML) else str(c)))
    return out


def show(label, fn):
    LOG.clear()
    try:
        print(label, "=>", repr(fn()))
    except Exception as e:  # noqa: BLE001
        print(label, "!!", type(e).__name__, str(e))
    if LOG:
        print("   log:", LOG)


m1, m2 = Meta("m1"), Meta("m2")
d1 = dep("d1")

inputs = {
    "empty": [],
    "str-arg": "abc",
    "empty-str": "",
    "strs": ["a", "b"],
    "numbers": [1, 2.5, True, False, 0, -0.0, float("inf"), 10**30],
    "none": [None, [None, (None,)], "x"],
    "nested": ["a", ["b", ("c", [m1, [d1]]), TagList("e", m2)], div()],
    "meta-only": [m1],
    "meta-positions": [m1, "a", d1, div(), m2, HTML("<b>"), Rep(), d1],
    "widget": [Widget("w", "x"), m1],
    "html": [HTML("x"), HTML("")],
    "tuple": ("a", 1, None, m1),
    "generator": (c for c in ["a", m1, 2]),
    "taglist": TagList("a", m1, TagList(d1)),
    "bad-dict": ["a", {"k": "v"}],
    "bad-bytes": [m1, b"x"],
    "bad-set": [{1}],
    "bad-object": ["ok", 1, object(), {"never": 1}],
    "bad-complex": [1j],
    "bad-nested": ["a", ["b", [object]]],
    "bad-after-meta": [m1, d1, 3, len],
    "not-iterable": 5,
    "none-arg": None,
}
for label, x in inputs.items():
    def run():
        res = _tagchilds_to_tagnodes(x)
        return (type(res).__name__, desc(res))
    show("nodes " + label, run)

# identity: nodes are passed through, not copied; result is a fresh list
src = [m1, d1, "s", div()]
res = _tagchilds_to_tagnodes(src)
print("identity:", [a is b for a, b in zip(src, res)], res is not src, src == [m1, d1, "s", src[3]])
s = "abc"
print("str passthrough:", _tagchilds_to_tagnodes(s)[0] is s)

# constructors / mutators that go through the normalisation
show("TagList()", lambda: desc(TagList(1, [m1, None, 2.0], "x", d1)))
show("TagList(bad)", lambda: desc(TagList(1, {"a": 1})))
show("Tag children", lambda: desc(div(m1, 1, [None, d1], {"id": "i"}, TagList(m2, "t")).children))
show("Tag bad child", lambda: div(m1, object()))


def mutate():
    tl = TagList("a")
    tl.append(m1, 3)
    tl.extend([d1, [None, "b"]])
    tl.insert(0, m2)
    tl.insert(1, [1, 2])
    tl += (m1, 4.5)
    return desc(tl), desc(tl + [m2, 7]), desc([m2, 7] + tl), desc(tl + "str"), desc("str" + tl)


show("mutators", mutate)
show("extend str", lambda: (lambda tl: (tl.extend("xyz"), desc(tl))[1])(TagList()))
show("extend bad keeps list", lambda: (lambda tl: (tl.extend(["ok", object()]), desc(tl)))(TagList("z")))
tl = TagList("z", m1)
try:
    tl.extend(["ok", d1, object()])
except TypeError as e:
    print("after failed extend:", desc(tl), type(e).__name__)

# --- tagify ---
cases = {
    "empty": lambda: TagList(),
    "plain": lambda: TagList("a", HTML("<b>"), Rep()),
    "meta": lambda: TagList(m1, "a", m2),
    "meta+dep": lambda: TagList(d1, m1, div(m2, d1)),
    "widget->str": lambda: TagList(Widget("w1", "s"), m1, Widget("w2", "t")),
    "widget->tag": lambda: TagList(m1, Widget("w1", lambda: div(m2))),
    "widget->taglist": lambda: TagList("a", Widget("w1", lambda: TagList("x", m1, 3, None, [d1])), "b", m2),
    "widget->empty-taglist": lambda: TagList("a", Widget("w1", lambda: TagList()), m1),
    "widget->meta": lambda: TagList(Widget("w1", m1), Widget("w2", d1)),
    "widget->widget": lambda: TagList(Widget("outer", lambda: Widget("inner", "s"))),
    "widget->taglist-with-widget": lambda: TagList(Widget("w1", lambda: TagList(Widget("inner", "s"), m1))),
    "order": lambda: TagList(Widget("w1", "1"), m1, Widget("w2", "2"), div(Widget("w3", "3"), m2), Widget("w4", "4")),
    "tagifiable-meta": lambda: TagList("a", TagifiableMeta(), m1),
    "raises": lambda: TagList(Widget("w1", "ok"), Widget("boom", lambda: 1 / 0), m1, Widget("w3", "last")),
    "widget->none": lambda: TagList(Widget("w1", None), m1),
    "widget->int": lambda: TagList(Widget("w1", 5)),
    "nested-tags": lambda: TagList(div(span(m1, Widget("w1", lambda: TagList(m2, "t"))), d1)),
}
for label, mk in cases.items():
    def run():
        x = mk()
        before = desc(x)
        t = x.tagify()
        return (desc(t), desc(x) == before, t is not x)
    show("tagify " + label, run)
    show("render " + label, lambda: (lambda r: (r["html"], [repr(d) for d in r["dependencies"]]))(mk().render()))
    show("tag.render " + label, lambda: (lambda r: (r["html"], [repr(d) for d in r["dependencies"]]))(div(mk()).render()))

# copies of metadata nodes are independent objects; other children are shared
r = Rep()
x = TagList(m1, d1, r, "s")
t = x.tagify()
print("copied:", t[0] is not m1, t[1] is not d1, t[1] == d1, t[2] is r, t[3] is x[3])
