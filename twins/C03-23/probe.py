"""Probe for refactoring 3: the attribute writer in Tag.get_html_string (htmltools/_core.py)."""
from htmltools import HTML, Tag, TagList, div, tags
from htmltools._core import TagAttrDict


class MyStr(str):
    pass


class LoudHTML(HTML):
    """HTML subclass; str()/format() must go through the same hooks as before."""

    def __str__(self):
        return "LOUD(" + self.data + ")"


def show(label, fn):
    try:
        res = fn()
        print(label, "->", type(res).__name__, repr(res))
    except Exception as e:  # noqa: BLE001
        print(label, "-> EXC", type(e).__name__, str(e))


VALUES = [
    "plain",
    "",
    "a&b",
    "&amp;",
    "<script>alert(1)</script>",
    'x" onmouseover="evil()',
    "x' y='z",
    "l1\nl2\r\nl3\r",
    "\t tab \x0b\x0c\x00 \x85  ",
    "café \U0001f600",
    "".join(["&", "<", ">", '"', "'", "\r", "\n"]) * 2,
    HTML("raw<&>\"'\r\n"),
    HTML(""),
    LoudHTML("loud<"),
    MyStr("sub<'>"),
    MyStr("safe"),
    1,
    0,
    -2.5,
    1e100,
    float("nan"),
    True,
    False,
    None,
]

for v in VALUES:
    lab = repr(v)
    show(f"str(div(title={lab}))", lambda: str(div(title=v)))
    show(f"get_html_string {lab}", lambda: div(title=v).get_html_string())
    show(f"indent {lab}", lambda: div(title=v).get_html_string(indent=2, eol="\r\n"))
    show(f"void {lab}", lambda: tags.img(alt=v, src="s").get_html_string(indent=1))
    show(f"render {lab}", lambda: tags.a("txt", href=v).render()["html"])
    show(f"nested {lab}", lambda: str(div(tags.p("a", tags.b("c", id=v), class_=v), data_v=v)))
    show(f"many {lab}", lambda: str(div(a=v, b="x", c=v, d=HTML("<d>"), e=None, f=True)))
    show(f"merged {lab}", lambda: str(div({"class": v}, {"class": "mid&'"}, class_=HTML("<h>"))))
    show(f"taglist {lab}", lambda: str(TagList(div(x=v), "text<", tags.br(y=v))))
    show(f"repr {lab}", lambda: repr(tags.span(v if isinstance(v, (str, HTML)) else "k", title=v)))

# No attributes at all / many attributes keep order
show("no attrs", lambda: str(div()))
show("no attrs void", lambda: str(tags.br()))
show("order", lambda: str(div(z="1", a="2", m_="3", data_x_y="4", _="5")))
show("empty name", lambda: str(Tag("", title="<")))
show("custom tag", lambda: str(Tag("my-el", {"on:click": "a<b"}, "child & text")))
show("script", lambda: str(tags.script("if (a<b) {}", type="text/x'y")))
show("add_ws False", lambda: str(tags.span(tags.b("x", k="<"), "y", title=">", _add_ws=False)))
show("show html", lambda: div(title="'").get_html_string(indent=3, eol=""))

# Values written straight into the dict (bypassing normalisation) are handled
# by the writer exactly as before: escaped if str, error if not a string.
for raw in [5, None, 2.5, b"x<", ["<"], MyStr("m<"), HTML("<ok>"), LoudHTML("l&")]:
    def direct():
        t = div(first="1<")
        dict.__setitem__(t.attrs, "raw", raw)
        dict.__setitem__(t.attrs, "last", "'z'")
        return t.get_html_string()

    show(f"direct {raw!r}", direct)

# Non-str key placed directly in the dict
def direct_key():
    t = div()
    dict.__setitem__(t.attrs, 7, "seven<")
    dict.__setitem__(t.attrs, None, HTML("none<"))
    return t.get_html_string()


show("direct key", direct_key)


# Non-str tag name: the name error still wins over a bad attribute value
def bad_name():
    t = div()
    t.name = 5
    dict.__setitem__(t.attrs, "raw", 5)
    return t.get_html_string()


show("bad name", bad_name)

# attrs replaced by a plain dict / TagAttrDict after construction
def plain_attrs():
    t = div("c")
    t.attrs = {"p": "plain<'>", "h": HTML("<h>")}
    return t.get_html_string()


show("plain dict attrs", plain_attrs)
show("TagAttrDict items", lambda: list(TagAttrDict(a="<", b=HTML("<")).items()))
