# Probe for refactoring 5: TagAttrDict.update (merging of repeated attributes, where a
# plain value meets an HTML() value) and the attribute writer that consumes it.
import itertools
from htmltools import HTML, Tag, TagList, div, span, tags
from htmltools._core import TagAttrDict

LOG = []


def show(label, thunk):
    del LOG[:]
    try:
        out = thunk()
        print(label, "->", type(out).__name__, repr(out), "| log:", LOG)
    except BaseException as e:  # noqa
        print(label, "-> EXC", type(e).__name__, str(e)[:100], "| log:", LOG)


class S(str):
    pass


class LoudHTML(HTML):
    def __init__(self, html, name="loud"):
        super().__init__(html)
        self.name_ = name

    def as_string(self):
        LOG.append(("as_string", self.name_))
        return super().as_string()


def dump(d):
    # exact content: key order, value types and values
    return [(k, type(v).__name__, str(v)) for k, v in dict.items(d)]


RAW = ["<a>", "x'y", 'p"q', "&amp;", "r\r\n", "", "plain"]

# the same attribute given 2, 3 or 4 times, every plain/HTML mixture
for n in (2, 3, 4):
    for mask in itertools.product([0, 1], repeat=n):
        for start in range(0, len(RAW), 2 if n < 4 else 4):
            vals = [RAW[(start + i) % len(RAW)] for i in range(n)]
            ops = [HTML(v) if m else v for v, m in zip(vals, mask)]
            dicts = [{"class": o} for o in ops]
            label = f"n={n} mask={mask} vals={vals}"
            show("dict " + label, lambda: dump(TagAttrDict(*dicts)))
            show("tag  " + label, lambda: div(*dicts).get_html_string())
            show("kw   " + label, lambda: div(*dicts[:-1], class_=ops[-1]).get_html_string())

# names that collide only after normalisation, several attributes interleaved
show("collide", lambda: dump(TagAttrDict({"class_": "a<", "data_x": HTML("<1>")}, {"class": HTML("<b>"), "data-x": "2'"}, class_="c&", data_x_="3\"")))
show("collide tag", lambda: str(div({"class_": "a<", "data_x": HTML("<1>")}, {"class": HTML("<b>"), "data-x": "2'"}, class_="c&", data_x_="3\"")))
show("same dict no merge", lambda: dump(TagAttrDict({"a_b": "1", "a-b": HTML("<2>")})))
show("underscores", lambda: dump(TagAttrDict({"_": "1", "__": "2", "a__": "3", "_a_": HTML("4")}, {"": "5", "-": HTML("6")})))

# skipped / converted values take no part in merging
for v in (None, False, True, 0, 1, -2.5, float("inf"), "", HTML(""), S("s'"), HTML(S("h'")), LoudHTML("<l>")):
    show(f"first {v!r:.20}", lambda: dump(TagAttrDict({"k": v}, {"k": "x'"}, {"k": HTML("<h>")})))
    show(f"mid   {v!r:.20}", lambda: dump(TagAttrDict({"k": "x'"}, {"k": v}, {"k": HTML("<h>")})))
    show(f"last  {v!r:.20}", lambda: dump(TagAttrDict({"k": HTML("<h>")}, {"k": "x'"}, {"k": v})))
    show(f"tag   {v!r:.20}", lambda: div({"k": "x'"}, {"k": v}, k=HTML("<h>")).get_html_string())

# invalid values / arguments
for bad in ([], ("a",), {"a": 1}, b"x", object(), div("x"), TagList("x"), 1j):
    show(f"bad first {type(bad).__name__}", lambda: dump(TagAttrDict({"k": bad}, {"k": "x"})))
    show(f"bad later {type(bad).__name__}", lambda: dump(TagAttrDict({"ok": "1", "k": "x"}, {"k": HTML("<h>")}, {"k": bad})))
show("arg not mapping", lambda: dump(TagAttrDict([("a", "b")])))
show("arg none", lambda: dump(TagAttrDict(None)))
show("key int", lambda: dump(TagAttrDict({5: "x"})))
show("no args", lambda: dump(TagAttrDict()))
show("empty dicts", lambda: dump(TagAttrDict({}, {}, **{})))

# update() on an existing dict: overwrites, does not merge with what is stored
d = TagAttrDict({"class": "old<", "id": HTML("<i>")})
show("update overwrite", lambda: (d.update({"class": HTML("<n>")}, {"class": "m'"}), dump(d))[1])
show("update kwargs only", lambda: (d.update(class_="k\"", id=None), dump(d))[1])
show("update failing keeps state", lambda: d.update({"class": "z"}, {"class": []}))
show("state after failure", lambda: dump(d))
show("setitem", lambda: (d.__setitem__("data_y_", HTML("<y>")), d.__setitem__("gone", None), d.__setitem__("t", True), dump(d))[-1])
show("setitem bad", lambda: d.__setitem__("bad", []))

# order of side effects when merging
show("loud first", lambda: dump(TagAttrDict({"k": LoudHTML("<1>", "one")}, {"k": "p'"}, {"k": LoudHTML("<2>", "two")})))
show("loud last", lambda: dump(TagAttrDict({"k": "p'"}, {"k": "q\""}, {"k": LoudHTML("<2>", "two")})))
show("loud render", lambda: div({"k": "p'"}, {"k": LoudHTML("<2>", "two")}, {"k": "q\""}).get_html_string())

# public helpers built on update()
RAWS = "<b a='1' c=\"2\">&amp; & \r\n</b>"
for prepend in (False, True):
    show(f"add_class prepend={prepend}", lambda: str(div(class_=RAWS).add_class(HTML(RAWS), prepend=prepend).add_class("z'", prepend=prepend)))
    show(f"add_class html first prepend={prepend}", lambda: str(div(class_=HTML(RAWS)).add_class(RAWS, prepend=prepend)))
    show(f"add_style prepend={prepend}", lambda: str(div(style="a:'1';").add_style(HTML('b:"2";'), prepend=prepend).add_style("c:<3>;", prepend=prepend)))
    show(f"add_style on empty prepend={prepend}", lambda: str(div().add_style(HTML('b:"2";'), prepend=prepend)))
show("add_style no semicolon", lambda: div().add_style("a:1"))
show("has_class", lambda: (div(class_="a<").add_class(HTML("<b>")).has_class("<b>"), div({"class": HTML("<b>")}, class_="a<").has_class("a&lt;")))
show("remove_class", lambda: str(div({"class": HTML("<b>")}, class_="a c").remove_class("a")))
show("tag attrs update", lambda: (lambda t: (t.attrs.update({"title": "x'"}, title=HTML("<t>")), str(t))[1])(span("s", title="old")))
show("Tag ctor", lambda: str(Tag("img", {"alt": "a'"}, {"alt": HTML("<h>")}, alt="z\"", src=HTML("u?a=1&b=2"))))
show("script attrs", lambda: str(tags.script("1<2", {"data-x": "a<"}, {"data-x": HTML("<b>")})))
show("nested", lambda: str(div({"class": "o'"}, div({"class": HTML("<i>")}, class_="i'"), class_=HTML("<o>"))))
