# Deterministic probe: prints repr of results / exception type + message.
import sys
from html.parser import HTMLParser

import htmltools
from htmltools import HTML, HTMLDependency, Tag, TagList, div, span, tags
from htmltools._core import TagAttrDict, _tagchilds_to_tagnodes, _normalize_text
from htmltools._util import html_escape, flatten

LOG = []


def show(label, fn):
    try:
        r = fn()
        print(label, "->", type(r).__name__, repr(r))
    except BaseException as e:  # noqa: BLE001
        print(label, "-> EXC", type(e).__name__, str(e))


class Repr:
    def __init__(self, s):
        self.s = s

    def __repr__(self):
        return "Repr(%r)" % (self.s,)

    def _repr_html_(self):
        LOG.append(("repr_html", self.s))
        return self.s


class BadRepr:
    def __repr__(self):
        return "BadRepr()"

    def _repr_html_(self):
        LOG.append("badrepr")
        return 5


class Tagif:
    def __repr__(self):
        return "Tagif()"

    def tagify(self):
        LOG.append("tagify")
        return span("tagified")


class Both:
    def __repr__(self):
        return "Both()"

    def tagify(self):
        return span("both")

    def _repr_html_(self):
        return "<b>both</b>"


class S(str):
    pass


class MyInt(int):
    def __str__(self):
        LOG.append("myint")
        return "my" + int.__repr__(self)


class Tok(HTMLParser):
    def __init__(self):
        super().__init__(convert_charrefs=True)
        self.out = []

    def handle_starttag(self, tag, attrs):
        self.out.append(("S", tag, attrs))

    def handle_startendtag(self, tag, attrs):
        self.out.append(("SE", tag, attrs))

    def handle_endtag(self, tag):
        self.out.append(("E", tag))

    def handle_data(self, data):
        self.out.append(("D", data))


def tok(s):
    p = Tok()
    p.feed(s)
    p.close()
    return p.out


dep = HTMLDependency("d", "1.0", source={"subdir": "."}, script={"src": "x.js"})

NASTY = ["", "a", "a&b", "<x>", '"q"', "'s'", "a\r\nb", "&amp;", "&<>\"'\r\n", " lead", "trail ", "ünï", S("sub&"), S("plain")]


def trees():
    yield "empty div", lambda: div()
    yield "empty br", lambda: tags.br()
    yield "br with child", lambda: tags.br("x")
    yield "br with only dep", lambda: tags.br(dep)
    yield "div with only dep", lambda: div(dep)
    yield "div dep + text", lambda: div(dep, "t<")
    yield "img attrs", lambda: tags.img(src="a&b.png", alt='"x"', hidden=True, width=3, height=2.5)
    yield "input none/false", lambda: tags.input(type="text", disabled=False, value=None, checked=True)
    yield "single text", lambda: div("a<b>&c")
    yield "single HTML", lambda: div(HTML("<i>x</i>"))
    yield "single empty", lambda: div("")
    yield "single num", lambda: div(3)
    yield "single float", lambda: span(2.5)
    yield "single bool", lambda: span(True)
    yield "two texts", lambda: div("a", "b<")
    yield "text + span", lambda: div("a", span("b"), "c")
    yield "span inline", lambda: span("a", span("b"), "c")
    yield "nested block", lambda: div(div(div("x", id="i"), tags.p("y")), tags.hr(), tags.ul(tags.li("1"), tags.li(2)))
    yield "script single", lambda: tags.script("if (a < b && c) {}")
    yield "script multi", lambda: tags.script("a < b;", "c && d;")
    yield "script HTML", lambda: tags.script(HTML("a<b"), "x>y")
    yield "style single", lambda: tags.style("a > b { color: red }")
    yield "style multi", lambda: tags.style("a > b {}", HTML("c > d {}"))
    yield "script sub-tag", lambda: tags.script(span("x<"), "y<")
    yield "attr merge", lambda: div({"class": "a"}, {"class": "b<"}, class_="c")
    yield "attr html merge", lambda: div({"class": HTML("a&amp;")}, class_="b&'")
    yield "attr html merge2", lambda: div({"class": "b&'"}, class_=HTML("a&amp;"))
    yield "attr order", lambda: div(z="1", a="2", data_x_="3", _y="4", aria_label="l\n")
    yield "dict after child", lambda: div("x", {"id": "late"}, "y", {"id": "later", "k": 1})
    yield "lists", lambda: div(["a", ["b", None, ("c", 1)]], None, [], TagList("d", span("e")))
    yield "reprhtml", lambda: div(Repr("<u>r</u>"), "t", Repr("z"))
    yield "reprhtml single", lambda: div(Repr("<u>r</u>"))
    yield "both", lambda: div(Both(), "x")
    yield "noaddws", lambda: Tag("div", "\n", span("a"), Tag("p", "q"), _add_ws=False)
    yield "noaddws in block", lambda: div(Tag("div", "a", Tag("p", "q"), _add_ws=False), "tail", Tag("p", "r"))
    yield "custom name", lambda: Tag("my-el", Tag("x:y", "t", a_b="1"), foo=True)
    yield "S name", lambda: Tag(S("br"))
    yield "S name script", lambda: Tag(S("script"), "a<b", "c<d")
    yield "myint", lambda: div(MyInt(7), "x", n=MyInt(8))
    for i, t in enumerate(NASTY):
        yield "nasty text %d" % i, (lambda t=t: div(t, span(t), t, title=t))
        yield "nasty single %d" % i, (lambda t=t: tags.p(t, id=t))
        yield "nasty void %d" % i, (lambda t=t: tags.input(value=t))


def run_trees():
    for label, mk in trees():
        del LOG[:]
        try:
            t = mk()
        except BaseException as e:  # noqa: BLE001
            print(label, "-> BUILD EXC", type(e).__name__, str(e))
            continue
        show(label + " | repr attrs", lambda: (list(t.attrs.items()), [type(v).__name__ for v in t.attrs.values()]))
        show(label + " | children", lambda: [(type(c).__name__, repr(c)) for c in t.children])
        show(label + " | str", lambda: str(t))
        show(label + " | tok", lambda: tok(str(t)))
        show(label + " | indent2", lambda: t.get_html_string(2))
        show(label + " | eol", lambda: t.get_html_string(1, "\r\n"))
        show(label + " | eol empty", lambda: t.get_html_string(0, ""))
        show(label + " | kids", lambda: t.children.get_html_string())
        show(label + " | kids noesc", lambda: t.children.get_html_string(1, "|", add_ws=False, _escape_strings=False))
        show(label + " | kids ws1", lambda: t.children.get_html_string(3, "~", add_ws=1))
        show(label + " | render", lambda: t.render()["html"])
        show(label + " | taglist", lambda: str(TagList(t, "x", t)))
        print(label, "| LOG", LOG)


def run_corners():
    # --- odd arguments to the renderers
    t = div("a", span("b"), Repr("r"), "c", id="i")
    for ind in (0, 1, -1, True, "x", None, 1.5):
        del LOG[:]
        show("indent %r tag" % (ind,), lambda: t.get_html_string(ind))
        show("indent %r list" % (ind,), lambda: t.children.get_html_string(ind))
        show("indent %r emptylist" % (ind,), lambda: TagList().get_html_string(ind))
        show("indent %r single" % (ind,), lambda: div("x").get_html_string(ind))
        print("LOG", LOG)
    for eol in ("\n", "", None, 3, b"\n"):
        del LOG[:]
        show("eol %r tag" % (eol,), lambda: t.get_html_string(0, eol))
        show("eol %r list" % (eol,), lambda: t.children.get_html_string(0, eol))
        show("eol %r one" % (eol,), lambda: TagList("a").get_html_string(0, eol))
        show("eol %r span" % (eol,), lambda: span("a", "b").get_html_string(0, eol))
        print("LOG", LOG)
    for aw in (True, False, 0, 1, "", "y", None, [], [0]):
        show("add_ws %r" % (aw,), lambda: t.children.get_html_string(1, "\n", add_ws=aw))
        show("add_ws %r inline" % (aw,), lambda: TagList(span("a"), "b", span("c")).get_html_string(1, "\n", add_ws=aw))
    show("Tag _add_ws=1", lambda: Tag("div", _add_ws=1))
    show("Tag _add_ws=None", lambda: Tag("div", _add_ws=None))

    # --- non-tagified / invalid nodes put in behind the constructor's back
    for bad in (Tagif(), 5, None, 2.5, b"x", ["l"], BadRepr(), dep, S("s<")):
        for name in ("div", "script", "br"):
            del LOG[:]
            tg = Tag(name, "first")
            tg.children.data.append(bad)
            show("bad child %s in %s" % (type(bad).__name__, name), lambda: tg.get_html_string())
            tg2 = Tag(name)
            tg2.children.data.append(bad)
            show("bad only child %s in %s" % (type(bad).__name__, name), lambda: tg2.get_html_string())
            show("bad child render %s in %s" % (type(bad).__name__, name), lambda: tg.render()["html"])
            print("LOG", LOG)

    # --- attribute values stored behind TagAttrDict's back
    for badv in (5, None, b"x", ["l"], S("s&"), HTML("h&")):
        tg = div("x")
        dict.__setitem__(tg.attrs, "k", badv)
        dict.__setitem__(tg.attrs, 3, "numkey")
        show("bad attr value %r" % (badv,), lambda: tg.get_html_string())
    tg = div()
    tg.attrs = {"plain": "dict&", "h": HTML("<")}
    show("attrs plain dict", lambda: tg.get_html_string())
    tg.attrs = None
    show("attrs None", lambda: tg.get_html_string())
    for badname in (None, 5, ["div"], S("div"), ""):
        tg = div("x", a="1")
        tg.name = badname
        show("bad name %r" % (badname,), lambda: tg.get_html_string())
        tg.children = TagList()
        show("bad name empty %r" % (badname,), lambda: tg.get_html_string())
        tg.children = TagList("a", "b")
        show("bad name multi %r" % (badname,), lambda: tg.get_html_string())

    # --- TagAttrDict
    def tad(*a, **k):
        d = TagAttrDict(*a, **k)
        return [(k_, type(v).__name__, str(v)) for k_, v in d.items()]

    show("tad empty", lambda: tad())
    show("tad kw", lambda: tad(a="1", b_=2, c_d=2.5, e=True, f=False, g=None))
    show("tad dup within", lambda: tad({"class": "a", "class_": "b"}, {"class": "c"}, class_="d"))
    show("tad html first", lambda: tad({"x": HTML("<a>")}, {"x": "b&\"'\n"}, x="c<"))
    show("tad html last", lambda: tad({"x": "b&\"'\n"}, {"x": "c<"}, x=HTML("<a>")))
    show("tad html mid", lambda: tad({"x": "p&"}, {"x": HTML("&amp;")}, {"x": "q&"}, {"x": HTML("<z>")}))
    show("tad html both", lambda: tad({"x": HTML("<a>")}, {"x": HTML("<b>")}))
    show("tad empty strings", lambda: tad({"x": ""}, {"x": ""}, x=True))
    show("tad empty html", lambda: tad({"x": HTML("")}, {"x": ""}, x="z"))
    show("tad none between", lambda: tad({"x": "a"}, {"x": None}, {"x": False}, {"x": "b"}))
    show("tad bad type", lambda: tad({"a": "ok"}, {"b": [1]}))
    show("tad bad type kw", lambda: tad({"a": "ok"}, b=object))
    show("tad bad key", lambda: tad({1: "x"}))
    show("tad bad key none val", lambda: tad({1: None}))
    show("tad not mapping", lambda: tad([("a", "b")]))
    show("tad none arg", lambda: tad(None))
    show("tad S", lambda: tad({S("k_y_"): S("v&")}, {"k-y": S("w")}))
    show("tad ints", lambda: tad({"n": 1}, {"n": 2.0}, n=MyInt(3)))

    def tad_update():
        d = TagAttrDict(a="1", b="2")
        d.update({"a": "3", "c": "4"}, {"c": HTML("<5>")}, b=None, d_=True)
        d.update()
        d.update({})
        d.update(**{})
        d["e_f_"] = 6
        d["g"] = None
        return [(k_, type(v).__name__, str(v)) for k_, v in d.items()]

    show("tad update", tad_update)

    def tad_update_fail():
        d = TagAttrDict(a="1")
        try:
            d.update({"a": "2", "z": "9"}, {"q": object()})
        except TypeError as e:
            return ("TypeError", str(e), dict(d))
        return dict(d)

    show("tad update fail leaves dict", tad_update_fail)

    # --- _tagchilds_to_tagnodes / flatten
    def ttn(x):
        del LOG[:]
        r = _tagchilds_to_tagnodes(x)
        return [(type(i).__name__, repr(i)) for i in r], list(LOG)

    show("ttn str", lambda: ttn("abc"))
    show("ttn S", lambda: ttn(S("abc")))
    show("ttn list", lambda: ttn(["a", 1, 2.5, True, None, HTML("h"), dep, span("x"), Repr("r"), Tagif()]))
    show("ttn nested", lambda: ttn([["a", ("b", [None, [3]])], TagList("c", [4])]))
    show("ttn empty", lambda: ttn([]))
    show("ttn tuple", lambda: ttn((1, "a")))
    show("ttn gen", lambda: ttn(x for x in (1, "a", None)))
    show("ttn gen inside", lambda: ttn([(x for x in (1, 2))]))
    show("ttn myint", lambda: ttn([MyInt(1), "s", MyInt(2)]))
    show("ttn bad then myint", lambda: ttn([MyInt(1), object, MyInt(2)]))
    show("ttn bytes", lambda: ttn([b"x"]))
    show("ttn dict", lambda: ttn([{"a": 1}]))
    show("ttn dict top", lambda: ttn({"a": 1}))
    show("ttn set", lambda: ttn([{1}]))
    show("ttn int top", lambda: ttn(5))
    show("ttn None top", lambda: ttn(None))
    show("ttn complex", lambda: ttn([1j]))
    show("ttn nan", lambda: ttn([float("nan"), float("inf"), -0.0, 10**20, 1e20]))

    def ttn_identity():
        src = ["a", 1, ["b"]]
        r = _tagchilds_to_tagnodes(src)
        return (src, r, r is src)

    show("ttn input untouched", ttn_identity)

    def tl_ops():
        tl = TagList("a", 1)
        tl.append(2, [3, None])
        tl.extend((4.5, span("s")))
        tl.insert(0, [True, "z"])
        tl += ["p", 9]
        tl2 = tl + "str"
        tl3 = "pre" + tl
        tl4 = [0] + tl + (1,)
        return [repr(list(x)) for x in (tl, tl2, tl3, tl4)]

    show("taglist ops", tl_ops)
    show("taglist bad append", lambda: TagList("a").append(object()))
    show("taglist bad insert", lambda: TagList("a").insert(0, [1, {}]))

    # --- html_escape / _normalize_text
    for s in NASTY + ["&&", "<<>>", "a" * 3 + "\n" * 2, "\t", "\x00&", "&#10;", "ab\rcd"]:
        show("esc %r" % (s,), lambda: (html_escape(s), html_escape(s, attr=True), html_escape(s, False), html_escape(s, attr=1), html_escape(s, attr="")))
        show("esc identity %r" % (s,), lambda: (html_escape(s) is s, html_escape(s, True) is s, type(html_escape(s)).__name__, type(html_escape(s, True)).__name__))
        show("norm %r" % (s,), lambda: (_normalize_text(s), _normalize_text(HTML(s)), type(_normalize_text(HTML(s))).__name__))
    for bad in (None, 5, b"a&b", ["&"], HTML("&"), bytearray(b"<"), 2.5):
        show("esc bad %r" % (bad,), lambda: html_escape(bad))
        show("esc bad attr %r" % (bad,), lambda: html_escape(bad, attr=True))
    show("esc alias", lambda: htmltools._util._html_escape is html_escape)
    show("esc tables", lambda: (htmltools._util.HTML_ESCAPE_TABLE, htmltools._util.HTML_ATTRS_ESCAPE_TABLE))
    show("htmltools.html_escape", lambda: htmltools.html_escape("<&>'\"", attr=True))


if __name__ == "__main__":
    run_trees()
    run_corners()
