from htmltools import HTML, div, span, tags, css, Tag
from htmltools._core import TagAttrDict


def show(label, f):
    try:
        r = f()
        print(label, "->", type(r).__name__, repr(r))
    except BaseException as e:  # noqa
        print(label, "-> EXC", type(e).__name__, str(e))


def dump(d):
    return [(type(k).__name__, k, type(v).__name__, str(v)) for k, v in d.items()]


def upd(*args, **kwargs):
    d = TagAttrDict()
    r = d.update(*args, **kwargs)
    return (r, dump(d))


def upd_on(initial, *args, **kwargs):
    d = TagAttrDict(initial)
    try:
        d.update(*args, **kwargs)
    except BaseException as e:  # noqa
        return ("EXC", type(e).__name__, dump(d))
    return dump(d)


H = HTML
cases = [
    ("empty", lambda: upd()),
    ("empty dict", lambda: upd({})),
    ("one", lambda: upd({"class": "a"})),
    ("kw only", lambda: upd(class_="a", data_x=1)),
    ("args+kw", lambda: upd({"class": "a"}, {"class": "b"}, class_="c")),
    ("three plain", lambda: upd({"class": "a"}, {"class": "b"}, {"class": "c d"})),
    ("none skipped", lambda: upd({"class": None}, {"class": "b"})),
    ("none second", lambda: upd({"class": "a"}, {"class": None})),
    ("false skipped", lambda: upd({"class": False}, {"class": "b"}, {"class": False})),
    ("true", lambda: upd({"hidden": True}, {"hidden": True})),
    ("true + str", lambda: upd({"class": True}, {"class": "x"})),
    ("numbers", lambda: upd({"x": 1}, {"x": 2.5}, {"x": 0})),
    ("html+plain", lambda: upd({"class": H("<a>&")}, {"class": "<b>&\"'\n"})),
    ("plain+html", lambda: upd({"class": "<b>&\"'\r"}, {"class": H("<a>&")})),
    ("html+html", lambda: upd({"class": H("<a>")}, {"class": H("<b>")})),
    ("plain+plain specials", lambda: upd({"class": "<a>"}, {"class": "<b>"})),
    ("plain+plain+html", lambda: upd({"c": "<1>"}, {"c": "<2>"}, {"c": H("<3>")})),
    ("html+plain+plain", lambda: upd({"c": H("<1>")}, {"c": "<2>"}, {"c": "<3>"})),
    ("plain+html+plain", lambda: upd({"c": "<1>"}, {"c": H("<2>")}, {"c": "<3>"})),
    ("empty strs", lambda: upd({"c": ""}, {"c": ""}, {"c": H("")})),
    ("name normalise collide", lambda: upd({"data_x": "1", "data-x": "2", "data_x_": "3"})),
    ("name normalise kw", lambda: upd({"for": "a"}, for_="b", _for="c")),
    ("existing not merged", lambda: upd_on({"class": "old"}, {"class": "new"})),
    ("existing kept order", lambda: upd_on({"a": "1", "b": "2"}, {"b": "x"}, {"c": "y"}, {"a": "z"})),
    ("bad type midway", lambda: upd_on({"a": "1"}, {"a": "2", "b": [1]}, {"c": "3"})),
    ("bad type obj", lambda: upd({"a": object})),
    ("bad key type", lambda: upd_on({"a": "1"}, {"z": "9"}, {1: "x"})),
    ("non mapping", lambda: upd([("a", "b")])),
    ("none arg", lambda: upd(None)),
    ("str subclass / HTML key", lambda: upd({H("a_b_"): "1"}, {"a-b": "2"})),
    ("ctor", lambda: dump(TagAttrDict({"class": "a"}, {"class": H("<b>")}, class_="c"))),
    ("setitem", lambda: (lambda d: (d.__setitem__("class_", "a"), d.__setitem__("class", "b"), d.__setitem__("x", None), dump(d)))(TagAttrDict())),
    ("kwargs empty dict arg", lambda: upd({}, {}, a="1")),
    ("order of first insertion", lambda: upd({"b": "1"}, {"a": "2"}, {"b": "3"})),
]
for label, f in cases:
    show(label, f)

# Through Tag API
show("tag ctor merge", lambda: str(div({"class": "a"}, {"class": "b"}, class_="c", style="x:1;")))
show("tag ctor html merge", lambda: str(div({"class": H("<a>")}, class_="<b>")))


def chain():
    t = div(class_="a")
    r1 = t.add_class("b")
    r2 = t.add_class("c", prepend=True)
    r3 = t.add_class(H("<d>"))
    r4 = t.add_class("<e>", prepend=True)
    r5 = t.add_style("color:red;")
    r6 = t.add_style(H("a:'<';"), prepend=True)
    r7 = t.add_style(css(fontSize="1px"))
    return (all(r is t for r in (r1, r2, r3, r4, r5, r6, r7)), dump(t.attrs), str(t))


show("chain", chain)
show("add_class to empty", lambda: str(span().add_class("x")))
show("add_class none", lambda: str(span().add_class(None)))
show("add_class prepend empty", lambda: str(span().add_class("x", prepend=True)))
show("has_class", lambda: [div(class_="a").add_class("b").has_class(c) for c in ("a", "b", "c", "a b")])
show("remove", lambda: str(div(class_="a b a c").add_class("a").remove_class("a")))
show("module private", lambda: callable(getattr(TagAttrDict, "update")))
