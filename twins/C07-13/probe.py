"""Probe for refactoring 3: HTMLDocument / HTMLTextDocument head generation."""
import os
import tempfile

from htmltools import (
    HTML,
    HTMLDependency,
    HTMLDocument,
    HTMLTextDocument,
    MetadataNode,
    Tag,
    TagList,
    div,
    head_content,
    span,
    tags,
)
from htmltools._jsx import JSXTag


class Meta(MetadataNode):
    def __repr__(self):
        return "Meta()"


def dep(name, version="1.0", **kw):
    kw.setdefault("source", {"href": "/lib/" + name})
    return HTMLDependency(name, version, **kw)


def show(label, fn):
    try:
        print(f"{label}: {fn()!r}")
    except Exception as e:  # noqa
        print(f"{label}: raised {type(e).__name__}: {e}")


class Page:
    """Tagifiable that expands to a full <html> tag."""

    def tagify(self):
        return tags.html(tags.body("from Page", dep("page")), Meta())


class BodyOnly:
    def tagify(self):
        return tags.body(dep("bodydep"), "from BodyOnly")


class Many:
    def tagify(self):
        return TagList(tags.body("b1"), tags.body("b2"))


full = dep(
    "full",
    "2.1.3",
    script=[{"src": "a b.js"}, {"src": "c.js", "defer": ""}],
    stylesheet={"href": "s.css"},
    meta={"name": "viewport", "content": "width=device-width"},
    head="<link rel='x'>",
)
a1, a2 = dep("a", "1.0", script={"src": "a.js"}), dep("a", "2.0", script={"src": "a2.js"})

docs = {
    "empty": lambda: HTMLDocument(),
    "text": lambda: HTMLDocument("just text"),
    "only-meta": lambda: HTMLDocument(Meta()),
    "only-dep": lambda: HTMLDocument(a1),
    "div": lambda: HTMLDocument(div("x", a1, Meta()), lang="en"),
    "two-tags": lambda: HTMLDocument(div("x"), span("y", a2), a1),
    "body": lambda: HTMLDocument(tags.body(div("in body", full), class_="b"), lang="fr"),
    "body-and-dep": lambda: HTMLDocument(tags.body("in body"), a1),
    "body-and-meta": lambda: HTMLDocument(Meta(), tags.body("in body")),
    "html": lambda: HTMLDocument(tags.html(tags.head(tags.title("T")), tags.body("B", full)), lang="en"),
    "html-nohead": lambda: HTMLDocument(tags.html(tags.body("B", a1))),
    "html-dep-first": lambda: HTMLDocument(tags.html(a1, Meta(), tags.head(tags.title("T"), a2), tags.body("B"))),
    "html-two-heads": lambda: HTMLDocument(tags.html(tags.head("h1"), tags.head("h2"), full)),
    "html-empty": lambda: HTMLDocument(tags.html()),
    "html-and-more": lambda: HTMLDocument(tags.html(tags.body("B")), "extra"),
    "html-uppercase": lambda: HTMLDocument(Tag("HTML", "x")),
    "head-only": lambda: HTMLDocument(tags.head(tags.title("T"))),
    "page": lambda: HTMLDocument(Page(), data_x="1"),
    "body-only": lambda: HTMLDocument(BodyOnly()),
    "many": lambda: HTMLDocument(Many()),
    "head-content": lambda: HTMLDocument(div(head_content(tags.title("HC")), "x", head_content(tags.title("HC")))),
    "jsx": lambda: HTMLDocument(JSXTag("Foo", a1, x=1)),
    "dedup": lambda: HTMLDocument(a1, div(a2), a1),
    "nested-list": lambda: HTMLDocument([div("a"), [a1, None, [span("b"), Meta()]]]),
    "numbers": lambda: HTMLDocument(1, 2.5, None),
    "html-string-child": lambda: HTMLDocument(HTML("<p>raw</p>"), a1),
}

for name, mk in docs.items():
    show(f"{name}/render", lambda: mk().render())
    show(f"{name}/render-noprefix", lambda: mk().render(lib_prefix=None, include_version=False))
    show(f"{name}/render-prefix", lambda: mk().render(lib_prefix="static/libs"))

# rendering twice, and original content untouched
d = docs["html-dep-first"]()
r1, r2 = d.render(), d.render()
show("twice/equal", lambda: r1 == r2)
show("twice/content", lambda: str(d._content))

# _hoist_head_content directly
hoist = HTMLDocument._hoist_head_content
show("hoist/not-html", lambda: hoist(div("x"), "lib", True))
orig = tags.html(Meta(), tags.body(a1, "x"))
show("hoist/result", lambda: str(hoist(orig, "lib", True)))
show("hoist/orig-untouched", lambda: str(orig))
orig2 = tags.html(tags.head(tags.title("keep")), full)
res2 = hoist(orig2, None, False)
show("hoist/head-copied", lambda: (res2.children[0] is not orig2.children[0], str(orig2.children[0])))
show("hoist/result2", lambda: str(res2))

# append
doc = HTMLDocument("start")
doc.append(div("added", a1), Meta(), a2)
show("append/render", lambda: doc.render())

# save_html
with tempfile.TemporaryDirectory() as tmp:
    f = os.path.join(tmp, "index.html")
    show("save/return", lambda: HTMLDocument(div("x", a1, Meta())).save_html(f) == f)
    show("save/content", lambda: open(f).read())
    show("save/ls", lambda: sorted(os.listdir(tmp)))
    f2 = os.path.join(tmp, "tag.html")
    show("save-tag/return", lambda: div(Meta(), "t", a1).save_html(f2, libdir=None) == f2)
    show("save-tag/content", lambda: open(f2).read())
    f3 = os.path.join(tmp, "tl.html")
    show("save-tl/return", lambda: TagList(Meta(), "t", a2).save_html(f3, include_version=False) == f3)
    show("save-tl/content", lambda: open(f3).read())

# HTMLTextDocument
tmpl = "<html><head><meta data-foo=\"\"></head><body>BODY<meta data-foo=\"\"></body></html>"
show("text/no-deps", lambda: HTMLTextDocument(tmpl, deps=[], deps_replace_pattern='<meta data-foo="">').render())
show("text/one", lambda: HTMLTextDocument(tmpl, deps=[a1], deps_replace_pattern='<meta data-foo="">').render())
show("text/full", lambda: HTMLTextDocument(tmpl, deps=[a1, full, a2], deps_replace_pattern='<meta data-foo="">').render(lib_prefix=None))
show("text/noversion", lambda: HTMLTextDocument(tmpl, deps=[full], deps_replace_pattern='<meta data-foo="">').render(include_version=False))
show("text/error", lambda: HTMLTextDocument(tmpl, deps=[a1]))
show("text/none", lambda: HTMLTextDocument("plain", deps=None, deps_replace_pattern="plain").render())
ser = str(full.serialize_to_script_json())
body = "<html><head>HERE</head><body>" + ser + ser + str(a1.serialize_to_script_json(indent=2)) + "</body></html>"
show("text/extracted", lambda: HTMLTextDocument(body, deps_replace_pattern="HERE").render())
td = HTMLTextDocument(body, deps=[a2], deps_replace_pattern="HERE")
rr = td.render()
show("text/deps-deepcopied", lambda: [x is not y and x == y for x, y in zip(rr["dependencies"], td._deps)])
show("text/missing-pattern", lambda: HTMLTextDocument("<html></html>", deps=[a1], deps_replace_pattern="NOPE").render())
