"""Shared probe for property C12 (dependency URLs and copied files agree).

Prints deterministic output: temp directories are replaced by <TMP>.
"""
import hashlib
import os
import re
import shutil
import sys
import tempfile
import urllib.parse
from collections import OrderedDict
from copy import copy
from pathlib import Path

import htmltools
from htmltools import (
    HTML,
    HTMLDependency,
    HTMLDocument,
    HTMLTextDocument,
    Tag,
    TagList,
    div,
    head_content,
    span,
    tags,
)
from htmltools._core import _resolve_dependencies
from packaging.version import Version

TMP = tempfile.mkdtemp(prefix="c12probe")
REAL_TMP = os.path.realpath(TMP)


def norm(s):
    return str(s).replace(REAL_TMP, "<TMP>").replace(TMP, "<TMP>")


def show(label, fn):
    try:
        res = fn()
        print(label, "->", norm(repr(res)))
    except BaseException as e:  # noqa: BLE001
        print(label, "-> EXC", type(e).__name__, norm(e))


def tree(root):
    out = []
    root = Path(root)
    if not root.exists():
        return ["<missing>"]
    for p in sorted(root.rglob("*")):
        rel = p.relative_to(root).as_posix()
        if p.is_dir():
            out.append(rel + "/")
        else:
            data = p.read_bytes()
            if rel.endswith(".html"):
                data = norm(data.decode()).encode()
            out.append(rel + ":" + hashlib.sha1(data).hexdigest()[:10])
    return out


# ---------------------------------------------------------------- source dirs
SRC = os.path.join(TMP, "src dir")
os.makedirs(os.path.join(SRC, "css", "deep"))
os.makedirs(os.path.join(SRC, "js"))
os.makedirs(os.path.join(SRC, "empty"))
files = {
    "a.js": b"a-js",
    "a b.js": b"a b js",
    "css/x.css": b"x-css\n",
    "css/deep/y%z.css": b"y z css",
    "js/é.js": "é".encode(),
    "q?x=1.js": b"q",
    ".hidden": b"h",
}
for k, v in files.items():
    with open(os.path.join(SRC, k), "wb") as f:
        f.write(v)


def mk(name="dep", version="1.2.3", **kw):
    return HTMLDependency(name, version, **kw)


SOURCES = {
    "none": None,
    "url": {"href": "https://cdn.example.com/lib/1.0"},
    "url_slash": {"href": "https://cdn.example.com/lib/"},
    "url_empty": {"href": ""},
    "local": {"subdir": SRC},
    "local_pkgNone": {"package": None, "subdir": SRC},
    "pkg": {"package": "htmltools", "subdir": "libtest/testdep"},
    "pkg_both": {"package": "htmltools", "subdir": "libtest/dep2", "href": "http://h"},
}
SCRIPTS = [
    None,
    {"src": "a.js"},
    [{"src": "a b.js", "defer": ""}, {"src": "js/é.js"}, {"src": "q?x=1.js"}],
    [],
]
SHEETS = [
    None,
    {"href": "css/x.css"},
    [{"href": "css/deep/y%z.css", "rel": "preload", "as": "style"}, {"href": "css/x.css", "media": "print"}],
]

print("== constructor / source_path_map / as_dict / as_html_tags")
for sname, source in SOURCES.items():
    for si, script in enumerate(SCRIPTS):
        for ti, sheet in enumerate(SHEETS):
            if sname.startswith("pkg") and (si or ti):
                continue
            for lib_prefix in ("lib", None, "", "my lib/x", "/abs"):
                for iv in (True, False):
                    label = f"{sname}/{si}/{ti}/{lib_prefix!r}/{iv}"

                    def run():
                        import copy as _c

                        d = mk(
                            source=_c.deepcopy(source),
                            script=_c.deepcopy(script),
                            stylesheet=_c.deepcopy(sheet),
                            meta={"name": "m", "content": "c"} if si == 1 else None,
                            head="<x>" if ti == 1 else (span("h") if ti == 2 else None),
                        )
                        before = (repr(d.script), repr(d.stylesheet), repr(d.meta), repr(d.source))
                        spm = d.source_path_map(lib_prefix=lib_prefix, include_version=iv)
                        ad = d.as_dict(lib_prefix=lib_prefix, include_version=iv)
                        tg = d.as_html_tags(lib_prefix=lib_prefix, include_version=iv)
                        after = (repr(d.script), repr(d.stylesheet), repr(d.meta), repr(d.source))
                        return (spm, ad, str(tg.get_html_string()), before == after, before)

                    show(label, run)

print("== defaults of source_path_map / as_dict / as_html_tags")
d = mk(source={"subdir": SRC}, script={"src": "a.js"}, stylesheet={"href": "css/x.css"})
show("spm default", lambda: d.source_path_map())
show("as_dict default", lambda: d.as_dict())
show("as_html_tags default", lambda: str(d.as_html_tags()))
show("str(dep)", lambda: str(d))
show("repr(dep)", lambda: repr(d))
show("positional spm", lambda: d.source_path_map("lib"))
show("positional as_dict", lambda: d.as_dict("lib"))
show("Version obj", lambda: mk(version=Version("2.0rc1"), source={"subdir": SRC}).source_path_map())
show("relative subdir", lambda: mk(source={"subdir": "htmltools/libtest"}).source_path_map()["source"])
show("bad pkg", lambda: mk(source={"package": "no_such_pkg_xyz", "subdir": "x"}).source_path_map())
show("as_dict bad pkg", lambda: mk(source={"package": "no_such_pkg_xyz", "subdir": "x"}).as_dict())

print("== constructor errors and normalisation")
show("source int", lambda: mk(source=4))
show("source invalid", lambda: mk(source={"not": "valid"}))
show("source list", lambda: mk(source=["href"]))
show("script str", lambda: mk(script="a.js"))
show("script [str]", lambda: mk(script=["a.js"]))
show("script no src", lambda: mk(script={"href": "a.js"}))
show("script list no src", lambda: mk(script=[{"src": "ok"}, {"x": 1}]))
show("sheet no href", lambda: mk(stylesheet={"src": "a.css"}))
show("sheet [int]", lambda: mk(stylesheet=[1]))
show("meta no content", lambda: mk(meta={"name": "n"}))
show("meta no name", lambda: mk(meta={"content": "n"}))
show("meta tuple", lambda: mk(meta=({"name": "n", "content": "c"},)).meta)
show("script tuple", lambda: mk(script=({"src": "s"},)).script)
show("script gen", lambda: type(mk(script=({"src": s} for s in "ab")).script).__name__)
show("errors order 1", lambda: mk(source=3, script="x", stylesheet=3))
show("errors order 2", lambda: mk(script={"no": 1}, stylesheet={"no": 1}, meta={"no": 1}))
show("errors order 3", lambda: mk(stylesheet={"no": 1}, meta={"no": 1}))
show("version bad", lambda: mk(version="not a version"))
show("version int", lambda: mk(version=3).version)
od = OrderedDict(href="o.css")
show("sheet OrderedDict", lambda: (mk(stylesheet=od).stylesheet, od))
lst = [{"href": "l.css"}]
dd = mk(stylesheet=lst)
show("sheet list identity", lambda: (dd.stylesheet is lst, lst))
sd = {"src": "s.js"}
dd = mk(script=sd)
show("script dict identity", lambda: (dd.script[0] is sd, dd.script))
md = [{"name": "n", "content": "c", "charset": "u"}]
dd = mk(meta=md)
show("meta identity", lambda: (dd.meta is md, dd.as_dict()["meta"] is md))
show("head str", lambda: mk(head="<b>&</b>").head)
show("head tag", lambda: mk(head=tags.title("t")).head)
show("head list", lambda: mk(head=[tags.title("t"), "s", None]).head)
show("head taglist", lambda: mk(head=TagList("a", "b")).head)
show("head HTML", lambda: mk(head=HTML("<i>")).head)
show("head empty str", lambda: mk(head="").head)
show("head none", lambda: mk().head)
show("all_files default", lambda: (mk().all_files, mk(all_files=1).all_files))
show("positional source", lambda: HTMLDependency("a", "1", {"subdir": "x"}))


class NoisyDep(HTMLDependency):
    def _validate_dicts(self, ld, req_attr):
        print("   _validate_dicts", req_attr, hasattr(self, "script"), hasattr(self, "stylesheet"), hasattr(self, "meta"), hasattr(self, "source"))
        super()._validate_dicts(ld, req_attr)

    def _validate_dict(self, d, req_attr):
        print("   _validate_dict", d, req_attr)
        super()._validate_dict(d, req_attr)

    def source_path_map(self, *, lib_prefix="lib", include_version=True):
        r = super().source_path_map(lib_prefix=lib_prefix, include_version=include_version)
        print("   source_path_map", repr(lib_prefix), include_version, norm(r))
        return r

    def as_dict(self, *, lib_prefix="lib", include_version=True):
        print("   as_dict", repr(lib_prefix), include_version)
        return super().as_dict(lib_prefix=lib_prefix, include_version=include_version)

    def as_html_tags(self, *, lib_prefix="lib", include_version=True):
        print("   as_html_tags", repr(lib_prefix), include_version)
        return super().as_html_tags(lib_prefix=lib_prefix, include_version=include_version)

    def copy_to(self, path, include_version=True):
        print("   copy_to", norm(path), include_version)
        return super().copy_to(path, include_version)


show("noisy ctor", lambda: NoisyDep("n", "1", script={"src": "a.js"}, stylesheet=[{"href": "b"}, {"href": "c"}], meta={"name": "a", "content": "b"}))
show("noisy ctor err", lambda: NoisyDep("n", "1", script={"src": "a.js"}, stylesheet=[{"href": "b"}, {"hreff": "c"}], meta={"name": "a", "content": "b"}))

print("== as_dict after mutation")
d = mk(source={"subdir": SRC}, stylesheet=[{"href": "css/x.css"}], script=[{"src": "a.js"}])
d.stylesheet.append({"href": "late.css"})
d.stylesheet.append({"href": "late2.css", "rel": "alternate"})
d.script.append({"src": "sub/../late.js", "type": "module"})
show("mutated as_dict", lambda: d.as_dict(lib_prefix="L", include_version=False))
show("mutated orig", lambda: (d.stylesheet, d.script))
d.script.append({"nosrc": 1})
show("script no src as_dict", lambda: d.as_dict())
d.script.pop()
d.stylesheet.append({"nohref": 1})
show("sheet no href as_dict", lambda: d.as_dict())
d.stylesheet.pop()
d.script.append({"src": None})
show("script src None as_dict", lambda: d.as_dict())
d.script[-1] = {"src": b"bytes.js"}
show("script src bytes as_dict", lambda: d.as_dict())
d.script[-1] = {"src": "/abs.js"}
show("script src abs as_dict", lambda: d.as_dict())
d.script[-1] = {"src": ""}
show("script src empty as_dict", lambda: d.as_dict())
d.script.pop()
d.name = "weird name/ü"
show("weird name", lambda: (d.source_path_map(), d.as_dict()["script"]))

print("== copy_to")


def copy_case(label, dep, sub, iv=True, pre=None):
    target = os.path.join(TMP, "out", sub)
    os.makedirs(target, exist_ok=True)
    if pre:
        pre(target)
    show(label, lambda: dep.copy_to(target, iv) if iv is not None else dep.copy_to(target))
    print("   tree", tree(target))


def stale(dirname):
    def pre(target):
        os.makedirs(os.path.join(target, dirname, "old"))
        with open(os.path.join(target, dirname, "old", "stale.txt"), "w") as f:
            f.write("stale")
        with open(os.path.join(target, dirname, "a.js"), "w") as f:
            f.write("old a")
        with open(os.path.join(target, "unrelated.txt"), "w") as f:
            f.write("keep")

    return pre


copy_case("none", mk(), "c0")
copy_case("url", mk(source={"href": "http://x"}, script={"src": "a.js"}), "c1", pre=stale("dep-1.2.3"))
copy_case("local explicit", mk(source={"subdir": SRC}, script=[{"src": "a.js"}, {"src": "a b.js"}], stylesheet={"href": "css/deep/y%z.css"}), "c2", None)
copy_case("local explicit stale", mk(source={"subdir": SRC}, script=[{"src": "a.js"}], stylesheet={"href": "css/x.css"}), "c3", True, stale("dep-1.2.3"))
copy_case("local explicit nover stale", mk(source={"subdir": SRC}, script=[{"src": "a.js"}]), "c4", False, stale("dep"))
copy_case("local nover, versioned stale kept", mk(source={"subdir": SRC}, script=[{"src": "a.js"}]), "c5", False, stale("dep-1.2.3"))
copy_case("all_files", mk(source={"subdir": SRC}, all_files=True), "c6", True, stale("dep-1.2.3"))
copy_case("all_files + listed missing", mk(source={"subdir": SRC}, all_files=True, script={"src": "nope.js"}), "c7")
copy_case("missing script", mk(source={"subdir": SRC}, script=[{"src": "a.js"}, {"src": "nope.js"}], stylesheet={"href": "css/x.css"}), "c8", True, stale("dep-1.2.3"))
copy_case("missing sheet", mk(source={"subdir": SRC}, script=[{"src": "a.js"}], stylesheet={"href": "nope.css"}), "c9", False, stale("dep"))
copy_case("missing both", mk(source={"subdir": SRC}, script=[{"src": "nope1.js"}], stylesheet={"href": "nope.css"}), "c10")
copy_case("listed dir", mk(source={"subdir": SRC}, script=[{"src": "css"}]), "c11")
copy_case("listed dup", mk(source={"subdir": SRC}, script=[{"src": "a.js"}, {"src": "a.js"}], stylesheet={"href": "a.js"}), "c12")
copy_case("listed dir dup", mk(source={"subdir": SRC}, script=[{"src": "css"}, {"src": "css"}]), "c13")
copy_case("listed nested then parent dir", mk(source={"subdir": SRC}, script=[{"src": "css/x.css"}, {"src": "css"}]), "c14")
copy_case("listed dotdot", mk(source={"subdir": os.path.join(SRC, "css")}, script=[{"src": "../a.js"}]), "c15/inner")
copy_case("listed empty", mk(source={"subdir": SRC}, script=[{"src": ""}]), "c16")
copy_case("listed None", mk(source={"subdir": SRC}, script=[{"src": "a.js"}, {"src": None}]), "c17", True, stale("dep-1.2.3"))
copy_case("missing then None", mk(source={"subdir": SRC}, script=[{"src": "nope.js"}, {"src": None}]), "c18")
copy_case("None then missing", mk(source={"subdir": SRC}, script=[{"src": None}, {"src": "nope.js"}]), "c19")
copy_case("no files listed", mk(source={"subdir": SRC}), "c20", True, stale("dep-1.2.3"))
copy_case("pkg all_files", mk(source={"package": "htmltools", "subdir": "libtest/testdep"}, all_files=True), "c21")
copy_case("pkg explicit", mk(source={"package": "htmltools", "subdir": "libtest/dep2"}, script={"src": "td2.js"}), "c22")
copy_case("source dir missing all_files", mk(source={"subdir": os.path.join(TMP, "nonexistent")}, all_files=True), "c23", True, stale("dep-1.2.3"))
copy_case("source dir missing explicit", mk(source={"subdir": os.path.join(TMP, "nonexistent")}, script={"src": "a.js"}), "c24", True, stale("dep-1.2.3"))
copy_case("default include_version", mk(source={"subdir": SRC}, script={"src": "a.js"}), "c25", None)
copy_case("abs listed", mk(source={"subdir": SRC}, script={"src": os.path.join(SRC, "a.js")}), "c26")
copy_case("name with slash", mk(name="x/y", source={"subdir": SRC}, script={"src": "a.js"}), "c27")
copy_case("key missing in script", (lambda d: (d.script.append({"x": 1}), d)[1])(mk(source={"subdir": SRC}, script=[{"src": "a.js"}])), "c28", True, stale("dep-1.2.3"))
show("copy_to keyword", lambda: mk(source={"subdir": SRC}, script={"src": "a.js"}).copy_to(path=os.path.join(TMP, "out", "c29"), include_version=False))
print("   tree", tree(os.path.join(TMP, "out", "c29")))
# target is a file
os.makedirs(os.path.join(TMP, "out", "c30"))
with open(os.path.join(TMP, "out", "c30", "dep-1.2.3"), "w") as f:
    f.write("i am a file")
copy_case("target is file", mk(source={"subdir": SRC}, script={"src": "a.js"}), "c30")
# relative target path
cwd = os.getcwd()
os.makedirs(os.path.join(TMP, "cwd"))
os.chdir(os.path.join(TMP, "cwd"))
show("relative target", lambda: mk(source={"subdir": SRC}, script={"src": "a.js"}).copy_to("rel/out"))
print("   tree", tree(os.path.join(TMP, "cwd")))
show("relative source", lambda: mk(source={"subdir": "../src dir/css"}, all_files=True).copy_to("rel2"))
print("   tree", tree(os.path.join(TMP, "cwd", "rel2")))
os.chdir(cwd)

print("== _resolve_dependencies / get_dependencies")
a11 = mk("a", "1.1", source={"subdir": SRC}, script={"src": "a.js"})
a12 = mk("a", "1.2", source={"subdir": SRC}, script={"src": "a b.js"})
a12b = mk("a", "1.2", source={"subdir": SRC}, script={"src": "q?x=1.js"})
b1 = mk("b", "1.0", source={"href": "http://b"}, script={"src": "b.js"})
c1 = mk("c", "1.10", source=None, head="<c>")
c19 = mk("c", "1.9", source=None, head="<c9>")
for lab, lst in {
    "empty": [],
    "one": [a11],
    "up": [a11, b1, a12],
    "down": [a12, b1, a11],
    "tie": [a12, a12b],
    "tie2": [a12b, a12],
    "multi": [c19, a11, c1, b1, a12, c19, a12b],
}.items():
    show("resolve " + lab, lambda: [(x.name, str(x.version), x.script) for x in _resolve_dependencies(lst)])
t = div(a11, span(b1, a12, div(c19)), c1, "txt", TagList(a12b))
show("get_deps dedup", lambda: [(x.name, str(x.version)) for x in t.get_dependencies()])
show("get_deps nodedup", lambda: [(x.name, str(x.version)) for x in t.get_dependencies(dedup=False)])
show("taglist get_deps", lambda: [(x.name, str(x.version)) for x in TagList(t, a11).get_dependencies()])
show("taglist get_deps nodedup", lambda: [(x.name, str(x.version)) for x in TagList(t, a11).get_dependencies(dedup=False)])

print("== render / save_html")


def local_urls(html):
    return re.findall(r'(?:src|href)="([^"]*)"', html)


def save_case(label, obj_fn, sub, **kw):
    target = os.path.join(TMP, "save", sub)
    os.makedirs(target, exist_ok=True)
    file = os.path.join(target, kw.pop("fname", "index.html"))
    pre = kw.pop("pre", None)
    if pre:
        pre(target)
    pos = kw.pop("pos", None)

    def run():
        obj = obj_fn()
        if pos is not None:
            return obj.save_html(file, *pos)
        return obj.save_html(file, **kw)

    show(label, run)
    if os.path.exists(file):
        with open(file) as f:
            html = f.read()
        print(norm(html))
        for u in local_urls(html):
            if "://" in u:
                continue
            p = os.path.join(os.path.dirname(file), urllib.parse.unquote(u))
            print("   url", norm(u), "exists" if os.path.isfile(p) else "MISSING")
    print("   tree", tree(target))


def deps():
    return [
        mk("a", "1.1", source={"subdir": SRC}, script=[{"src": "a.js"}, {"src": "a b.js"}], stylesheet={"href": "css/deep/y%z.css"}),
        mk("u", "2", source={"href": "https://u.example/x"}, script={"src": "u.js"}, stylesheet={"href": "u.css"}),
        mk("n", "3", head=tags.title("T")),
        mk("all", "4.0", source={"subdir": SRC}, all_files=True, script={"src": "js/é.js"}),
        mk("p", "0.1", source={"package": "htmltools", "subdir": "libtest/testdep"}, script={"src": "testdep.js"}, stylesheet={"href": "testdep.css"}),
    ]


def stale_lib(libdir, names):
    def pre(target):
        for n in names:
            base = os.path.join(target, libdir, n) if libdir else os.path.join(target, n)
            os.makedirs(os.path.join(base, "olddir"))
            with open(os.path.join(base, "stale.txt"), "w") as f:
                f.write("s")
        with open(os.path.join(target, "keep.txt"), "w") as f:
            f.write("k")

    return pre


OBJS = {
    "doc": lambda: HTMLDocument(div("hi", *deps()), lang="en"),
    "tag": lambda: div("hi", *deps(), class_="c"),
    "taglist": lambda: TagList("x", div(*deps()[:2]), deps()[3]),
    "doc html": lambda: HTMLDocument(tags.html(tags.head(tags.title("t")), tags.body(*deps()))),
    "doc body": lambda: HTMLDocument(tags.body(*deps(), id="b")),
    "doc html nohead": lambda: HTMLDocument(tags.html(deps()[0], tags.body("b"))),
    "doc empty": lambda: HTMLDocument(),
    "tag html": lambda: tags.html(tags.body(deps()[0])),
    "taglist empty": lambda: TagList(),
}
i = 0
for oname, ofn in OBJS.items():
    for kw in (
        {},
        {"libdir": "lib"},
        {"libdir": None},
        {"libdir": ""},
        {"libdir": "my libs/sub"},
        {"include_version": False},
        {"libdir": None, "include_version": False},
        {"libdir": "L", "include_version": False},
    ):
        i += 1
        ld = kw.get("libdir", "lib")
        iv = kw.get("include_version", True)
        names = ["a-1.1", "all-4.0", "u-2"] if iv else ["a", "all", "u", "a-1.1"]
        save_case(f"save {oname} {kw}", ofn, f"s{i}", pre=stale_lib(ld, names), **kw)

save_case("save doc positional", OBJS["doc"], "pos1", pos=("plib", False))
save_case("save doc positional libdir only", OBJS["doc"], "pos2", pos=("plib",))
save_case("save tag positional", OBJS["tag"], "pos3", pos=("plib", False))
save_case("save taglist positional", OBJS["taglist"], "pos4", pos=("plib",))
save_case("save missing", lambda: div(mk("m", "1", source={"subdir": SRC}, script={"src": "nope.js"})), "miss1", pre=stale_lib("lib", ["m-1"]))
save_case("save missing 2nd dep", lambda: div(deps()[0], mk("m", "1", source={"subdir": SRC}, script={"src": "nope.js"})), "miss2", pre=stale_lib("lib", ["m-1", "a-1.1"]))
save_case("save doc missing", lambda: HTMLDocument(mk("m", "1", source={"subdir": SRC}, stylesheet={"href": "nope.css"})), "miss3", libdir=None, pre=stale_lib(None, ["m-1"]))
save_case("save bad dir", lambda: div("x"), "nodir", fname="no/such/dir/index.html")
save_case("save bad dir with dep", lambda: div(deps()[0]), "nodir2", fname="no/such/index.html")
show("save file=None", lambda: div("x").save_html(None))
show("save file=None doc", lambda: HTMLDocument("x").save_html(None))
show("save file=None taglist", lambda: TagList("x").save_html(None))
show("save file=Path", lambda: type(div("x").save_html(Path(TMP) / "p.html")).__name__)
show("save file=Path doc", lambda: type(HTMLDocument("x").save_html(Path(TMP) / "p2.html")).__name__)
show("save libdir int", lambda: div(deps()[0]).save_html(os.path.join(TMP, "li.html"), libdir=3))
os.chdir(os.path.join(TMP, "cwd"))
show("save relative", lambda: div(deps()[0]).save_html("relsave.html", libdir="rl"))
show("save relative taglist", lambda: TagList(deps()[0]).save_html("relsave2.html", libdir=None))
print("   tree", tree(os.path.join(TMP, "cwd")))
os.chdir(cwd)

noisy = NoisyDep("noisy", "1.0", source={"subdir": SRC}, script={"src": "a.js"}, stylesheet={"href": "css/x.css"})
save_case("save noisy tag", lambda: div(noisy, span(noisy)), "noisy1", libdir="nl", include_version=False)
save_case("save noisy doc", lambda: HTMLDocument(noisy, div(noisy)), "noisy2", libdir=None)
save_case("save noisy taglist", lambda: TagList(noisy), "noisy3")

print("== HTMLDocument.render variants")
for oname, ofn in OBJS.items():
    if not oname.startswith("doc"):
        continue
    for lp in ("lib", None, "", "x y"):
        for iv in (True, False):
            show(f"render {oname} {lp!r} {iv}", lambda: ofn().render(lib_prefix=lp, include_version=iv))
show("render default", lambda: OBJS["doc"]().render())
show("tag render", lambda: OBJS["tag"]().render())
show("taglist render", lambda: OBJS["taglist"]().render())
show("str tag", lambda: str(OBJS["tag"]()))
show("str taglist", lambda: str(OBJS["taglist"]()))
show("_repr_html_", lambda: OBJS["tag"]()._repr_html_())
htmltools.html_dependency_render_mode = "json"
show("str tag json", lambda: str(OBJS["tag"]()))
show("str taglist json", lambda: str(OBJS["taglist"]()))
htmltools.html_dependency_render_mode = "regular"
show("serialize", lambda: str(deps()[0].serialize_to_script_json().get_html_string()))
show("serialize indent", lambda: str(deps()[2].serialize_to_script_json(indent=2).get_html_string()))


class TF:
    def tagify(self):
        return tags.html(tags.body(deps()[0]))


class TF2:
    def tagify(self):
        return TagList(deps()[0], tags.body("b"))


class TF3:
    def tagify(self):
        return tags.body(deps()[1], "only")


show("render tagifiable html", lambda: HTMLDocument(TF(), data_x="1").render())
show("render tagifiable list", lambda: HTMLDocument(TF2()).render(lib_prefix=None))
show("render tagifiable body", lambda: HTMLDocument(TF3(), class_="k").render(include_version=False))
show("render two html", lambda: HTMLDocument(tags.html("a"), tags.html("b")).render())
show("render html with head not first", lambda: HTMLDocument(tags.html(deps()[0], "txt", tags.head(tags.title("x")), tags.head("second"), tags.body())).render())
show("render str only", lambda: HTMLDocument("just text").render())
show("render html attrs merge", lambda: HTMLDocument(tags.html(tags.body(), lang="en", class_="a"), lang="fr", class_="b").render())
doc = HTMLDocument(div(deps()[0]))
doc.append(span("more"), deps()[1])
show("doc append render", lambda: doc.render())
doc2 = copy(doc)
doc2.append("only in copy")
show("doc copy render", lambda: (doc.render()["html"], doc2.render()["html"]))
show("_hoist wrong tag", lambda: HTMLDocument._hoist_head_content(div(), lib_prefix="lib", include_version=True))
show("_hoist kw", lambda: str(HTMLDocument._hoist_head_content(tags.html(deps()[0]), lib_prefix=None, include_version=False)))
h = tags.html(tags.head("h"), deps()[0])
show("_hoist no mutate", lambda: (str(HTMLDocument._hoist_head_content(h, lib_prefix="p", include_version=True)), str(h.children[0])))
show("_gen kw", lambda: str(HTMLDocument(div(deps()[0]))._gen_html_tag_tree(lib_prefix="g", include_version=False)))

print("== HTMLTextDocument")
td = HTMLTextDocument("<html><head>DEPS</head><body>DEPS</body></html>", deps=deps(), deps_replace_pattern="DEPS")
for lp in ("lib", None, "pp"):
    for iv in (True, False):
        show(f"textdoc {lp!r} {iv}", lambda: td.render(lib_prefix=lp, include_version=iv))
ser = str(deps()[0].serialize_to_script_json().get_html_string()) + str(deps()[1].serialize_to_script_json().get_html_string())
td2 = HTMLTextDocument("<html><head>X</head><body>" + ser + ser + "</body></html>", deps=[], deps_replace_pattern="X")
show("textdoc extracted", lambda: td2.render())
show("textdoc no deps", lambda: HTMLTextDocument("<html>X</html>", deps_replace_pattern="X").render())
show("textdoc err", lambda: HTMLTextDocument("<html>X</html>", deps=[]))

print("== head_content / jsx deps")
show("head_content", lambda: (lambda d: (d.name, str(d.version), d.source_path_map(), d.as_dict()))(head_content(tags.title("t"), "x")))
show("head_content doc", lambda: HTMLDocument(div(head_content(tags.title("t")), head_content(tags.title("t")))).render())
from htmltools._jsx import jsx_tag_create

Foo = jsx_tag_create("Foo")
show("jsx render", lambda: HTMLDocument(Foo("x", a=1)).render())
save_case("save jsx", lambda: div(Foo("x")), "jsx1", libdir="jl")
save_case("save jsx nover", lambda: TagList(Foo("x")), "jsx2", libdir=None, include_version=False)


# ---------------------------------------------------------------- extras specific to this refactoring
print("== extras: copy_to corner cases")


class WeirdPaths(HTMLDependency):
    """source_path_map is overridden and logs its calls."""

    def source_path_map(self, *, lib_prefix="lib", include_version=True):
        base = super().source_path_map(lib_prefix=lib_prefix, include_version=include_version)
        print("   source_path_map called", repr(lib_prefix), include_version)
        return dict(base)


class Truthy:
    def __init__(self, v):
        self.v = v

    def __bool__(self):
        print("   all_files.__bool__")
        return self.v


for af in (Truthy(True), Truthy(False), 1, 0, "", "yes", None):
    dd = mk(source={"subdir": SRC}, script={"src": "a.js"}, all_files=False)
    dd.all_files = af
    copy_case(f"all_files={af if not isinstance(af, Truthy) else 'Truthy(%s)' % af.v!r}", dd, f"e_af{id(type(af)) % 7}_{bool(af) if not isinstance(af, Truthy) else af.v}_{type(af).__name__}")

copy_case("version str()", mk(version=Version("1.0.0-post1"), source={"subdir": SRC}, script={"src": "missing.js"}), "e1")
copy_case("nover missing msg", mk(source={"subdir": SRC}, script={"src": "missing.js"}), "e2", False)

# symlinks in the source dir
LSRC = os.path.join(TMP, "linksrc")
os.makedirs(os.path.join(LSRC, "d"))
with open(os.path.join(LSRC, "real.js"), "w") as f:
    f.write("real")
with open(os.path.join(LSRC, "d", "in.txt"), "w") as f:
    f.write("in")
os.symlink(os.path.join(LSRC, "real.js"), os.path.join(LSRC, "link.js"))
os.symlink(os.path.join(LSRC, "d"), os.path.join(LSRC, "dlink"))
copy_case("symlinks explicit", mk(source={"subdir": LSRC}, script=[{"src": "link.js"}, {"src": "dlink"}]), "e3")
copy_case("symlinks all_files", mk(source={"subdir": LSRC}, all_files=True), "e4")
os.symlink(os.path.join(LSRC, "gone"), os.path.join(LSRC, "broken.js"))
copy_case("broken symlink all_files", mk(source={"subdir": LSRC}, all_files=True), "e5", True, stale("dep-1.2.3"))
copy_case("broken symlink explicit", mk(source={"subdir": LSRC}, script={"src": "broken.js"}), "e6", True, stale("dep-1.2.3"))
os.remove(os.path.join(LSRC, "broken.js"))

# special file: exists but neither regular file nor directory
os.mkfifo(os.path.join(LSRC, "fifo"))
copy_case("fifo explicit", mk(source={"subdir": LSRC}, script=[{"src": "fifo"}, {"src": "real.js"}]), "e7")
os.remove(os.path.join(LSRC, "fifo"))

# source is a file, not a directory
copy_case("source is file all_files", mk(source={"subdir": os.path.join(LSRC, "real.js")}, all_files=True), "e8", True, stale("dep-1.2.3"))
copy_case("source is file explicit", mk(source={"subdir": os.path.join(LSRC, "real.js")}, script={"src": "x"}), "e9")
copy_case("empty source dir all_files", mk(source={"subdir": os.path.join(SRC, "empty")}, all_files=True), "e10", True, stale("dep-1.2.3"))

# target path goes through a symlink; the stale copy is removed in the resolved place
os.makedirs(os.path.join(TMP, "out", "e11real", "dep-1.2.3", "old"))
os.makedirs(os.path.join(TMP, "out", "e11"), exist_ok=True)
os.symlink(os.path.join(TMP, "out", "e11real"), os.path.join(TMP, "out", "e11", "lnk"))
show("target via symlink", lambda: mk(source={"subdir": SRC}, script={"src": "a.js"}).copy_to(os.path.join(TMP, "out", "e11", "lnk")))
print("   tree", tree(os.path.join(TMP, "out", "e11real")))
# target dir itself is a symlink to a directory
os.makedirs(os.path.join(TMP, "out", "e12real", "old"))
os.makedirs(os.path.join(TMP, "out", "e12"), exist_ok=True)
os.symlink(os.path.join(TMP, "out", "e12real"), os.path.join(TMP, "out", "e12", "dep-1.2.3"))
show("target dir is symlink", lambda: mk(source={"subdir": SRC}, script={"src": "a.js"}).copy_to(os.path.join(TMP, "out", "e12")))
print("   tree", tree(os.path.join(TMP, "out", "e12")), tree(os.path.join(TMP, "out", "e12real")), os.path.islink(os.path.join(TMP, "out", "e12", "dep-1.2.3")))

show("path None", lambda: mk(source={"subdir": SRC}, script={"src": "a.js"}).copy_to(None))
show("path None + missing", lambda: mk(source={"subdir": SRC}, script={"src": "nope.js"}).copy_to(None))
show("path None + url", lambda: mk(source={"href": "http://x"}, script={"src": "nope.js"}).copy_to(None))
show("path Path", lambda: mk(source={"subdir": SRC}, script={"src": "a.js"}).copy_to(Path(TMP) / "out" / "e13"))
print("   tree", tree(os.path.join(TMP, "out", "e13")))
show("path bytes", lambda: mk(source={"subdir": SRC}, script={"src": "a.js"}).copy_to(os.fsencode(os.path.join(TMP, "out", "e14"))))
show("listed Path obj", lambda: mk(source={"subdir": SRC}, script={"src": Path("css") / "x.css"}).copy_to(os.path.join(TMP, "out", "e15")))
print("   tree", tree(os.path.join(TMP, "out", "e15")))
show("listed bytes", lambda: mk(source={"subdir": SRC}, script={"src": b"a.js"}).copy_to(os.path.join(TMP, "out", "e16")))
print("   tree", tree(os.path.join(TMP, "out", "e16")))
show("returns None", lambda: [mk().copy_to("x"), mk(source={"subdir": SRC}).copy_to(os.path.join(TMP, "out", "e17"))])

wp = WeirdPaths("wp", "1", source={"subdir": SRC}, script=[{"src": "a.js"}, {"src": "a b.js"}], stylesheet={"href": "css/x.css"})
copy_case("logged paths explicit", wp, "e18")
wp.all_files = True
copy_case("logged paths all_files", wp, "e19", False)
wp.script.append({"src": "nope"})
wp.all_files = False
copy_case("logged paths missing", wp, "e20")
copy_case("logged paths url", WeirdPaths("wp", "1", source={"href": "h"}), "e21")

# unreadable target parent -> error surfaces while preparing the target
if os.geteuid() != 0:
    os.makedirs(os.path.join(TMP, "out", "ro"))
    os.chmod(os.path.join(TMP, "out", "ro"), 0o500)
    show("read-only target", lambda: mk(source={"subdir": SRC}, script={"src": "a.js"}).copy_to(os.path.join(TMP, "out", "ro")))
    os.chmod(os.path.join(TMP, "out", "ro"), 0o700)
else:
    print("read-only target -> skipped (root)")

# shutil functions are looked up at call time
import shutil as _sh

log = []
_c2, _ct, _rm = _sh.copy2, _sh.copytree, _sh.rmtree
_sh.copy2 = lambda a, b, *r, **k: (log.append(("copy2", norm(a), norm(b))), _c2(a, b, *r, **k))[1]
_sh.copytree = lambda a, b, *r, **k: (log.append(("copytree", norm(a), norm(b))), _ct(a, b, *r, **k))[1]
_sh.rmtree = lambda a, *r, **k: (log.append(("rmtree", norm(a))), _rm(a, *r, **k))[1]
try:
    copy_case("logged shutil", mk(source={"subdir": SRC}, script=[{"src": "a.js"}, {"src": "css"}, {"src": "js/é.js"}]), "e22", True, stale("dep-1.2.3"))
    copy_case("logged shutil all", mk(source={"subdir": os.path.join(SRC, "css")}, all_files=True), "e23")
    copy_case("logged shutil missing", mk(source={"subdir": SRC}, script=[{"src": "a.js"}, {"src": "zz"}]), "e24", True, stale("dep-1.2.3"))
finally:
    _sh.copy2, _sh.copytree, _sh.rmtree = _c2, _ct, _rm
for entry in log:
    print("   ", entry)

shutil.rmtree(TMP, ignore_errors=True)
