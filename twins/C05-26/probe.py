# Probe for Tag.get_html_string: prints repr of rendered strings / exception types.
from htmltools import HTML, HTMLDependency, Tag, TagList, div, span, tags, a, p
from htmltools import _core


def show(label, fn):
    try:
        r = fn()
        print(label, "->", type(r).__name__, repr(r))
    except Exception as e:  # noqa: BLE001
        print(label, "-> EXC", type(e).__name__)


class Repr:
    def _repr_html_(self):
        return "<i>repr</i>"


class Tagif:
    def tagify(self):
        return span("tagified")


dep = HTMLDependency("dep", "1.0", script={"src": "x.js"})

cases = {
    "void_empty": tags.br(),
    "void_attrs": tags.img(src="a&b.png", alt='q"uote'),
    "void_with_child": Tag("br", "x"),
    "void_with_two_children": Tag("br", "x", span("y")),
    "void_only_dep": Tag("meta", dep, name="n"),
    "empty_div": div(),
    "empty_span": span(),
    "empty_only_dep": div(dep),
    "single_str": div("a < b & c"),
    "single_empty_str": div(""),
    "single_html": div(HTML("<b>raw</b>")),
    "single_str_and_dep": div(dep, "x<y", dep),
    "script_single": tags.script("if (a < b && c) {}"),
    "script_single_html": tags.script(HTML("a<b")),
    "style_multi": tags.style("a > b {}", "c < d {}", HTML("e&f")),
    "script_with_tag_child": tags.script("x<y", span("in<ner"), "z>w"),
    "inline_nested": span("a", a("b", tags.b("c"), href="#"), "d"),
    "inline_in_block": div(span("a"), span("b"), "text", tags.i("c")),
    "block_in_inline": span(div("x"), "y", div(span("z"), "w")),
    "block_nested": div(div(p("x"), p("y", span("s"))), span("t"), "u"),
    "block_no_ws": div(div("x"), span("y"), _add_ws=False),
    "inline_with_ws": span(span("x"), "y", _add_ws=True),
    "html_attr": div("x", title=HTML("<&>\"'"), data_x="<&>\"'\n\r"),
    "many_attrs": div({"class": "a"}, {"class": "b", "id": "i"}, "k", style="x:1;", hidden=True, n=3, f=1.5),
    "no_attrs_many_kids": div("a", "b", HTML("<c>"), 1, 2.5, Repr(), span()),
    "repr_child": span(Repr(), "x"),
    "repr_only": div(Repr()),
    "dep_between": span("a", dep, "b"),
    "custom_name": Tag("my-elem", span("x"), "y", _add_ws=False, **{"data-a": "1"}),
    "custom_name_empty": Tag("my-elem", _add_ws=False),
    "html_name": Tag(HTML("div"), "x<", id="a<b"),
    "html_name_empty": Tag(HTML("div"), id="a<b", cls="c&d"),
    "html_name_void": Tag(HTML("br"), id="a<b"),
    "html_name_kids": Tag(HTML("div"), span("x"), "y", id="q"),
    "str_subclass_child": div(type("S", (str,), {})("sub<class")),
    "nontagified": div(span("x"), Tagif()),
    "nontagified_single": div(Tagif()),
    "int_name": Tag.__new__(Tag),
}

for label, t in cases.items():
    if label == "int_name":
        t.name = 5
        t.add_ws = True
        t.attrs = _core.TagAttrDict()
        t.children = TagList()
    for kwargs in (
        {},
        {"indent": 2},
        {"indent": 1, "eol": ""},
        {"indent": 0, "eol": "\r\n"},
        {"indent": 3, "eol": "<EOL>"},
    ):
        show(f"{label} {kwargs}", lambda: t.get_html_string(**kwargs))
    show(f"{label} str", lambda: str(t))

# Corner cases of argument types
show("eol_none_block", lambda: div(span("x"), "y").get_html_string(eol=None))
show("eol_none_inline", lambda: span(span("x"), "y").get_html_string(eol=None))
show("eol_none_single", lambda: div("y").get_html_string(eol=None))
show("eol_html_block", lambda: div(span("x"), "y").get_html_string(eol=HTML("<n>")))
show("eol_html_inline", lambda: span(div("x"), "y").get_html_string(eol=HTML("<n>")))
show("indent_neg", lambda: div(span("x"), "y").get_html_string(indent=-1))
show("indent_str", lambda: div(span("x"), "y").get_html_string(indent="a"))
show("indent_str_empty", lambda: div().get_html_string(indent="a"))
show("indent_bool", lambda: div(div("x"), "y").get_html_string(indent=True))

# Attribute values that bypass normalisation
t = div("x", id="ok")
dict.__setitem__(t.attrs, "n", 5)
show("attr_int_value", lambda: t.get_html_string())
t2 = div(id="ok")
dict.__setitem__(t2.attrs, "n", None)
show("attr_none_value_empty", lambda: t2.get_html_string())
t3 = tags.br()
dict.__setitem__(t3.attrs, 7, "v&")
show("attr_int_key_void", lambda: t3.get_html_string())

# Mutated children
t4 = div("x")
t4.children.data.append(None)
show("none_child", lambda: t4.get_html_string())
t5 = div()
t5.children.data.append(5)
show("int_single_child", lambda: t5.get_html_string())
t6 = div(span("a"))
t6.children = ["a", "b"]
show("children_plain_list", lambda: t6.get_html_string())
t7 = div()
t7.children = []
show("children_plain_list_empty", lambda: t7.get_html_string())
t8 = div()
t8.children = ["only"]
show("children_plain_list_single", lambda: t8.get_html_string())

# render() and TagList paths go through the same function
show("render", lambda: div(span("a", Tagif()), dep, p("b")).render()["html"])
show("taglist", lambda: TagList(span("a"), span("b"), div("c"), "d", span("e")).get_html_string())
