"""Probe for the Tag context manager / displayhook chain (property C17).

Prints only deterministic text (no ids / addresses)."""
import copy
import re
import sys
import types

from htmltools import HTML, Tag, TagList, div, span, tags, wrap_displayhook_handler
from htmltools import HTMLDependency

LOG = []


def S(value):
    """str() without memory addresses."""
    return re.sub(r" at 0x[0-9a-fA-F]+", "", str(value))


def base_hook(value):
    LOG.append(("base", type(value).__name__, S(value)))


def show(label, value):
    print(f"{label}: {value!r}")


def exc_name(fn):
    try:
        fn()
    except BaseException as e:  # noqa
        return S(f"{type(e).__name__}: {e}")
    return "no exception"


class Tagifiable1:
    def tagify(self):
        return span("tagified")


class ReprOnly:
    def _repr_html_(self):
        return "<b>repr&html</b>"


class Both:
    def tagify(self):
        return span("both-tagify")

    def _repr_html_(self):
        return "<i>both-repr</i>"


class ReprRaises:
    def _repr_html_(self):
        raise KeyError("repr boom")


class EqRaises:
    def __eq__(self, other):
        raise ZeroDivisionError("eq boom")

    __hash__ = None


class EqAlwaysTrue:
    """Compares equal to None / Ellipsis, so the hook must ignore it."""

    def __eq__(self, other):
        return True

    __hash__ = object.__hash__


class IntSub(int):
    pass


class StrSub(str):
    pass


dep = HTMLDependency("probe-dep", "1.0", source={"subdir": "."}, script={"src": "x.js"})

VALUES = [
    ("none", None),
    ("ellipsis", ...),
    ("str", "text <&>"),
    ("empty str", ""),
    ("int", 7),
    ("zero", 0),
    ("float", 2.5),
    ("bool", True),
    ("false", False),
    ("intsub", IntSub(4)),
    ("strsub", StrSub("sub")),
    ("html", HTML("<em>raw</em>")),
    ("list", ["a", 1, None, ["b", [2.0, None]], ("c",)]),
    ("empty list", []),
    ("tuple", ("t", None, 3)),
    ("taglist", TagList("x", 2, span("y"))),
    ("empty taglist", TagList()),
    ("tag", div("inner", id="i")),
    ("tagifiable", Tagifiable1()),
    ("repr only", ReprOnly()),
    ("both", Both()),
    ("dep", dep),
    ("set", {1}),
    ("dict", {"class": "k"}),
    ("module", types),
    ("bytes", b"by"),
    ("object", object()),
    ("list with set", ["ok", {1}]),
    ("list with dict", ["ok2", {"a": "b"}]),
    ("generator", (c for c in "gen")),
    ("repr raises", ReprRaises()),
    ("eq raises", EqRaises()),
    ("eq always true", EqAlwaysTrue()),
    ("complex", 1j),
    ("range", range(2)),
]


def describe_children(tag):
    return [(type(c).__name__, S(c)) for c in tag.children]


print("== 1. each value displayed inside a block ==")
sys.displayhook = base_hook
for label, value in VALUES:
    del LOG[:]
    t = div()
    outcome = "ok"
    try:
        with t:
            inside = sys.displayhook
            sys.displayhook("before")
            sys.displayhook(value)
            sys.displayhook("after")
    except BaseException as e:  # noqa
        outcome = S(f"{type(e).__name__}: {e}")
    print(label, "->", outcome)
    print("   children:", describe_children(t))
    print("   restored:", sys.displayhook is base_hook, "prev:", t.prev_displayhook)
    print("   inside hook name:", inside.__name__, "is base:", inside is base_hook)
    print("   base log:", LOG)

print("== 2. nesting, order, exactly-once handoff ==")
del LOG[:]
outer, mid, inner = tags.body(), div(id="mid"), span(id="inner")
hooks = {}
with outer:
    hooks["outer"] = sys.displayhook
    show("outer.prev is base", outer.prev_displayhook is base_hook)
    sys.displayhook("o1")
    with mid:
        hooks["mid"] = sys.displayhook
        show("mid.prev is outer hook", mid.prev_displayhook is hooks["outer"])
        sys.displayhook("m1")
        with inner:
            hooks["inner"] = sys.displayhook
            show("inner.prev is mid hook", inner.prev_displayhook is hooks["mid"])
            sys.displayhook("i1")
            sys.displayhook(None)
            sys.displayhook(...)
            sys.displayhook(ReprOnly())
            sys.displayhook(["i2", 3])
        show("after inner: hook is mid hook", sys.displayhook is hooks["mid"])
        show("inner.prev", inner.prev_displayhook)
        sys.displayhook("m2")
        with span(id="second"):
            sys.displayhook("s")
        with inner:  # re-enter a finished tag: allowed, handed over again
            sys.displayhook("again")
    show("after mid: hook is outer hook", sys.displayhook is hooks["outer"])
    sys.displayhook("o2")
show("after outer: hook is base", sys.displayhook is base_hook)
show("distinct hooks", len({id(h) for h in hooks.values()}))
print(str(outer))
print("mid children:", describe_children(mid))
print("inner children:", describe_children(inner))
print("mid children[1] is inner:", mid.children[1] is inner, mid.children[4] is inner)
print("base log:", LOG)

print("== 3. exceptions inside blocks ==")
del LOG[:]
a, b, c = div(id="a"), div(id="b"), div(id="c")
try:
    with a:
        sys.displayhook("a1")
        try:
            with b:
                sys.displayhook("b1")
                with c:
                    sys.displayhook("c1")
                    raise ValueError("inside c")
        except ValueError as e:
            print("caught", e)
            show("hook inside a after failure is a's", sys.displayhook.__name__)
            show("b.prev", b.prev_displayhook)
            show("c.prev", c.prev_displayhook)
        sys.displayhook("a2")
        raise KeyError("inside a")
except KeyError as e:
    print("caught", repr(e))
show("restored", sys.displayhook is base_hook)
print(str(a))
print("base log:", LOG)

print("== 4. invalid value raises inside nested blocks ==")
del LOG[:]
a, b = div(id="a"), div(id="b")
try:
    with a:
        with b:
            sys.displayhook("fine")
            sys.displayhook({1, 2})
            sys.displayhook("never")
except TypeError as e:
    print("TypeError:", e)
show("restored", sys.displayhook is base_hook)
print("a:", describe_children(a), "b:", describe_children(b))
print("a.children[0] is b:", a.children[0] is b)
print("base log:", LOG)

print("== 5. entering an active tag ==")
del LOG[:]
t = div(id="t")
u = span(id="u")
with t:
    h_t = sys.displayhook
    with u:
        h_u = sys.displayhook
        print(exc_name(t.__enter__))
        print(exc_name(u.__enter__))
        show("hook still u's", sys.displayhook is h_u)
        show("u.prev still t's hook", u.prev_displayhook is h_t)
        show("t.prev still base", t.prev_displayhook is base_hook)
        try:
            with t:
                sys.displayhook("unreachable")
        except RuntimeError as e:
            print("RuntimeError:", e)
        show("hook still u's (2)", sys.displayhook is h_u)
        sys.displayhook("u-child")
    show("hook is t's", sys.displayhook is h_t)
show("restored", sys.displayhook is base_hook)
print(str(t))
print("base log:", LOG)

print("== 6. __exit__ without __enter__ ==")
del LOG[:]
t = div(id="lonely")
print(exc_name(lambda: t.__exit__(None, None, None)))
show("sys.displayhook", sys.displayhook)
show("t.prev", t.prev_displayhook)
sys.displayhook = base_hook
print("base log:", LOG)

print("== 7. return values and arguments of __enter__/__exit__ ==")
t = div()
show("enter returns", t.__enter__())
show("exit returns", t.__exit__(ValueError, ValueError("x"), None))
show("restored", sys.displayhook is base_hook)
with div() as bound:
    pass
show("as-target", bound)

print("== 8. enclosing hook raises on handoff ==")


def angry_hook(value):
    LOG.append(("angry", str(value)))
    raise OSError("angry")


del LOG[:]
sys.displayhook = angry_hook
t = div(id="handoff")
try:
    with t:
        sys.displayhook("kid")
except OSError as e:
    print("OSError:", e)
show("hook is angry_hook", sys.displayhook is angry_hook)
show("t.prev", t.prev_displayhook)
print("children:", describe_children(t))
print("log:", LOG)
# can be entered again afterwards
sys.displayhook = base_hook
del LOG[:]
with t:
    sys.displayhook("kid2")
print("children:", describe_children(t), "log:", LOG)

print("== 9. body raising and hook raising: which exception wins ==")
sys.displayhook = angry_hook
del LOG[:]
t = div()
try:
    with t:
        raise ValueError("body")
except BaseException as e:  # noqa
    print(type(e).__name__, e, "| context:", type(e.__context__).__name__, e.__context__)
show("hook is angry_hook", sys.displayhook is angry_hook)
show("t.prev", t.prev_displayhook)
sys.displayhook = base_hook

print("== 10. hook replaced by user code inside the block ==")
del LOG[:]


def other_hook(value):
    LOG.append(("other", str(value)))


t = div(id="r")
with t:
    sys.displayhook("one")
    sys.displayhook = other_hook
    sys.displayhook("two")
show("restored to base", sys.displayhook is base_hook)
print("children:", describe_children(t), "log:", LOG)

print("== 11. instance state ==")
t = div("k", id="s")
show("vars keys", list(vars(t)))
show("prev at rest", t.prev_displayhook)
with t:
    cp = copy.copy(t)
    show("copy.prev is t.prev", cp.prev_displayhook is t.prev_displayhook)
    show("copy.prev is base", cp.prev_displayhook is base_hook)
    print(exc_name(cp.__enter__))
    show("eq while entered", t == cp)
    show("eq fresh", t == div("k", id="s"))
    dc = copy.deepcopy(div("k"))
show("restored", sys.displayhook is base_hook)
show("vars keys after", list(vars(t)))
show("eq after", t == div("k", id="s"))
show("copy eq", cp == t)
show("hasattr enter/exit", (hasattr(Tag, "__enter__"), hasattr(Tag, "__exit__")))
show("callable", (callable(t.__enter__), callable(t.__exit__)))

print("== 12. wrap_displayhook_handler used directly ==")
got = []


def rec(value):
    got.append((type(value).__name__, S(value)))
    return "ignored return"


w = wrap_displayhook_handler(rec)
show("name", w.__name__)
show("two wrappers distinct", wrap_displayhook_handler(rec) is not w)
for label, value in VALUES:
    del got[:]
    try:
        r = w(value)
        res = f"returned {r!r}"
    except BaseException as e:  # noqa
        res = S(f"{type(e).__name__}: {e}")
    print(label, "->", res, got)


def raising_handler(value):
    raise LookupError(f"handler got {type(value).__name__}")


w2 = wrap_displayhook_handler(raising_handler)
for label, value in VALUES[:8] + VALUES[19:22]:
    print(label, "->", exc_name(lambda: w2(value)))
print(exc_name(lambda: wrap_displayhook_handler(None)("x")))
print(exc_name(lambda: wrap_displayhook_handler(None)(None)))
print(exc_name(lambda: w()))

print("== 13. subclass overriding append ==")


class LoudTag(Tag):
    def append(self, *args):
        LOG.append(("loud", len(args), [str(a) for a in args]))
        super().append(*args)


del LOG[:]
lt = LoudTag("loud")
with lt:
    sys.displayhook("x")
    sys.displayhook(None)
    sys.displayhook(ReprOnly())
print(str(lt))
print("log:", LOG)

print("== 14. tag used as value in its own block / same tag twice ==")
del LOG[:]
p = div(id="p")
q = span("q")
with p:
    sys.displayhook(q)
    sys.displayhook(q)
print(str(p), p.children[0] is q, p.children[1] is q)


print("== 15. lookups through the class (methods may live on a base class) ==")
import pickle
from htmltools import Tagifiable, is_tag_node, is_tag_child

sys.displayhook = base_hook
del LOG[:]


class Sub(Tag):
    def __enter__(self):
        LOG.append("sub enter")
        return super().__enter__()

    def __exit__(self, *exc):
        LOG.append("sub exit")
        return super().__exit__(*exc)


sb = Sub("section")
with sb:
    sys.displayhook("in sub")
    print(exc_name(lambda: Tag.__enter__(sb)))
print(str(sb), LOG)
t = div()
show("unbound enter", Tag.__enter__(t))
show("active", t.prev_displayhook is base_hook)
show("unbound exit", Tag.__exit__(t, None, None, None))
show("restored", sys.displayhook is base_hook)
show("protocol checks", (isinstance(t, Tagifiable), is_tag_node(t), is_tag_child(t)))
show("isinstance Tag", (isinstance(sb, Tag), issubclass(Sub, Tag), type(t) is Tag))
rt = pickle.loads(pickle.dumps(div("p", id="pk")))
show("pickle roundtrip", (str(rt), rt == div("p", id="pk"), list(vars(rt))))
show("tag function result type", type(tags.a()).__name__)
sys.displayhook = sys.__displayhook__
print("done")
