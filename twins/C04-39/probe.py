# Probe for refactoring 4: TagAttrDict.update (joining several values of one attribute)
import itertools
from htmltools import HTML, Tag, TagList, div, span, tags
from htmltools._core import TagAttrDict


def show(label, fn):
    try:
        r = fn()
        print(label, "->", type(r).__name__, repr(r))
    except BaseException as e:  # noqa: BLE001
        print(label, "-> EXC", type(e).__name__, str(e)[:90])


def dump(d):
    return [(k, type(v).__name__, str(v)) for k, v in dict.items(d)]


class StrSub(str):
    pass


class HtmlSub(HTML):
    pass


vals = {
    "p1": "a\"<1>'&",
    "p2": "b\r\n&amp;",
    "pe": "",
    "ps": StrSub("s<\">"),
    "h1": HTML("H\"<1>'&"),
    "h2": HTML("&quot;H2"),
    "he": HTML(""),
    "hs": HtmlSub("<sub>\""),
    "T": True,
    "F": False,
    "N": None,
    "i": 7,
    "f": 1.5,
}

# 2 and 3 values for the same attribute, through every entry point
for r in (2, 3):
    for combo in itertools.product(vals, repeat=r):
        if r == 3 and not ({"p1", "h1", "pe", "he", "T", "N", "i"} >= set(combo)):
            continue
        vs = [vals[k] for k in combo]
        lab = "+".join(combo)
        show(lab + " ctor", lambda: dump(TagAttrDict(*[{"class": v} for v in vs])))
        show(lab + " render", lambda: div(*[{"class": v} for v in vs]).get_html_string())
        if r == 2:
            show(lab + " kw", lambda: dump(TagAttrDict({"class_": vs[0]}, class_=vs[1])))
            show(lab + " names", lambda: dump(TagAttrDict({"data_x": vs[0]}, {"data-x_": vs[1]})))

            def upd():
                d = TagAttrDict(id="keep", class_=vs[0])
                d.update({"class": vs[1]})  # update() replaces, does not join with stored
                return dump(d)

            show(lab + " update-over", upd)
            show(lab + " tag kw", lambda: Tag("a", {"href": vs[0]}, href=vs[1], title=vs[0]).get_html_string())
            if isinstance(vs[0], (str, HTML)) and isinstance(vs[1], (str, HTML)):
                show(lab + " add_class", lambda: div(class_=vs[0]).add_class(vs[1]).get_html_string())
                show(lab + " add_class pre", lambda: div(class_=vs[0]).add_class(vs[1], prepend=True).get_html_string())
                show(lab + " add_style", lambda: div(style=vs[0] + ";").add_style(vs[1] + ";").get_html_string())
                show(lab + " add_style pre", lambda: div(style=vs[0] + ";").add_style(vs[1] + ";", prepend=True).get_html_string())

# several attributes interleaved, order of first appearance
show("interleaved", lambda: dump(TagAttrDict(
    {"b": "1<", "a": HTML("2<")}, {"a": "3\"", "c": None, "b": HTML("4\"")}, {"c": "5", "a": True}, b=6)))
show("interleaved render", lambda: span(
    {"b": "1<", "a": HTML("2<")}, {"a": "3\"", "c": None, "b": HTML("4\"")}, {"c": "5", "a": True}, b=6).get_html_string())
# escaping exactly once when plain joins HTML, then more plain / HTML
show("p+h+p", lambda: div({"x": "&"}, {"x": HTML("&amp;")}, {"x": "&"}).get_html_string())
show("h+p+h", lambda: div({"x": HTML("<")}, {"x": "<"}, {"x": HTML("<")}).get_html_string())
show("p+p+h", lambda: div({"x": "'"}, {"x": "'"}, {"x": HTML("'")}).get_html_string())
show("p+p", lambda: div({"x": "\n"}, {"x": "\n"}).get_html_string())
# invalid values
show("bad type", lambda: TagAttrDict({"a": "x"}, {"a": ["y"]}))
show("bad type first", lambda: TagAttrDict({"a": object}, {"a": "y"}))
show("bytes", lambda: TagAttrDict({"a": HTML("x")}, {"a": b"y"}))
show("non mapping", lambda: TagAttrDict([("a", "x")]))
show("non-str key", lambda: TagAttrDict({1: "x"}))
show("empty", lambda: dump(TagAttrDict()))
show("empty maps", lambda: dump(TagAttrDict({}, {})))

d = TagAttrDict(a="1")


def partial_failure():
    try:
        d.update({"a": HTML("2"), "z": "new"}, {"a": 3j})
    except TypeError as e:
        return ("TypeError", dump(d))


show("partial failure leaves dict", partial_failure)
t = div(class_="a&b")
t.attrs["class"] = HTML("c&d")
show("setitem replaces", lambda: t.get_html_string())
show("has_class", lambda: (div(class_="a b").add_class(HTML("c")).has_class("c"), div({"class": "x"}, class_=HTML("y<")).has_class("y<")))
show("remove_class", lambda: div({"class": "x<"}, class_=HTML("y<")).remove_class("x&lt;").get_html_string())
