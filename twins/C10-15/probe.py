# Probe for refactoring 5: validation of `source=` and normalisation of `head=` in the
# HTMLDependency constructor, and the use of the source in source_path_map()/as_dict().
import os
from collections import OrderedDict, UserDict

import htmltools
from htmltools import HTML, HTMLDependency, HTMLDocument, Tag, TagList, div, span, tags

PKG = os.path.dirname(htmltools.__file__)
CWD = os.path.realpath(os.getcwd())


def clean(x):
    return repr(x).replace(PKG, "<pkg>").replace(CWD, "<cwd>")


def show(label, fn):
    try:
        print(label, "->", clean(fn()))
    except BaseException as e:  # noqa
        print(label, "-> EXC", type(e).__name__, clean(str(e)))


class LoudDict(dict):
    def __contains__(self, k):
        r = super().__contains__(k)
        print("   __contains__", k, r)
        return r

    def get(self, k, d=None):
        print("   get", k, d)
        return super().get(k, d)


class Mapping2(UserDict):  # a mapping, but not a dict
    pass


sources = {
    "None": None,
    "subdir": {"subdir": "some/dir"},
    "subdir-abs": {"subdir": "/abs/dir"},
    "pkg": {"package": "htmltools", "subdir": "libtest/testdep"},
    "pkg-None": {"package": None, "subdir": "rel"},
    "pkg-missing-module": {"package": "no_such_pkg_xyz", "subdir": "rel"},
    "pkg-only": {"package": "htmltools"},
    "href": {"href": "https://x.example/y"},
    "href-and-subdir": {"href": "H", "subdir": "S", "package": "htmltools"},
    "href-None": {"href": None},
    "subdir-None": {"subdir": None},
    "empty": {},
    "other-keys": {"url": "x"},
    "list": [],
    "list-pair": [("href", "x")],
    "str": "lib/",
    "empty-str": "",
    "zero": 0,
    "false": False,
    "tuple": ("href",),
    "set": {"href"},
    "ordered": OrderedDict(subdir="o"),
    "userdict": Mapping2(href="u"),
    "loud-href": LoudDict(href="lh"),
    "loud-subdir": LoudDict(subdir="ls"),
    "loud-neither": LoudDict(x=1),
    "loud-both": LoudDict(href="h", subdir="s"),
}
for name, src in sources.items():
    def run():
        d = HTMLDependency("nm", "1.2.3", source=src, script={"src": "a b.js"}, stylesheet={"href": "c.css"})
        out = [d.source is src]
        for kw in ({}, {"lib_prefix": None}, {"lib_prefix": "", "include_version": False}, {"lib_prefix": "L/M", "include_version": False}):
            try:
                out.append(d.source_path_map(**kw))
            except BaseException as e:  # noqa
                out.append(("EXC", type(e).__name__, str(e)))
        try:
            out.append(d.as_dict())
            out.append(str(d))
        except BaseException as e:  # noqa
            out.append(("EXC", type(e).__name__, str(e)))
        return out
    show(f"source {name}", run)


class NotTagChild:
    pass


heads = {
    "None": None,
    "str": "<title>x</title>",
    "empty-str": "",
    "HTML": HTML("<b>h</b>"),
    "tag": tags.title("a < b"),
    "taglist": TagList(tags.meta(name="x"), "text & more"),
    "empty-taglist": TagList(),
    "list": [tags.link(href="l"), "plain <text>", None, [HTML("<i>")]],
    "empty-list": [],
    "tuple-of-str": ("<a>", "<b>"),
    "int": 7,
    "float": 1.5,
    "zero": 0,
    "false": False,
    "dict": {"a": 1},
    "object": NotTagChild(),
    "dep-in-head": HTMLDependency("inner", "1"),
    "bytes": b"<x>",
}
for name, h in heads.items():
    def run():
        d = HTMLDependency("nm", "1", head=h)
        return (
            type(d.head).__name__,
            None if d.head is None else [type(c).__name__ for c in d.head],
            None if d.head is None else d.head.get_html_string(),
            d.head is h,
            d.as_dict()["head"],
            str(d.as_html_tags()),
            d.serialize_to_script_json().get_html_string(),
        )
    show(f"head {name}", run)

# str subclass as head, HTML subclass as head
class MyStr(str):
    pass


class MyHTML(HTML):
    pass


show("head mystr", lambda: [type(c).__name__ for c in HTMLDependency("n", "1", head=MyStr("<p>")).head])
show("head myhtml", lambda: [type(c).__name__ for c in HTMLDependency("n", "1", head=MyHTML("<p>")).head])

# order of checks when several arguments are wrong
show("order source/script", lambda: HTMLDependency("n", "1", source=3, script=4))
show("order source/head", lambda: HTMLDependency("n", "1", source={}, head=NotTagChild()))
show("order version/source", lambda: HTMLDependency("n", "bad version", source=3))
show("order script/head", lambda: HTMLDependency("n", "1", script={"x": 1}, head=NotTagChild()))

# partially initialised object after a rejected source
obj = HTMLDependency.__new__(HTMLDependency)
try:
    obj.__init__("n", "1", source=[1])
except TypeError as e:
    print("partial", sorted(obj.__dict__), e)
obj = HTMLDependency.__new__(HTMLDependency)
try:
    obj.__init__("n", "1", source={"subdir": "s"}, head=NotTagChild())
except TypeError as e:
    print("partial", sorted(obj.__dict__), e)

# serialise -> reconstruct round trip keeps source/head
d = HTMLDependency("rt", "2.1", source={"package": "htmltools", "subdir": "libtest/testdep"}, script={"src": "testdep.js"}, head="<title>rt</title>")
import json, re
txt = d.serialize_to_script_json().get_html_string()
payload = re.search(r">(.*)</script>", txt, re.S).group(1)
d2 = HTMLDependency(**json.loads(payload))
print(d2.source, d2.head.get_html_string(), type(d2.head[0]).__name__, str(d2) == str(d))
print(clean(d.source_path_map()), clean(d2.source_path_map(lib_prefix=None)))

# in a document
print(HTMLDocument(div(d, HTMLDependency("h", "1", source={"href": "//cdn"}, stylesheet={"href": "x.css"}, head=span("s")))).render()["html"])
