import copy as _copy

from htmltools import (
    HTML,
    HTMLDependency,
    HTMLDocument,
    Tag,
    TagList,
    div,
    head_content,
    span,
    tags,
)
from htmltools import _core

LOG = []


def show(label, fn):
    try:
        res = fn()
        print(label, "->", repr(res))
    except BaseException as e:  # noqa: BLE001
        print(label, "-> EXC", type(e).__name__, str(e))


def dep(name, version="1.0"):
    return HTMLDependency(name, version, head=f"<meta name='{name}'>")


class T:
    """Tagifiable returning whatever it is given."""

    def __init__(self, name, result):
        self.name = name
        self.result = result

    def __repr__(self):
        return f"{type(self).__name__}({self.name})"

    def tagify(self):
        LOG.append(self.name)
        r = self.result
        return r() if callable(r) else r


class TR(T):
    """Tagifiable and self-rendering."""

    def _repr_html_(self):
        LOG.append("repr:" + self.name)
        return f"<i>{self.name}&</i>"


class R:
    def __init__(self, name):
        self.name = name

    def __repr__(self):
        return f"R({self.name})"

    def _repr_html_(self):
        LOG.append("repr:" + self.name)
        return f"<b>{self.name}</b>"


class Boom:
    def __repr__(self):
        return "Boom()"

    def tagify(self):
        LOG.append("boom")
        raise KeyError("boom")


class BoomRepr:
    def __repr__(self):
        return "BoomRepr()"

    def _repr_html_(self):
        raise ZeroDivisionError("br")


class S(str):
    pass


def rendered(x):
    r = x.render()
    return (r["html"], [(d.name, str(d.version)) for d in r["dependencies"]])


def doc(x, **kw):
    r = HTMLDocument(x).render(**kw)
    return (r["html"], [(d.name, str(d.version)) for d in r["dependencies"]])


def trees():
    d1, d2 = dep("a"), dep("b", "2.1")
    yield "empty", lambda: TagList()
    yield "plain", lambda: TagList("x<", HTML("<y>"), div("z"), 3, 2.5, True, None)
    yield "t-str", lambda: TagList("a", T("t1", "mid&"), "b")
    yield "t-html", lambda: TagList("a", T("t1", HTML("<hr>")), "b")
    yield "t-tag", lambda: TagList(T("t1", div("in", d1)), span("s"))
    yield "t-empty-list", lambda: TagList("a", T("t1", TagList()), "b")
    yield "t-list", lambda: TagList("a", T("t1", TagList("p", div("q"), d1, "r")), "b", d2)
    yield "t-dep", lambda: TagList(T("t1", d1), "after")
    yield "t-nested", lambda: TagList(
        T("o", lambda: TagList(T("i1", "I1"), T("i2", lambda: TagList(T("i3", div(d2)), "k")))),
        T("p", lambda: div(T("q", span("Q", d1)))),
    )
    yield "t-in-tag", lambda: div(T("t1", TagList("a", "b")), span(T("t2", TagList())), id="x")
    yield "t-only-child", lambda: div(T("t1", "text<"))
    yield "t-in-script", lambda: tags.script(T("t1", "a<b"), "c<d")
    yield "t-in-style", lambda: tags.style("p>q", T("t1", HTML("x>y")))
    yield "t-noWS", lambda: span(T("t1", TagList("a", span("b"), "c")), div("d"), _add_ws=False)
    yield "t-repr", lambda: TagList("a", TR("tr", "never?"), R("r"), div(R("r2"), "x"))
    yield "t-ret-none", lambda: TagList("a", T("t1", None), "b")
    yield "t-ret-int", lambda: TagList("a", T("t1", 5), "b")
    yield "t-ret-list", lambda: TagList("a", T("t1", ["u", "v"]), "b")
    yield "t-ret-unexpanded", lambda: TagList("a", T("t1", lambda: T("t2", "never")), "b")
    yield "t-ret-unexpanded-in-list", lambda: TagList(T("t1", lambda: TagList(T("t2", "x"), "y")))
    yield "t-boom", lambda: TagList(T("t1", "x"), Boom(), T("t3", "z"))
    yield "t-boomrepr", lambda: TagList("a", BoomRepr())
    yield "t-strsub", lambda: TagList(S("s<"), T("t1", S("u<")), tags.script(S("v<"), "w"))
    yield "t-html-root", lambda: tags.html(tags.head(tags.title("T")), tags.body(T("t1", TagList("x", d1))))
    yield "t-body-root", lambda: tags.body(T("t1", div("x", d2)), class_="c")
    yield "t-to-html", lambda: TagList(T("t1", lambda: tags.html(tags.body("B", d1), lang="en")))
    yield "t-to-body", lambda: TagList(T("t1", lambda: tags.body("B", T("t2", d2))))
    yield "t-to-head-html", lambda: T("t1", lambda: tags.html(d1, tags.head("H"), "tail"))
    yield "t-two-html", lambda: TagList(tags.html("a"), tags.html("b"))
    yield "t-headcontent", lambda: TagList(T("t1", lambda: head_content(tags.meta(name="m"))), "c")
    yield "t-dup-deps", lambda: TagList(T("t1", dep("a", "1.0")), div(T("t2", dep("a", "2.0"))), dep("a", "1.5"))


def main():
    for name, mk in trees():
        for how, fn in (
            ("render", lambda x: rendered(x) if hasattr(x, "render") else "n/a"),
            ("doc", lambda x: doc(x)),
            ("doc-nolib", lambda x: doc(x, lib_prefix=None, include_version=False)),
            ("str", lambda x: str(x) if isinstance(x, (Tag, TagList)) else "n/a"),
            ("raw", lambda x: x.get_html_string() if isinstance(x, (Tag, TagList)) else "n/a"),
            ("raw-args", lambda x: x.get_html_string(2, "\r\n") if isinstance(x, (Tag, TagList)) else "n/a"),
            ("tagify", lambda x: repr(list(x.tagify())) if isinstance(x, TagList) else repr(x.tagify())),
            ("deps", lambda x: [(d.name, str(d.version)) for d in x.tagify().get_dependencies(dedup=False)] if isinstance(x, (Tag, TagList)) else "n/a"),
        ):
            del LOG[:]
            try:
                x = mk()
            except BaseException as e:  # noqa: BLE001
                print(name, how, "-> BUILD EXC", type(e).__name__, e)
                continue
            show(f"{name} {how}", lambda: fn(x))
            print("   log:", LOG)


main()


def extras():
    d1 = dep("a")
    # tagify copies: originals untouched, metadata nodes copied, other nodes shared
    inner = div("k")
    t = T("t1", TagList("p", d1))
    orig = TagList("s", inner, d1, t)
    cp = orig.tagify()
    print("ident", cp is orig, len(orig), len(cp), cp[0] is orig[0], cp[1] is inner,
          cp[1] == inner, cp[2] is d1, cp[2] == d1, cp[4] is d1, orig[3] is t, type(cp).__name__)
    tg = div(t, d1, id="i")
    cp2 = tg.tagify()
    print("ident-tag", cp2 is tg, cp2.children is tg.children, len(tg.children), len(cp2.children),
          cp2.attrs is tg.attrs, cp2.attrs == tg.attrs)

    # get_html_string options
    tl = TagList("a<", span("b"), R("r"), HTML("<c>"), div("d"), "e", d1, span("f", _add_ws=False), "g")
    for kw in ({}, {"add_ws": False}, {"_escape_strings": False}, {"indent": 3, "eol": "|"},
               {"indent": 1, "eol": "", "add_ws": False, "_escape_strings": False}):
        show(f"ghs {sorted(kw.items())}", lambda: tl.get_html_string(**kw))
    show("ghs bad-indent str", lambda: TagList("a").get_html_string("x"))
    show("ghs bad-indent repr", lambda: TagList(R("r")).get_html_string("x"))
    del LOG[:]
    show("ghs bad-indent unexpanded", lambda: TagList(T("t", "x")).get_html_string("x"))
    show("ghs bad-indent noWS", lambda: TagList("a", R("r")).get_html_string("x", add_ws=False))
    show("ghs indent 0 unexpanded", lambda: TagList("a", T("t", "x"), R("r")).get_html_string())
    print("   log:", LOG)
    show("ghs bad eol", lambda: TagList("a", "b").get_html_string(eol=None))
    show("ghs tr only", lambda: TagList(TR("tr", "x")).get_html_string())
    show("tag unexpanded", lambda: div("a", T("t", "x")).get_html_string())
    show("tag unexpanded only", lambda: div(T("t", "x")).get_html_string())
    show("str unexpanded", lambda: str(div(T("t", T("u", "x")))))
    show("void", lambda: (tags.br().get_html_string(), tags.br(d1).get_html_string(), tags.br("x").get_html_string(),
                          div().get_html_string(3), div(d1).get_html_string(), div("").get_html_string(),
                          div(HTML("")).get_html_string(), div("", "").get_html_string()))

    # normalization used by the splice
    f = _core._tagchilds_to_tagnodes
    for label, arg in (
        ("str", "abc"), ("empty", []), ("nested", ["a", ["b", ("c", None, TagList("d", [1, 2.5]))], True]),
        ("taglist", TagList("a", div())), ("gen", (x for x in ["a", None, 3])), ("strsub", S("q")),
        ("bad", ["a", object()]), ("bad-dict", [{"a": 1}]), ("bad-set", ["a", {1}, object()]), ("bytes", [b"x"]),
        ("none", None), ("int", 5), ("inf", [float("inf"), -0.0, 10**30]),
    ):
        show(f"norm {label}", lambda: f(arg))
    lst = ["a", 1, None, ["b"]]
    out = f(lst)
    print("norm no-alias", lst, out, out is lst)

    # document handling of the original objects
    h = tags.html(tags.body(T("t1", TagList("x", d1))), lang="en")
    d = HTMLDocument(h, lang="fr", data_x="1")
    del LOG[:]
    show("doc html attrs", lambda: d.render()["html"])
    show("doc html attrs again", lambda: d.render(lib_prefix="L")["html"])
    print("   log:", LOG, repr(h.attrs), len(h.children))
    b = tags.body("B", id="b")
    d = HTMLDocument(b, class_="k")
    show("doc body attrs", lambda: d.render()["html"])
    print("  ", repr(b.attrs), len(b.children))
    show("doc multi", lambda: doc(TagList(tags.body("a"), T("t", TagList()))))
    show("doc multi2", lambda: doc(TagList(tags.body("a"), T("t", "z"))))
    show("doc empty", lambda: doc(TagList()))
    show("doc none", lambda: doc(None))
    show("doc str", lambda: doc("s"))
    show("doc unexpanded deep", lambda: doc(T("a", lambda: div(T("b", lambda: T("c", "x"))))))
    e = HTMLDocument()
    e.append(T("t", TagList("q", d1)), "r")
    show("doc append", lambda: e.render()["html"])
    show("hoist bad", lambda: HTMLDocument._hoist_head_content(div(), "lib", True))

    class MyTag(Tag):
        pass

    class MyList(TagList):
        pass

    show("subclass tag", lambda: (type(MyTag("p", T("t", "x")).tagify()).__name__, rendered(MyTag("p", T("t", "x"), d1))))
    show("subclass list", lambda: (type(MyList(T("t", "x")).tagify()).__name__, rendered(MyList(T("t", "x"), d1))))
    show("repr_html", lambda: (div(T("t", "x"))._repr_html_(), TagList(T("t", "x"))._repr_html_()))


extras()
