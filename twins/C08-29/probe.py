"""Probe for HTMLDocument.__copy__ and Tag.__copy__ (shared shallow field copy)."""
import os
import tempfile
from copy import copy

from htmltools import HTML, HTMLDependency, HTMLDocument, Tag, TagList, div, span, tags


def show(label, fn):
    try:
        print(label, "->", repr(fn()))
    except Exception as e:  # noqa: BLE001
        print(label, "!!", type(e).__name__, str(e)[:90])


d = HTMLDependency(
    "dep", "2.1", source={"href": "/lib/dep"}, script={"src": "s.js"}, stylesheet={"href": "c.css"}
)


class Lazy:
    def __init__(self):
        self.calls = 0

    def tagify(self):
        self.calls += 1
        return span("lazy", str(self.calls))


# ---------------------------------------------------------------- HTMLDocument
def describe_doc(label, doc):
    c = copy(doc)
    print(label, "type:", type(c).__name__, "is:", c is doc, "keys:", list(c.__dict__.keys()))
    print(label, "content is:", c._content is doc._content, "eq:", c._content == doc._content,
          "type:", type(c._content).__name__,
          "nodes shared:", [a is b for a, b in zip(c._content, doc._content)])
    print(label, "attrs is:", c._html_attr_args is doc._html_attr_args, "eq:",
          c._html_attr_args == doc._html_attr_args, type(c._html_attr_args).__name__)
    print(label, "same render:", c.render() == doc.render(), repr(c.render()["html"]))
    return c


describe_doc("empty-doc", HTMLDocument())
doc = HTMLDocument(div("a", d), tags.p("b"), "text", lang="en", class_="root")
c = describe_doc("doc", doc)
c.append(span("only in copy"))
c._html_attr_args["lang"] = "fr"
print("orig after copy mutated:", repr(doc.render()["html"]))
doc.append("only in orig")
doc._content[0].append("shared inner")  # shallow: nodes are shared
print("copy after orig mutated:", repr(c.render()["html"]))
print("copies repeat:", copy(doc).render() == copy(doc).render(), copy(copy(doc)).render() == doc.render())
print("deps:", [(x.name, str(x.version)) for x in copy(doc).render()["dependencies"]])

lz = Lazy()
ldoc = HTMLDocument(lz)
lcopy = copy(ldoc)
print("copy does not tagify:", lz.calls, lcopy._content[0] is lz)
print("lazy renders:", repr(ldoc.render()["html"]), lz.calls)


class MyDoc(HTMLDocument):
    flavour = "class-level"

    def __init__(self, *a, **k):
        super().__init__(*a, **k)
        self.notes = ["n1"]
        self.title = "T"
        self.extra_tag = div("e")


m = MyDoc(div("m"), id="i")
mc = describe_doc("subclass-doc", m)
print("subclass fields:", mc.notes == m.notes, mc.notes is m.notes, mc.title is m.title,
      mc.extra_tag == m.extra_tag, mc.extra_tag is m.extra_tag, mc.flavour, "flavour" in mc.__dict__)
mc.notes.append("n2")
mc.extra_tag.append("x")
print("orig fields:", m.notes, str(m.extra_tag))


class PresetDoc(HTMLDocument):
    def __new__(cls, *a, **k):
        obj = super().__new__(cls)
        obj.from_new = "new"
        return obj


pd = PresetDoc("x")
pd.__dict__.pop("from_new")
pc = copy(pd)
print("preset doc:", list(pc.__dict__.keys()), pc.from_new, repr(pc.render()["html"]))


class NoCopy:
    def __copy__(self):
        raise RuntimeError("cannot copy")


bd = HTMLDocument("x")
bd.handle = NoCopy()
show("uncopyable doc field", lambda: copy(bd))
print("doc still renders:", repr(bd.render()["html"]))

with tempfile.TemporaryDirectory() as tmp:
    f = os.path.join(tmp, "o.html")
    copy(doc).save_html(f)
    print("saved copy == render:", open(f).read() == doc.render()["html"])

# ------------------------------------------------------------------------- Tag
t = div("a", span("b"), HTML("<i>"), d, id="x", _add_ws=False)
tc = copy(t)
print("tag:", type(tc).__name__, tc == t, tc is t, tc.children is t.children, tc.attrs is t.attrs,
      list(tc.__dict__.keys()), [a is b for a, b in zip(tc.children, t.children)])
tc.append("z")
tc.attrs["id"] = "y"
print("tag orig:", repr(str(t)), "copy:", repr(str(tc)))


class Widget(Tag):
    def __init__(self, *a, **k):
        super().__init__("section", *a, **k)
        self.state = {"k": []}


w = Widget("w")
wc = copy(w)
print("widget:", type(wc).__name__, wc == w, wc.state == w.state, wc.state is w.state,
      wc.state["k"] is w.state["k"], list(wc.__dict__.keys()))
bt = div("x")
bt.handle = NoCopy()
show("uncopyable tag field", lambda: copy(bt))
show("uncopyable tag tagify", bt.tagify)
tree = div(w, tags.p(Lazy(), d), id="root")
print("tagify:", tree.tagify() == tree.tagify(), repr(str(tree.tagify())))
print("tagify independent:", tree.tagify().children[0] is w, tree.tagify().children[0].state is w.state)
print("render:", repr(HTMLDocument(tree).render()["html"]))
