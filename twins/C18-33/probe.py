# Probe for refactoring 3: JSXTag.__init__ validation (name check and allowedProps check)
from htmltools import HTMLDocument, TagList, div, head_content, span
from htmltools._jsx import JSXTag, jsx, jsx_tag_create


def show(label, fn):
    try:
        print(label, "->", repr(fn()))
    except BaseException as e:  # noqa: BLE001
        print(label, "-> EXC", type(e).__name__, str(e)[:120])


def desc(t):
    return (t.name, dict(t.attrs), [str(c) for c in t.children])


# name check
for nm in ["Foo", "foo", "Foo.bar", "foo.Bar", "a.b.C", "", ".", "Foo.", ".foo", "_x", "1abc", "Éa", "éa",
           "ßx", "ǆx", "ǅx", "Foo.Bar.baz", " foo", "-", "ıx", "ﬁx"]:
    show("name %r" % nm, lambda nm=nm: desc(JSXTag(nm, "c", a=1)))
show("name None", lambda: JSXTag(None))
show("name int", lambda: JSXTag(5))
show("name bytes", lambda: JSXTag(b"Foo"))

# allowedProps check
show("allowed ok", lambda: desc(JSXTag("Foo", allowedProps=["a", "b"], a=1, b=2)))
show("allowed bad", lambda: desc(JSXTag("Foo", allowedProps=["a", "b"], a=1, c=2)))
show("allowed first bad reported", lambda: JSXTag("Foo", allowedProps=["a"], z=1, y=2, a=3))
show("allowed first bad reported 2", lambda: JSXTag("Foo", allowedProps=["a"], a=3, y=2, z=1))
show("allowed empty list", lambda: desc(JSXTag("Foo", allowedProps=[], q=1)))
show("allowed None", lambda: desc(JSXTag("Foo", allowedProps=None, q=1)))
show("allowed tuple", lambda: JSXTag("Foo", allowedProps=("a",), q=1))
show("allowed empty tuple", lambda: desc(JSXTag("Foo", allowedProps=(), q=1)))
show("allowed set", lambda: JSXTag("Foo", allowedProps={"a"}, q=1))
show("allowed dict", lambda: desc(JSXTag("Foo", allowedProps={"a": 0}, a=1)))
show("allowed string substring", lambda: desc(JSXTag("Foo", allowedProps="abcdef", bcd=1)))
show("allowed string miss", lambda: JSXTag("Foo", allowedProps="abcdef", xyz=1))
show("allowed empty string", lambda: desc(JSXTag("Foo", allowedProps="", xyz=1)))
show("allowed int truthy", lambda: JSXTag("Foo", allowedProps=5, a=1))
show("allowed int truthy no kwargs", lambda: desc(JSXTag("Foo", allowedProps=5)))
show("allowed zero", lambda: desc(JSXTag("Foo", allowedProps=0, a=1)))
show("allowed not normalized", lambda: JSXTag("Foo", allowedProps=["class"], class_="x"))
show("allowed raw name", lambda: desc(JSXTag("Foo", allowedProps=["class_", "data_x"], class_="x", data_x=1)))
show("both wrong: name wins", lambda: JSXTag("foo", allowedProps=["a"], b=1))
show("name ok, bad child", lambda: JSXTag("Foo", object()))
show("bad prop before bad child", lambda: JSXTag("Foo", object(), allowedProps=["a"], b=1))


class Allowed:
    def __init__(self):
        self.log = []

    def __bool__(self):
        self.log.append("bool")
        return True

    def __contains__(self, k):
        self.log.append(("contains", k))
        return k != "stop"


al = Allowed()
show("custom container", lambda: JSXTag("Foo", allowedProps=al, a=1, b=2, stop=3, c=4))
print("log", al.log)
al2 = Allowed()
show("custom container, bad name", lambda: JSXTag("foo", allowedProps=al2, a=1))
print("log2", al2.log)


class Falsy(Allowed):
    def __bool__(self):
        self.log.append("bool")
        return False


al3 = Falsy()
show("falsy container", lambda: desc(JSXTag("Foo", allowedProps=al3, a=1)))
print("log3", al3.log)

# factory
Foo = jsx_tag_create("Foo", allowedProps=["a", "style"])
print(Foo.__name__, type(Foo).__name__)
show("factory ok", lambda: desc(Foo("c", a=1)))
show("factory bad", lambda: Foo(b=1))
lst = ["a"]
Bar = jsx_tag_create("ns.Bar", lst)
show("factory before mutation", lambda: Bar(b=1))
lst.append("b")
show("factory after mutation", lambda: desc(Bar(b=1)))
lst.clear()
show("factory after clear", lambda: desc(Bar(zzz=1)))
show("factory lower", lambda: jsx_tag_create("lower")())
show("factory no allowed", lambda: desc(jsx_tag_create("Any")(x=1, y_z=2)))

# rendering is unchanged
t = Foo(div("x", span("y")), "str", head_content("hc"), a=jsx("() => 1"), style="color: red; top: 1px")
print(str(t))
r = HTMLDocument(TagList(t, Foo(a=[1, None, True, {"k": "v"}]))).render()
print(r["html"])
print([d.name for d in r["dependencies"]])
