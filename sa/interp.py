"""Engine A: path-sensitive abstract interpreter by re-execution (DESIGN 3.2).

A *run* executes one function (or one loop body) on abstract values. When a branch
condition is not determined by the facts assumed so far, the run consults its decision
trace; the driver (`explore`) replays the function once per feasible decision sequence.
Leaves carry: the facts assumed, the effects performed, and the outcome."""

from __future__ import annotations

import ast
from typing import Any, Callable, Dict, FrozenSet, List, Optional, Tuple

from .frontend import AnalysisError, ClassInfo, Module, NotConst, Program, norm
from .values import (ALL_KINDS, KINDS, META_KINDS, NODE_KINDS, Frag, SBool, SBound, SClass, SDict, SExtern, SFunc,
                     SInt, SList, SNew, SObj, SOpaque, SSplat, SStr, SSuper, SUnknown, Sym, TypeRef, Universe,
                     Unmodelled, _ABCS, _BUILTIN_TYPES, _NOVAL, kinds_of_pyvalue, lit, short)


class Infeasible(Exception):
    pass


class NeedsDecision(Exception):
    """Raised in frozen mode when evaluating something would need a fork."""


class _Return(Exception):
    def __init__(self, value: Any):
        self.value = value


class _Raise(Exception):
    def __init__(self, exc: Any, node: Optional[ast.AST] = None):
        self.exc = exc
        self.node = node


class _Continue(Exception):
    pass


class _Break(Exception):
    pass


class _BodyExit(Exception):
    """The body of a `for` over a generator left the loop (break / return / raise): unwinds the generator's frames."""

    def __init__(self, kind: str, payload: Any = None):
        self.kind = kind
        self.payload = payload


class _StopAtLoop(Exception):
    def __init__(self, outcome: Any):
        self.outcome = outcome


class Effect:
    def __init__(self, kind: str, target: Any = None, key: Any = None, value: Any = None, node: Optional[ast.AST] = None,
                 extra: Any = None):
        self.kind = kind      # store_attr | store_item | del_item | call | mutcall | raise | global_store
        self.target = target
        self.key = key
        self.value = value
        self.node = node
        self.extra = extra

    def __repr__(self) -> str:
        if self.kind == "call":
            return f"call {short(self.target)}({', '.join(short(a) for a in (self.value or []))})"
        return f"{self.kind} {short(self.target)}[{short(self.key)}] := {short(self.value)}"


class Leaf:
    def __init__(self, atoms: List[Tuple[Any, Any]], outcome: Tuple[Any, ...], effects: List[Effect], env: Dict[str, Any],
                 run: "Run"):
        self.atoms = atoms
        self.outcome = outcome   # ('return', v) | ('raise', exc) | ('continue',) | ('break',) | ('fall',)
        self.effects = effects
        self.env = env
        self.run = run

    @property
    def kind(self) -> str:
        return self.outcome[0]

    @property
    def value(self) -> Any:
        return self.outcome[1] if len(self.outcome) > 1 else None

    def __repr__(self) -> str:
        return f"Leaf({self.outcome!r} | {len(self.atoms)} atoms, {len(self.effects)} effects)"


class LoopRecord:
    def __init__(self, lid: int, node: ast.For, iter_value: Any, entry_env: Dict[str, Any], fn_qual: str):
        self.lid = lid
        self.node = node
        self.iter_value = iter_value
        self.entry_env = entry_env
        self.fn_qual = fn_qual
        self.carried: List[str] = []


class Path:
    def __init__(self, prefix: List[int]):
        self.prefix = list(prefix)
        self.pos = 0
        self.taken: List[int] = []
        self.arity: List[int] = []
        self.atoms: List[Tuple[Any, Any]] = []
        self.memo: Dict[Any, Any] = {}

    def choose(self, atom: Any, n: int, label: Any = None) -> int:
        """n-way choice; memoised per atom."""
        if atom in self.memo:
            return self.memo[atom]
        if getattr(self, "frozen", False):
            raise NeedsDecision(atom)
        cap = getattr(self, "capture", None)
        if cap is not None:
            # describe the condition without forking: the first alternative is assumed, nothing is recorded
            cap.append((atom, None if label is None else label[0]))
            return 0
        if self.pos < len(self.prefix):
            c = self.prefix[self.pos]
        else:
            c = 0
        self.pos += 1
        self.taken.append(c)
        self.arity.append(n)
        self.memo[atom] = c
        self.atoms.append((atom, c if label is None else label[c]))
        return c


class Config:
    def __init__(self) -> None:
        # (class name, method) or function qualnames that are not inlined: an OP fragment / SOpaque is produced
        self.opaque: set = set()
        self.max_depth = 12
        self.interpret_ctor: set = {"HTML"}       # constructors whose __init__ is interpreted
        self.stop_at_loop: Optional[Tuple[str, int]] = None   # (function qualname, index of for-loop in that function)
        self.carried_override: Dict[str, Any] = {}
        self.str_param_names: set = set()
        self.treat_escape_primitive = True
        self.loop_effects = True      # run loop bodies once generically to record their effects
        self.coarse_counts = False    # len(x) comparisons are plain two-way decisions (effect analyses)
        self.opaque_all = False       # modular mode: every module-level function / method call is opaque
        self.inline: set = set()      # exceptions to opaque_all
        self.return_origin: Dict[str, Any] = {}   # qualname -> ownership of an opaque call's result


class Run:
    """One execution along one decision sequence."""

    def __init__(self, interp: "Interp", path: Path, cfg: Config):
        self.I = interp
        self.prog = interp.prog
        self.U = interp.U
        self.path = path
        self.cfg = cfg
        self.effects: List[Effect] = []
        self.depth = 0
        self.loops: List[LoopRecord] = []
        self.loop_counter: Dict[str, int] = {}
        self.elem_memo: Dict[Any, Any] = {}
        self.count_dom: Dict[Any, set] = {}
        self.globals_state: Dict[str, Any] = {}
        self.call_stack: List[str] = []
        self.fresh_counter = 0
        self.atom_info: Dict[Any, Any] = {}

    # ------------------------------------------------------------------ decisions
    def decide(self, atom: Any) -> bool:
        return self.path.choose(atom, 2, (True, False)) == 0

    def truth(self, v: Any, node: Optional[ast.AST] = None) -> bool:
        """Python truthiness of an abstract value, forking when undetermined."""
        if isinstance(v, SBool):
            return self.decide(v.atom)
        if isinstance(v, Sym):
            if isinstance(v, SStr):
                if v.is_const():
                    return bool(v.const())
                if any(f.kind == "LIT" and f.a for f in v.frags):
                    return True
                return self.decide(("nonempty", v.key()))
            if isinstance(v, SObj) and v.kinds <= frozenset({"LIST", "TUPLE", "TAGLIST", "SET"}) and v.known is _NOVAL:
                coll, kinds = self.ev.as_collection(v, node)
                if coll is not None:
                    return not self.ev.cmp_count(coll, frozenset(kinds), "==", 0)
            if isinstance(v, SObj) and v.meta.get("truth_unknown") and v.known is _NOVAL:
                # an object of a class this analysis does not see (a callable with __bool__/__len__): either truth value
                return self.decide(("truthy", v.uid))
            if isinstance(v, SObj):
                ks = set(v.kinds)
                t = {k for k in ks if k in ("TRUE", "TAG", "META", "HTMLDEP", "JSXTAG", "REPR_ONLY", "TAGIFIABLE_ONLY",
                                            "TAGIFIABLE_REPR", "ELLIPSIS", "OTHER", "CALLABLE", "HTMLDOC", "VERSION")}
                f = {k for k in ks if k in ("NONE", "FALSE")}
                u = ks - t - f
                if v.known is not _NOVAL:
                    return bool(v.known)
                if not u and not f:
                    return True
                if not u and not t:
                    return False
                # split into falsy-singletons / rest
                if f and (t or u):
                    c = self.path.choose(("truthy-kind", v.uid), 3 if u else 2,
                                         ("falsy-singleton", "truthy-kind", "value-dependent") if u else ("falsy-singleton", "truthy-kind"))
                    if c == 0:
                        self.restrict(v, f)
                        return False
                    if c == 1:
                        if not t:
                            # only value-dependent kinds left
                            self.restrict(v, u)
                            return self.decide(("truthy", v.uid))
                        self.restrict(v, t if not u else (t | u))
                        if u:
                            if v.kinds <= frozenset(t):
                                return True
                            return self.decide(("truthy", v.uid))
                        return True
                    self.restrict(v, u)
                    return self.decide(("truthy", v.uid))
                return self.decide(("truthy", v.uid))
            if isinstance(v, SList) and v.mode == "view":
                return not self.ev.cmp_count(v.base, v.kinds, "==", 0)
            if isinstance(v, SList):
                if v.mode == "concrete":
                    if any(not isinstance(i, SSplat) for i in v.items):
                        return True
                    if not v.items:
                        return False
                return self.decide(("nonempty", v.uid))
            if isinstance(v, SDict):
                if v.concrete and not v.dstar:
                    return bool(v.items)
                return self.decide(("nonempty", v.uid))
            if isinstance(v, SBound) and isinstance(v.recv, SObj) and not v.recv.kinds <= _BUILTIN_VALUE_KINDS:
                # an attribute of an object of unknown class need not be a method
                return self.decide(("truthy", ("attr", v.recv.uid, v.name)))
            if isinstance(v, (SNew, SFunc, SClass, SExtern, SBound)):
                if isinstance(v, SNew) and v.cls_name in ("HTML", "TagList", "TagAttrDict", "JSXTagAttrDict"):
                    return self.decide(("nonempty", v.uid))
                return True
            if isinstance(v, SInt):
                return self.decide(("nonzero", repr(v)))
            if isinstance(v, SOpaque):
                return self.decide(("truthy", v.uid))
            if isinstance(v, SUnknown):
                raise Unmodelled(f"truth value of {v!r}" + (f" at {norm(node)}" if node else ""))
            return self.decide(("truthy", repr(v)))
        return bool(v)

    def restrict(self, o: SObj, kinds: Any) -> None:
        ks = o.kinds & frozenset(kinds)
        if not ks:
            raise Infeasible()
        o.kinds = ks

    def fresh(self, name: str, kinds: Any, origin: str = "input") -> SObj:
        return SObj(name, kinds, origin)

    # ------------------------------------------------------------------ effects
    def effect(self, kind: str, target: Any = None, key: Any = None, value: Any = None, node: Optional[ast.AST] = None,
               extra: Any = None) -> None:
        self.effects.append(Effect(kind, target, key, value, node, extra))


_BUILTIN_VALUE_KINDS = frozenset({"STR", "LIST", "TUPLE", "DICT", "SET", "INT", "FLOAT", "BYTES", "NONE", "TRUE", "FALSE", "RANGE", "SLICE"})


class Interp:
    def __init__(self, prog: Program):
        self.prog = prog
        self.U = Universe(prog)
        from .eval_expr import Evaluator  # late import: split across files for size

        self.Evaluator = Evaluator

    # ------------------------------------------------------------------ driver
    def explore(self, body: Callable[[Run], Tuple[Any, ...]], cfg: Optional[Config] = None,
                max_paths: int = 4000) -> List[Leaf]:
        cfg = cfg or Config()
        leaves: List[Leaf] = []
        stack: List[List[int]] = [[]]
        n = 0
        while stack:
            prefix = stack.pop()
            n += 1
            if n > max_paths:
                raise Unmodelled(f"path explosion (> {max_paths} paths)")
            path = Path(prefix)
            run = Run(self, path, cfg)
            ev = self.Evaluator(run)
            run.ev = ev  # type: ignore[attr-defined]
            try:
                outcome = body(run)
            except Infeasible:
                outcome = None
            # schedule alternatives for decisions made beyond the prefix
            for i in range(len(prefix), len(path.taken)):
                for alt in range(1, path.arity[i]):
                    if path.taken[i] == 0:
                        stack.append(path.taken[:i] + [alt])
            if outcome is not None:
                leaves.append(Leaf(path.atoms, outcome, run.effects, getattr(run, "final_env", {}), run))
        return leaves

    def run_function(self, modname: str, qual: str, make_args: Callable[[Run], Tuple[Dict[str, Any], Any]],
                     cfg: Optional[Config] = None) -> List[Leaf]:
        """Explore all paths of a function.  make_args(run) -> (bindings by parameter name, self object or None)."""
        mod = self.prog.module(modname)
        fn = self.prog.function(modname, qual)
        cls = None
        if "." in qual and qual.split(".")[0] in mod.classes:
            cls = mod.classes[qual.split(".")[0]]

        def body(run: Run) -> Tuple[Any, ...]:
            binds, self_obj = make_args(run)
            f = SFunc(mod, fn, self_obj, cls, None, qual)
            try:
                v = run.ev.call_function(f, [], {}, binds=binds, top=True)
                return ("return", v)
            except _Raise as r:
                return ("raise", r.exc)
            except _StopAtLoop as s:
                return s.outcome

        return self.explore(body, cfg)
