"""Engine A, part 2: expression evaluation over abstract values."""

from __future__ import annotations

import ast
from typing import Any, Dict, FrozenSet, List, Optional, Tuple

from .frontend import AnalysisError, ClassInfo, Module, NotConst, norm
from .values import (ALL_KINDS, ANY_VALUE_KINDS, KINDS, META_KINDS, NODE_KINDS, Frag, SBool, SBound, SClass, SDict,
                     SExtern, SFunc, SInt, SList, SNew, SObj, SOpaque, SSplat, SStr, SSuper, SUnknown, Sym, TypeRef,
                     Unmodelled, _ABCS, _BUILTIN_TYPES, _NOVAL, kinds_of_pyvalue, lit, short)

_PY_BUILTINS = {"isinstance", "len", "str", "int", "float", "bool", "list", "tuple", "dict", "set", "frozenset",
                "enumerate", "reversed", "range", "zip", "sorted", "any", "all", "type", "getattr", "hasattr",
                "repr", "print", "id", "hash", "min", "max", "sum", "iter", "next", "callable", "super", "open",
                "map", "filter", "abs", "format", "object", "bytes", "NotImplemented", "issubclass"}
_EXC_NAMES = {"TypeError", "ValueError", "RuntimeError", "KeyError", "IndexError", "Exception", "NotImplementedError",
              "ImportError", "AttributeError", "StopIteration", "OSError", "FileNotFoundError", "AssertionError", "BaseException",
              "GeneratorExit", "KeyboardInterrupt", "SystemExit", "LookupError", "ArithmeticError"}


class Frame:
    def __init__(self, func: SFunc, env: Dict[str, Any]):
        self.func = func
        self.env = env
        self.mod: Module = func.mod
        self.cls: Optional[ClassInfo] = func.cls
        self.acc_names: set = set()


from .eval_call import CallMixin      # noqa: E402
from .eval_stmt import StmtMixin      # noqa: E402


_NOCONST = object()


class Evaluator(CallMixin, StmtMixin):
    def __init__(self, run: Any):
        self.run = run
        self.prog = run.prog
        self.U = run.U
        self.frames: List[Frame] = []
        self.yield_handlers: List[Any] = []

    # ------------------------------------------------------------------ helpers
    @property
    def frame(self) -> Frame:
        return self.frames[-1]

    def unmodelled(self, what: str, node: Optional[ast.AST] = None) -> Unmodelled:
        where = self.frame.func.qual if self.frames else "?"
        return Unmodelled(f"{where}: {what}" + (f" in `{norm(node)}`" if node is not None else ""))

    # ------------------------------------------------------------------ names
    def lookup(self, name: str, node: Optional[ast.AST] = None) -> Any:
        fr = self.frame
        if name in fr.env:
            return fr.env[name]
        clo = fr.func.closure
        while clo is not None:
            if name in clo.env:
                return clo.env[name]
            clo = clo.func.closure
        return self.lookup_global(fr.mod, name, node)

    def lookup_global(self, mod: Module, name: str, node: Optional[ast.AST] = None) -> Any:
        k, v = self.prog.resolve(mod, name)
        if k == "func":
            m2, fn = v
            return SFunc(m2, fn, None, None, None, fn.name)
        if k == "class":
            return SClass(v)
        if k == "const":
            m2, e2 = v
            if m2.name == "htmltools" and name == "html_dependency_render_mode":
                return self.global_cell("htmltools.html_dependency_render_mode", ("STR",))
            sites = self.prog.global_mutation_sites(m2.name, name) if m2.name.startswith("htmltools") else []
            if sites:
                # module-level *state*, not a constant: its content depends on what ran before
                try:
                    init = self.prog.fold(e2, m2)
                    kinds = {kinds_of_pyvalue(init)}
                except NotConst:
                    kinds = ALL_KINDS
                o = self.global_cell(f"{m2.name}.{name}", kinds)
                o.meta["mutable_global"] = sites
                self.run.effect("global_read", f"{m2.name}.{name}", None, sites, node)
                return o
            try:
                return self.prog.fold(e2, m2)
            except NotConst:
                pass
            return self.eval_module_expr(m2, e2, name)
        if k == "var":
            m2, nm = v
            return self.global_cell(f"{m2.name}.{nm}", ALL_KINDS)
        if k in ("module",):
            return SExtern("<repo>" + v, None)
        if k == "extern_module":
            return SExtern(v, None)
        if k == "extern":
            src, orig = v
            return SExtern(src, orig)
        if name in _BUILTIN_TYPES:
            return TypeRef(py=_BUILTIN_TYPES[name])
        if name in _PY_BUILTINS or name in _EXC_NAMES:
            return SExtern("builtins", name)
        if name == "Ellipsis":
            return Ellipsis
        raise self.unmodelled(f"unresolved name `{name}`", node)

    def eval_module_expr(self, mod: Module, e: ast.expr, name: str) -> Any:
        """Value of a module-level initialiser that is not a literal (re.compile(...), TypeVar(...), ...)."""
        cache = self.run.__dict__.setdefault("module_values", {})
        key = (mod.name, name)
        if key in cache:
            return cache[key]
        mark = len(self.run.effects)
        f = SFunc(mod, ast.Module(body=[], type_ignores=[]), None, None, None, f"<module {mod.name}>")
        self.frames.append(Frame(f, {}))
        try:
            try:
                v = self.eval(e)
            except Unmodelled:
                v = SUnknown(f"module-level value {mod.name}.{name}")
        finally:
            self.frames.pop()
            del self.run.effects[mark:]
        cache[key] = v
        return v

    def global_cell(self, qual: str, kinds: Any) -> Any:
        st = self.run.globals_state
        if qual not in st:
            o = SObj(qual, kinds, origin="global")
            st[qual] = o
        return st[qual]

    # ------------------------------------------------------------------ coercions
    def as_sstr(self, v: Any, node: Optional[ast.AST] = None) -> Optional[SStr]:
        """A string-typed abstract value as fragments (no str() conversion semantics)."""
        if isinstance(v, SStr):
            return v
        if isinstance(v, str):
            return lit(v)
        if isinstance(v, SObj) and v.kinds <= frozenset({"STR", "JSXEXPR"}):
            if v.known is not _NOVAL and isinstance(v.known, str):
                return lit(v.known)
            return SStr([Frag("OF", (v.uid, v.name), v.meta.get("origin", "PLAIN"), ())])
        if isinstance(v, SOpaque) and v.kinds is not None and v.kinds <= frozenset({"STR"}):
            return SStr([Frag("OP", v.descr, None, ())])
        return None

    def is_strlike(self, v: Any) -> bool:
        return self.as_sstr(v) is not None

    def py_str(self, v: Any, node: Optional[ast.AST] = None) -> Any:
        """str(v) as an abstract string."""
        r = self._py_str(v, node)
        if isinstance(r, str):
            return lit(r)
        if isinstance(r, SStr):
            return r
        s = self.as_sstr(r)
        if s is not None:
            return s
        return SStr([Frag("OP", ("str-of", short(r)), {"value": r}, ())])

    def _py_str(self, v: Any, node: Optional[ast.AST] = None) -> Any:
        s = self.as_sstr(v)
        if s is not None:
            return s
        if isinstance(v, (int, float, bool)) or v is None:
            return lit(str(v))
        if isinstance(v, SInt):
            return SStr([Frag("OF", (0, repr(v)), "NUM", ())])
        if isinstance(v, SNew):
            ci = v.cls
            if isinstance(ci, ClassInfo):
                m = self.prog.find_method(ci, "__str__")
                if m is not None and m[0].module.name.startswith("htmltools"):
                    return self.call_method_def(v, m[0], m[1], [], {}, node)
                if ci.name == "HTML":
                    return self.get_attr(v, "data", node)
            return SStr([Frag("OP", ("str", v.cls_name), v, ())])
        if isinstance(v, SObj):
            if len(v.kinds) > 1 and self.run.__dict__.get("in_raise"):
                return SStr([Frag("OP", ("str-of", short(v)), {"value": v}, ())])
            if len(v.kinds) > 1:
                self.split_kinds(v, node)
            (k,) = tuple(v.kinds) if len(v.kinds) == 1 else (None,)
            if k is None:
                raise self.unmodelled("str() of multi-kind object", node)
            if k in ("STR", "JSXEXPR"):
                return self.as_sstr(v)
            if k in ("INT", "FLOAT"):
                return SStr([Frag("OF", (v.uid, v.name), "NUM", ())])
            if k in ("NONE", "TRUE", "FALSE"):
                return lit(str(KINDS[k].singleton))
            ci = self.U.repo_class(k)
            if ci is not None:
                m = self.prog.find_method(ci, "__str__")
                if m is not None and m[0].module.name.startswith("htmltools"):
                    key = (m[0].name, "__str__")
                    if key in self.run.cfg.opaque:
                        return SStr([Frag("OP", ("str", m[0].name), (v.uid, v.name), ())])
                    return self.call_method_def(v, m[0], m[1], [], {}, node)
            return SStr([Frag("OF", (v.uid, v.name), "STR()", ())])
        if isinstance(v, SOpaque):
            return SStr([Frag("OP", ("str",) + tuple([repr(v.descr)]), None, ())])
        if isinstance(v, SUnknown):
            raise self.unmodelled(f"str() of {v!r}", node)
        return SStr([Frag("OP", ("str", repr(v)), None, ())])

    def split_kinds(self, v: SObj, node: Optional[ast.AST] = None, groups: Optional[List[FrozenSet[str]]] = None) -> None:
        """Fork so that v has exactly one kind (or one of the given groups)."""
        if groups is None:
            ks = sorted(v.kinds)
            if len(ks) <= 1:
                return
            c = self.run.path.choose(("kind", v.uid, tuple(ks)), len(ks), tuple(ks))
            v.kinds = frozenset({ks[c]})
            return
        gs = [g & v.kinds for g in groups]
        gs = [g for g in gs if g]
        if len(gs) <= 1:
            if gs:
                v.kinds = gs[0]
            return
        c = self.run.path.choose(("kindgroup", v.uid, tuple(tuple(sorted(g)) for g in gs)), len(gs),
                                 tuple("|".join(sorted(g)) for g in gs))
        v.kinds = gs[c]

    # ------------------------------------------------------------------ expressions
    def eval(self, e: ast.expr) -> Any:
        m = getattr(self, "e_" + type(e).__name__, None)
        if m is None:
            raise self.unmodelled(f"expression form {type(e).__name__}", e)
        return m(e)

    def e_Constant(self, e: ast.Constant) -> Any:
        return e.value

    # ---- generators: `yield v` hands v to whoever is consuming the generator right now -------------------
    def _deliver(self, v: Any, node: ast.AST) -> None:
        if not self.yield_handlers:
            raise self.unmodelled("yield outside a modelled consumer", node)
        h = self.yield_handlers.pop()
        try:
            h(v)
        finally:
            self.yield_handlers.append(h)

    def e_Yield(self, e: ast.Yield) -> Any:
        self._deliver(self.eval(e.value) if e.value is not None else None, e)
        return None

    def e_YieldFrom(self, e: ast.YieldFrom) -> Any:
        from .values import SGen
        x = self.eval(e.value)
        if isinstance(x, SGen):
            if not self.yield_handlers:
                raise self.unmodelled("yield from outside a modelled consumer", e)
            self.run_generator(x, self.yield_handlers[-1], e)
            return None
        items = self.concrete_items(x)
        if items is None:
            # `yield from X` is `for v in X: yield v`
            node = getattr(e, "_sa_loop", None)
            if node is None:
                node = ast.For(ast.Name("__yf_item", ast.Store()), ast.Name("__yf_iter", ast.Load()),
                               [ast.Expr(ast.Yield(ast.Name("__yf_item", ast.Load())))], [], None)
                ast.copy_location(node, e)
                ast.fix_missing_locations(node)
                e._sa_loop = node       # type: ignore[attr-defined]
            self.frame.env["__yf_iter"] = x
            self.exec(node)
            return None
        for i in items:
            self._deliver(i, e)
        return None

    def e_Name(self, e: ast.Name) -> Any:
        return self.lookup(e.id, e)

    def e_JoinedStr(self, e: ast.JoinedStr) -> Any:
        out: List[Frag] = []
        for part in e.values:
            if isinstance(part, ast.Constant):
                out.append(Frag("LIT", str(part.value)))
            elif isinstance(part, ast.FormattedValue):
                v = self.eval(part.value)
                if part.format_spec is not None:
                    raise self.unmodelled("format spec in f-string", e)
                if part.conversion == 114:  # !r
                    s = SStr([Frag("OP", ("repr", short(v)), None, ())])
                else:
                    s = self.py_str(v, e)
                out.extend(s.frags)
            else:
                raise self.unmodelled("f-string part", e)
        r = SStr(out)
        return r.const() if r.is_const() else r

    def e_Tuple(self, e: ast.Tuple) -> Any:
        items = self.eval_elts(e.elts)
        if all(not isinstance(i, Sym) for i in items):
            return tuple(items)
        l = SList("concrete", items)
        l.pytype = "tuple"
        return l

    def e_List(self, e: ast.List) -> Any:
        return SList("concrete", self.eval_elts(e.elts))

    def e_Set(self, e: ast.Set) -> Any:
        items = self.eval_elts(e.elts)
        l = SList("concrete", items)
        l.pytype = "set"
        return l

    def eval_elts(self, elts: List[ast.expr]) -> List[Any]:
        out: List[Any] = []
        for x in elts:
            if isinstance(x, ast.Starred):
                v = self.eval(x.value)
                out.extend(self.splat(v, x))
            else:
                out.append(self.eval(x))
        return out

    def splat(self, v: Any, node: Optional[ast.AST] = None) -> List[Any]:
        if isinstance(v, (tuple, list)):
            return list(v)
        if isinstance(v, SList) and v.mode == "concrete":
            return list(v.items)
        return [SSplat(v)]

    def e_Dict(self, e: ast.Dict) -> Any:
        d = SDict()
        for k, v in zip(e.keys, e.values):
            if k is None:
                sub = self.eval(v)
                if isinstance(sub, dict):
                    d.items.update(sub)
                elif isinstance(sub, SDict) and sub.concrete:
                    d.items.update(sub.items)
                    d.dstar.extend(sub.dstar)
                else:
                    d.dstar.append(sub)
            else:
                kk = self.eval(k)
                if isinstance(kk, SStr) and kk.is_const():
                    kk = kk.const()
                d.items[kk if not isinstance(kk, Sym) else _K(kk)] = self.eval(v)
        return d

    def e_IfExp(self, e: ast.IfExp) -> Any:
        if self.run.truth(self.eval(e.test), e.test):
            return self.eval(e.body)
        return self.eval(e.orelse)

    def e_BoolOp(self, e: ast.BoolOp) -> Any:
        if isinstance(e.op, ast.And):
            v: Any = True
            for x in e.values:
                v = self.eval(x)
                if not self.run.truth(v, x):
                    return v if not isinstance(v, SBool) else False
            return v if not isinstance(v, SBool) else True
        v = False
        for x in e.values:
            v = self.eval(x)
            if self.run.truth(v, x):
                return v if not isinstance(v, SBool) else True
        return v if not isinstance(v, SBool) else False

    def e_UnaryOp(self, e: ast.UnaryOp) -> Any:
        v = self.eval(e.operand)
        if isinstance(e.op, ast.Not):
            return not self.run.truth(v, e.operand)
        if isinstance(e.op, ast.USub):
            if isinstance(v, (int, float)):
                return -v
        raise self.unmodelled("unary operator", e)

    def e_Lambda(self, e: ast.Lambda) -> Any:
        return SFunc(self.frame.mod, e, None, None, self.frame, "<lambda>")

    def e_Starred(self, e: ast.Starred) -> Any:
        raise self.unmodelled("bare starred", e)

    def e_NamedExpr(self, e: ast.NamedExpr) -> Any:
        v = self.eval(e.value)
        self.frame.env[e.target.id] = v
        return v

    # ---- attribute -----------------------------------------------------------------
    def e_Attribute(self, e: ast.Attribute) -> Any:
        base = self.eval(e.value)
        return self.get_attr(base, e.attr, e)

    def attr_kinds_from_annotation(self, ci: ClassInfo, attr: str) -> Optional[FrozenSet[str]]:
        for c in self.prog.mro(ci):
            if isinstance(c, ClassInfo) and attr in c.annotations:
                return self.kinds_from_annotation(c.annotations[attr], c.module)
        for c in self.prog.mro(ci):
            if not isinstance(c, ClassInfo):
                continue
            for fn in c.methods.values():
                for n in ast.walk(fn):
                    if isinstance(n, ast.AnnAssign) and isinstance(n.target, ast.Attribute) and n.target.attr == attr \
                            and isinstance(n.target.value, ast.Name) and n.target.value.id == "self":
                        ks = self.kinds_from_annotation(n.annotation, c.module)
                        if ks is not None:
                            return ks
        ann = self._param_annotation_for_attr(ci, attr)
        if ann is not None:
            ks = self.kinds_from_annotation(ann[0], ann[1])
            if ks is not None and ann[2]:
                ks = ks - {"NONE"} if len(ks) > 1 else ks     # `if p is None: p = []` style defaulting before the store
            return ks
        return None

    def _param_annotation_for_attr(self, ci: ClassInfo, attr: str) -> Optional[Tuple[ast.expr, Module, bool]]:
        """`self.attr = p` in __init__ with `p: T` -> (T, module, p is re-defaulted when None)."""
        for c in self.prog.mro(ci):
            if not isinstance(c, ClassInfo) or "__init__" not in c.methods:
                continue
            fn = c.methods["__init__"]
            anns = {a.arg: a.annotation for a in fn.args.args + fn.args.kwonlyargs if a.annotation is not None}
            stores = [n for n in ast.walk(fn) if isinstance(n, ast.Assign) and len(n.targets) == 1 and isinstance(n.targets[0], ast.Attribute)
                      and n.targets[0].attr == attr and isinstance(n.targets[0].value, ast.Name) and n.targets[0].value.id == fn.args.args[0].arg]
            if len(stores) == 1 and isinstance(stores[0].value, ast.Name) and stores[0].value.id in anns:
                p = stores[0].value.id
                redef = any(isinstance(n, ast.Assign) and any(isinstance(t, ast.Name) and t.id == p for t in n.targets) for n in ast.walk(fn))
                return (anns[p], c.module, redef)
            if len(stores) == 1 and isinstance(stores[0].value, ast.IfExp):
                # self.x = <default> if p is None else p
                v = stores[0].value
                names = {n.id for n in ast.walk(v) if isinstance(n, ast.Name) and n.id in anns}
                branches = [b for b in (v.body, v.orelse) if isinstance(b, ast.Name) and b.id in anns]
                if len(names) == 1 and len(branches) == 1:
                    return (anns[branches[0].id], c.module, True)
            return None
        return None

    def elem_kinds_from_annotation(self, ci: ClassInfo, attr: str) -> Optional[FrozenSet[str]]:
        """`x: list[T]` / `Optional[list[T]]` -> kinds of T."""
        pa = self._param_annotation_for_attr(ci, attr)
        for c in self.prog.mro(ci):
            own = None
            if isinstance(c, ClassInfo) and attr not in c.annotations:
                for fn in c.methods.values():
                    for n in ast.walk(fn):
                        if isinstance(n, ast.AnnAssign) and isinstance(n.target, ast.Attribute) and n.target.attr == attr \
                                and isinstance(n.target.value, ast.Name) and n.target.value.id == "self":
                            own = n.annotation       # self.x: list[T] = ...
            if (isinstance(c, ClassInfo) and attr in c.annotations) or own is not None or (pa is not None and c is ci):
                ann = c.annotations[attr] if isinstance(c, ClassInfo) and attr in c.annotations else own if own is not None else pa[0]  # type: ignore[index]
                if isinstance(ann, ast.Constant) and isinstance(ann.value, str):
                    try:
                        ann = ast.parse(ann.value, mode="eval").body
                    except SyntaxError:
                        return None
                if isinstance(ann, ast.Subscript) and ast.unparse(ann.value).split(".")[-1] == "Optional":
                    ann = ann.slice
                if isinstance(ann, ast.Subscript) and ast.unparse(ann.value).split(".")[-1] in ("list", "List") \
                        and not isinstance(ann.slice, ast.Tuple):
                    return self.kinds_from_annotation(ann.slice, c.module)
                return None
        return None

    def kinds_from_annotation(self, ann: ast.expr, mod: Module) -> Optional[FrozenSet[str]]:
        if isinstance(ann, ast.Constant) and isinstance(ann.value, str):
            try:
                ann = ast.parse(ann.value, mode="eval").body
            except SyntaxError:
                return None
        if isinstance(ann, ast.BinOp) and isinstance(ann.op, ast.BitOr):
            l = self.kinds_from_annotation(ann.left, mod)
            r = self.kinds_from_annotation(ann.right, mod)
            if l is None or r is None:
                return None
            return l | r
        if isinstance(ann, ast.Constant) and ann.value is None:
            return frozenset({"NONE"})
        if isinstance(ann, ast.Subscript):
            head = ast.unparse(ann.value).split(".")[-1]
            if head == "Optional":
                inner = self.kinds_from_annotation(ann.slice, mod)
                return None if inner is None else inner | {"NONE"}
            if head == "Union":
                elts = ann.slice.elts if isinstance(ann.slice, ast.Tuple) else [ann.slice]
                out: FrozenSet[str] = frozenset()
                for x in elts:
                    k = self.kinds_from_annotation(x, mod)
                    if k is None:
                        return None
                    out |= k
                return out
            if head in ("list", "List"):
                return frozenset({"LIST"})
            if head in ("dict", "Dict"):
                return frozenset({"DICT"})
            if head in ("Callable",):
                return frozenset({"CALLABLE"})
            return None
        if isinstance(ann, ast.Name):
            n = ann.id
            simple = {"str": {"STR", "JSXEXPR"}, "bool": {"TRUE", "FALSE"}, "int": {"INT", "TRUE", "FALSE"},
                      "float": {"FLOAT", "INT", "TRUE", "FALSE"}, "None": {"NONE"}, "Version": {"VERSION"},
                      "object": None, "Any": None}
            if n in simple:
                return frozenset(simple[n]) if simple[n] is not None else None
            ci = self.prog.get_class(n, mod)
            if ci is not None:
                k = self.U.kind_of_class(ci)
                if k is not None:
                    return frozenset({k})
                if self.prog.is_subclass(ci, "TypedDict"):
                    return frozenset({"DICT"})
                if ci.is_protocol() and ci.is_runtime_checkable():
                    return frozenset(kk for kk in ALL_KINDS if self.U.kind_isinstance(kk, TypeRef(repo=ci)))
                if ci.name == "MetadataNode":
                    return frozenset({"META", "HTMLDEP"})
                return None
            # a module-level type alias such as TagNode = Union[...]
            depth = getattr(self, "_alias_depth", 0)
            if depth < 4:
                kk, vv = self.prog.resolve(mod, n)
                if kk == "const":
                    m2, e2 = vv
                    if isinstance(e2, (ast.Subscript, ast.BinOp)) :
                        self._alias_depth = depth + 1
                        try:
                            return self.kinds_from_annotation(e2, m2)
                        finally:
                            self._alias_depth = depth
            return None
        return None

    def get_attr(self, base: Any, attr: str, node: Optional[ast.AST] = None) -> Any:
        if isinstance(base, SSuper):
            return self.super_attr(base, attr, node)
        if isinstance(base, SExtern):
            return self.extern_attr(base, attr, node)
        if isinstance(base, SClass):
            ci = base.ci
            m = self.prog.find_method(ci, attr)
            if m is not None:
                decos = [ast.unparse(d) for d in m[1].decorator_list]
                return SFunc(m[0].module, m[1], None, m[0], None, f"{m[0].name}.{attr}") if True else None
            if attr == "__name__":
                return ci.name
            if attr == "__new__":
                return SBound(base, "__new__")
            cv = self.class_const(ci, attr, node)
            if cv is not _NOCONST:
                return cv
            raise self.unmodelled(f"class attribute {ci.name}.{attr}", node)
        if isinstance(base, (SObj, SNew, SOpaque)):
            return self.obj_attr(base, attr, node)
        if isinstance(base, (SStr, str, SList, SDict, list, tuple, dict, set, frozenset, SInt, int, float)):
            return SBound(base, attr)
        if isinstance(base, SBound) and isinstance(base.recv, (SObj, SOpaque, SNew)):
            # `x.a.b` where `x.a` could not be resolved to a method: treat `x.a` as an unknown data attribute
            memo = self.run.elem_memo
            mk = ("unkattr", getattr(base.recv, "uid", 0), base.name)
            if mk not in memo:
                o = SObj(f"{_nm(base.recv)}.{base.name}", ALL_KINDS, origin=_origin(base.recv))
                o.meta["attr_of"] = (base.recv, base.name)
                memo[mk] = o
            return self.get_attr(memo[mk], attr, node)
        if isinstance(base, SFunc):
            if attr == "__name__":
                return base.qual.split(".")[-1]
            return SBound(base, attr)
        if isinstance(base, TypeRef):
            return SBound(base, attr)
        if isinstance(base, SUnknown):
            raise self.unmodelled(f"attribute `{attr}` of {base!r}", node)
        raise self.unmodelled(f"attribute `{attr}` of {type(base).__name__}", node)

    def class_const(self, ci: Any, attr: str, node: Optional[ast.AST]) -> Any:
        """A class-level constant `NAME = <immutable value or compiled pattern>` read through the class or an instance; _NOCONST
        when `attr` is no such thing (assigned on instances anywhere, mutable, or not a constant at all)."""
        for c in self.prog.mro(ci):
            if not isinstance(c, ClassInfo) or attr not in c.class_consts:
                continue
            if attr in c.methods:
                return _NOCONST
            # never rebound through an instance or the class anywhere in the package
            stored = self.prog.__dict__.get("_stored_attr_names")
            if stored is None:
                stored = {n.attr for m in self.prog.modules.values() if m.name.startswith("htmltools") for n in ast.walk(m.tree)
                          if isinstance(n, ast.Attribute) and isinstance(n.ctx, (ast.Store, ast.Del))}
                self.prog.__dict__["_stored_attr_names"] = stored
            if attr in stored:
                return _NOCONST
            e = c.class_consts[attr]
            try:
                v = self.prog.fold(e, c.module)
            except NotConst:
                v = self.eval_module_expr(c.module, e, f"{c.name}.{attr}")
                ec = v.__dict__.get("extcall") if isinstance(v, SOpaque) else None
                return v if ec is not None and ec.get("q") == "re.compile" else _NOCONST

            def immutable(x: Any) -> bool:
                return x is None or isinstance(x, (str, int, float, bool, bytes)) or (isinstance(x, (tuple, frozenset)) and all(immutable(y) for y in x))
            return v if immutable(v) else _NOCONST
        return _NOCONST

    def obj_attr(self, o: Any, attr: str, node: Optional[ast.AST] = None) -> Any:
        if attr in o.attrs:
            return o.attrs[attr]
        if isinstance(o, (SObj, SNew)) and not attr.startswith("__"):
            from .eval_call import _MISSING
            val = self.copied_attr(o, attr, node)
            if val is not _MISSING:
                return val
        if attr == "__class__":
            if isinstance(o, SNew) and isinstance(o.cls, ClassInfo):
                return SClass(o.cls)
            if isinstance(o, SObj) and len(o.kinds) == 1:
                ci = self.U.repo_class(next(iter(o.kinds)))
                if ci is not None:
                    return SClass(ci)
            raise self.unmodelled("__class__ of object with undetermined class", node)
        if attr == "__dict__":
            d = SDict(name=f"{_nm(o)}.__dict__", concrete=False)
            d.origin = _origin(o) if not isinstance(o, SNew) else "new"
            d.__dict__["fields_of"] = o
            o.attrs["__dict__"] = d
            return d
        # class of the object
        cis: List[Optional[ClassInfo]] = []
        if isinstance(o, SNew):
            cis = [o.cls if isinstance(o.cls, ClassInfo) else None]
        elif isinstance(o, SObj):
            # methods: fork on kind when different kinds resolve differently
            res = {}
            for k in o.kinds:
                ci = self.U.repo_class(k)
                res[k] = ci
            targets = {}
            for k, ci in res.items():
                m = self.prog.find_method(ci, attr) if ci is not None else None
                targets[k] = (id(m[1]) if m else None)
                if m is None and ci is not None and (self.attr_kinds_from_annotation(ci, attr) is not None or self.class_assigns_attr(ci, attr)):
                    targets[k] = ("data", ci.name)     # a field of this class: not a method of unknown code
            if len(set(targets.values())) > 1:
                groups: Dict[Any, set] = {}
                for k, t in targets.items():
                    groups.setdefault(t, set()).add(k)
                self.split_kinds(o, node, [frozenset(g) for g in groups.values()])
            cis = [self.U.repo_class(k) for k in o.kinds]
        ci0 = cis[0] if cis and all(c is cis[0] for c in cis) else None
        same_method = None
        if cis and all(c is not None for c in cis):
            ms = [self.prog.find_method(c, attr) for c in cis]  # type: ignore[arg-type]
            if all(m is not None for m in ms) and len({id(m[1]) for m in ms}) == 1:  # type: ignore[index]
                same_method = ms[0]
        if same_method is not None:
            dc, fn = same_method
            decos = [ast.unparse(d).split(".")[-1] for d in fn.decorator_list]
            if "staticmethod" in decos:
                return SFunc(dc.module, fn, None, dc, None, f"{dc.name}.{attr}")
            if "property" in decos:
                return self.call_function(SFunc(dc.module, fn, o, dc, None, f"{dc.name}.{attr}"), [], {}, node=node)
            if "cached_property" in decos:
                # functools.cached_property: the first access computes the value and stores it in the instance dictionary
                val = self.call_function(SFunc(dc.module, fn, o, dc, None, f"{dc.name}.{attr}"), [], {}, node=node)
                self.run.effect("store_attr", o, attr, val, node)
                o.attrs[attr] = val
                return val
            return SFunc(dc.module, fn, o, dc, None, f"{dc.name}.{attr}")
        # data attribute
        if ci0 is not None:
            cv = self.class_const(ci0, attr, node)
            if cv is not _NOCONST:
                return cv
            ks = self.attr_kinds_from_annotation(ci0, attr)
            if attr == "data" and self.prog.is_subclass(ci0, "UserString"):
                v: Any = SStr([Frag("OF", (o.uid, getattr(o, "name", o.cls_name if isinstance(o, SNew) else "?")), "TRUSTED", ())])
                o.attrs[attr] = v
                return v
            if attr == "data" and self.prog.is_subclass(ci0, "UserList"):
                v = SObj(f"{_nm(o)}.data", {"LIST"}, origin=getattr(o, "origin", "input"))
                v.meta["list_of"] = o
                o.attrs[attr] = v
                return v
            if ks is not None:
                if ks <= frozenset({"TRUE", "FALSE"}):
                    v = SBool(("attr", o.uid, attr))
                else:
                    org = getattr(o, "origin", "input")
                    if isinstance(o, SObj) and o.origin == "new" and o.meta.get("fresh_fields") is False:
                        org = "opaque"
                    v = SObj(f"{_nm(o)}.{attr}", ks, origin=org)
                    if isinstance(o, SObj) and o.meta.get("elem_origin") and attr in ("children", "data"):
                        v.meta["elem_origin"] = o.meta["elem_origin"]
                    ek = self.elem_kinds_from_annotation(ci0, attr)
                    if ek is not None:
                        v.meta["elem_kinds"] = ek
                    v.meta["attr_of"] = (o, attr)
                o.attrs[attr] = v
                return v
            # instance attribute assigned somewhere in the class (untyped)
            if self.class_assigns_attr(ci0, attr):
                v = SObj(f"{_nm(o)}.{attr}", ALL_KINDS, origin=getattr(o, "origin", "input"))
                v.meta["attr_of"] = (o, attr)
                o.attrs[attr] = v
                return v
            # builtin base methods (dict.get, list.append ...)
            return SBound(o, attr)
        # external / undetermined object: method of unknown code
        return SBound(o, attr)

    def class_assigns_attr(self, ci: ClassInfo, attr: str) -> bool:
        for c in self.prog.mro(ci):
            if not isinstance(c, ClassInfo):
                continue
            for fn in c.methods.values():
                for n in ast.walk(fn):
                    if isinstance(n, ast.Attribute) and n.attr == attr and isinstance(n.ctx, ast.Store) \
                            and isinstance(n.value, ast.Name) and n.value.id == "self":
                        return True
        return False

    def super_attr(self, s: SSuper, attr: str, node: Optional[ast.AST]) -> Any:
        o = s.obj
        if isinstance(o, SNew) and isinstance(o.cls, ClassInfo):
            start = o.cls
        elif isinstance(o, SObj) and len(o.kinds) == 1 and self.U.repo_class(next(iter(o.kinds))) is not None:
            start = self.U.repo_class(next(iter(o.kinds)))
        else:
            start = s.after
        mro = self.prog.mro(start)  # type: ignore[arg-type]
        idx = next((i for i, c in enumerate(mro) if c is s.after), None)
        if idx is None:
            mro = self.prog.mro(s.after)
            idx = 0
        for c in mro[idx + 1:]:
            if isinstance(c, ClassInfo):
                if attr in c.methods:
                    return SFunc(c.module, c.methods[attr], o, c, None, f"{c.name}.{attr}")
            else:
                return SBound(_Base(o, str(c).split(".")[-1]), attr)
        return SBound(_Base(o, "object"), attr)

    def extern_attr(self, x: SExtern, attr: str, node: Optional[ast.AST]) -> Any:
        if x.name is None:
            if x.mod.startswith("<repo>"):
                m = self.prog.module(x.mod[len("<repo>"):])
                return self.lookup_global(m, attr, node)
            if x.mod == "sys" and attr == "displayhook":
                return self.global_cell("sys.displayhook", {"CALLABLE"})
            if x.mod == "sys" and attr == "version_info":
                return SUnknown("sys.version_info")
            return SExtern(x.mod, attr)
        return SExtern(x.mod, f"{x.name}.{attr}")

    # ---- subscript ----------------------------------------------------------------
    def e_Subscript(self, e: ast.Subscript) -> Any:
        base = self.eval(e.value)
        if isinstance(e.slice, ast.Slice):
            lo = self.eval(e.slice.lower) if e.slice.lower is not None else None
            hi = self.eval(e.slice.upper) if e.slice.upper is not None else None
            st = self.eval(e.slice.step) if e.slice.step is not None else None
            return self.get_slice(base, lo, hi, st, e)
        idx = self.eval(e.slice)
        return self.get_item(base, idx, e)

    def get_slice(self, base: Any, lo: Any, hi: Any, st: Any, node: ast.AST) -> Any:
        if isinstance(base, str) and all(isinstance(x, (int, type(None))) for x in (lo, hi, st)):
            return base[lo:hi:st]
        s = self.as_sstr(base)
        if s is not None:
            return SStr([Frag("OP", ("slice", _show(lo), _show(hi), _show(st)), s, ())])
        if isinstance(base, (list, tuple)) and all(isinstance(x, (int, type(None))) for x in (lo, hi, st)):
            return base[lo:hi:st]
        if isinstance(base, SList) and base.mode == "concrete" and all(isinstance(x, (int, type(None))) for x in (lo, hi, st)) \
                and not any(isinstance(i, SSplat) for i in base.items):
            r = SList("concrete", base.items[lo:hi:st])
            r.pytype = base.pytype
            return r
        return SOpaque(("slice", short(base), _show(lo), _show(hi), _show(st)))

    def get_item(self, base: Any, idx: Any, node: ast.AST) -> Any:
        if isinstance(idx, SStr) and idx.is_const():
            idx = idx.const()
        if isinstance(base, SOpaque) and "match_text" in base.__dict__ and idx == 0 and not isinstance(idx, bool):
            return base.__dict__["match_text"]        # m[0]
        if isinstance(base, (list, tuple, str, dict)) and not isinstance(idx, Sym):
            try:
                return base[idx]
            except Exception:
                self.raise_exc("IndexError" if not isinstance(base, dict) else "KeyError", node)
        if isinstance(base, (list, tuple)) and isinstance(idx, SInt) and len(base) >= 2 and all(isinstance(v, str) for v in base) \
                and base[0] == "" and base[1] != "" and all(base[k] == base[1] * k for k in range(len(base))):
            # a table of powers: TABLE[i] == unit * i for every valid i (a bad index raises IndexError, another behaviour altogether)
            return SStr([Frag("REP", base[1], idx)])
        if isinstance(base, (dict, list, tuple)) and isinstance(idx, Sym):
            vals = list(base.values()) if isinstance(base, dict) else list(base)
            if vals and all(isinstance(v, str) for v in vals):
                # one of several constant strings, selected by a symbolic index: a plain str whose content is not known
                mk0 = ("constitem", id(base), _K(idx))
                if mk0 not in self.run.elem_memo:
                    o0 = SObj(f"const[{short(idx)}]", {"STR"}, origin="new")
                    o0.meta["origin"] = "UNKNOWN"
                    self.run.elem_memo[mk0] = o0
                return self.run.elem_memo[mk0]
            ks = {kinds_of_pyvalue(v) for v in vals if not isinstance(v, Sym)} or ALL_KINDS
            mk = ("constitem", id(base), _K(idx))
            if mk not in self.run.elem_memo:
                self.run.elem_memo[mk] = SObj(f"const[{short(idx)}]", ks, origin="new")
            return self.run.elem_memo[mk]
        if isinstance(base, SDict):
            key = idx if not isinstance(idx, Sym) else _K(idx)
            if key in base.items:
                return base.items[key]
            if base.concrete and not base.dstar and not isinstance(idx, Sym):
                self.raise_exc("KeyError", node)
            # symbolic / carried dict: value keyed by the symbolic key
            memo = self.run.elem_memo
            mk = ("dictitem", base.uid, _K(idx) if isinstance(idx, Sym) else idx)
            if mk not in memo:
                o = SObj(f"{base.name or 'dict'}[{short(idx)}]", base.__dict__.get("value_kinds") or ALL_KINDS, origin=base.origin)
                o.meta["item_of"] = (base, idx)
                memo[mk] = o
            return memo[mk]
        if isinstance(base, SList):
            return self.list_item(base, idx, node)
        if isinstance(base, (SObj, SNew, SOpaque)):
            return self.obj_item(base, idx, node)
        if isinstance(base, (SExtern, TypeRef, SClass)):
            return SExtern("typing", f"{getattr(base, 'qual', None) or getattr(base, 'name', 'type')}[...]")   # a type expression
        raise self.unmodelled(f"subscript of {type(base).__name__}", node)

    def list_item(self, l: SList, idx: Any, node: ast.AST) -> Any:
        if l.mode == "concrete" and isinstance(idx, int) and not any(isinstance(i, SSplat) for i in l.items):
            try:
                return l.items[idx]
            except IndexError:
                self.raise_exc("IndexError", node)
        if l.mode == "view":
            return self.view_elem(l.base, l.kinds, idx, node)
        memo = self.run.elem_memo
        mk = ("listitem", l.uid, _K(idx) if isinstance(idx, Sym) else idx)
        if mk not in memo:
            items = [i for i in l.items if not isinstance(i, SSplat)] if l.mode == "concrete" else ([l.elt] if l.mode == "map" and getattr(l, "elt", None) is not None else [])
            if items and all(isinstance(i, (str, SStr)) for i in items) and not any(isinstance(i, SSplat) for i in l.items):
                # one of several strings, selected by a symbolic index: a plain str whose content is not known
                o = SObj(f"{l.name or 'list'}[{short(idx)}]", {"STR"}, origin=l.origin)
                o.meta["origin"] = "UNKNOWN"
                memo[mk] = o
            else:
                memo[mk] = SObj(f"{l.name or 'list'}[{short(idx)}]", ALL_KINDS, origin=l.origin)
        return memo[mk]

    def view_elem(self, coll: Any, kinds: Optional[FrozenSet[str]], idx: Any, node: Optional[ast.AST]) -> Any:
        """Element `idx` of the sub-sequence of `coll` whose elements have a kind in `kinds`."""
        run = self.run
        elem_kinds = self.coll_elem_kinds(coll)
        kinds = frozenset(elem_kinds if kinds is None else kinds & elem_kinds)
        vis = elem_kinds - META_KINDS
        is_vis_view = kinds == vis or (not (elem_kinds & META_KINDS) and kinds == elem_kinds)
        is_full_view = kinds == elem_kinds
        if isinstance(idx, int) and idx >= 0:
            n = self.view_count_dom(coll, kinds)
            # feasibility of the index (inside a loop over these very elements there is at least one)
            in_own_loop = idx == 0 and any(r.__dict__.get("active") and _iterates(r.iter_value, coll, kinds, elem_kinds) for r in run.loops)
            if not in_own_loop and self.cmp_count(coll, kinds, "<=", idx):
                self.raise_exc("IndexError", node)
            if is_full_view and not is_vis_view and idx == 0:
                # first element of the unfiltered list: a metadata node or the first visible child
                nm = self.count_class(coll, elem_kinds & META_KINDS)
                if nm != 0:
                    c = run.path.choose(("first-is-meta", _uid(coll)), 2, ("first element is metadata", "first element is visible"))
                    if c == 0:
                        mk0 = ("elem", _uid(coll), tuple(sorted(elem_kinds & META_KINDS)), "m0")
                        if mk0 not in run.elem_memo:
                            run.elem_memo[mk0] = SObj(f"{_nm(coll)}[meta]", elem_kinds & META_KINDS, origin=_origin(coll))
                        return run.elem_memo[mk0]
                    if self.count_class(coll, vis) == 0:
                        from .interp import Infeasible
                        raise Infeasible()      # no visible element: the first one cannot be visible
                    return self.view_elem(coll, vis, 0, node)
                return self.view_elem(coll, vis, 0, node)
        mk = ("elem", _uid(coll), tuple(sorted(kinds)), _K(idx) if isinstance(idx, Sym) else idx)
        if mk not in run.elem_memo:
            o = SObj(f"{_nm(coll)}[{short(idx)}]", kinds, origin=_elem_origin(coll))
            o.elem_of = (coll, kinds, idx)
            run.elem_memo[mk] = o
        return run.elem_memo[mk]

    def coll_elem_kinds(self, coll: Any) -> FrozenSet[str]:
        ek = getattr(coll, "meta", {}).get("elem_kinds") if isinstance(coll, SObj) else None
        if ek is not None:
            return frozenset(ek)
        if isinstance(coll, SObj) and coll.kinds <= frozenset({"TAGLIST"}):
            return NODE_KINDS - {"TAGLIST"}
        if isinstance(coll, SNew) and coll.cls_name == "TagList":
            return NODE_KINDS - {"TAGLIST"}
        return ALL_KINDS

    # ---- counts of abstract collections ({0,1,2+}) -----------------------------------------
    def count_var(self, coll: Any, kinds: FrozenSet[str]) -> Any:
        return ("count", _uid(coll), tuple(sorted(kinds)))

    def view_count_dom(self, coll: Any, kinds: FrozenSet[str]) -> set:
        d = self.run.count_dom
        v = self.count_var(coll, kinds)
        if v not in d:
            d[v] = {0, 1, 2}
        return d[v]

    def count_class(self, coll: Any, kinds: FrozenSet[str]) -> int:
        """Decide the count class (0, 1, 2 meaning >= 2) of a view, forking if needed."""
        dom = self.view_count_dom(coll, kinds)
        if len(dom) == 1:
            return next(iter(dom))
        opts = sorted(dom)
        c = self.run.path.choose(self.count_var(coll, kinds), len(opts), tuple(f"n{'=' if o < 2 else '>='}{o}" for o in opts))
        self.run.count_dom[self.count_var(coll, kinds)] = {opts[c]}
        return opts[c]

    def split_view(self, coll: Any, kinds: FrozenSet[str]) -> Optional[Tuple[FrozenSet[str], FrozenSet[str]]]:
        ek = self.coll_elem_kinds(coll)
        kinds = kinds & ek
        if kinds == ek and (ek & META_KINDS) and (ek - META_KINDS):
            return (ek - META_KINDS, ek & META_KINDS)
        return None

    def cmp_count(self, coll: Any, kinds: FrozenSet[str], op: str, c: int) -> bool:
        """len(view) <op> c with c a small constant; forks on count classes."""
        if self.run.cfg.coarse_counts:
            return self.run.decide(("len-cmp", _uid(coll), op, c))
        ek = self.coll_elem_kinds(coll)
        kinds = kinds & ek
        parts = self.split_view(coll, kinds)
        if parts is not None:
            a = self.count_class(coll, parts[0])
            b = self.count_class(coll, parts[1])
            lo = a + b                      # lower bound of the sum
            exact = a < 2 and b < 2
        else:
            a = self.count_class(coll, kinds)
            lo = a
            exact = a < 2
        import operator as _op
        f = {"==": _op.eq, "!=": _op.ne, "<": _op.lt, "<=": _op.le, ">": _op.gt, ">=": _op.ge}[op]
        if exact:
            return f(lo, c)
        # lo is a lower bound (n >= lo, lo >= 2)
        if op == ">=" and c <= lo:
            return True
        if op == ">" and c < lo:
            return True
        if op == "<" and c <= lo:
            return False
        if op == "<=" and c < lo:
            return False
        if op == "==" and c < lo:
            return False
        if op == "!=" and c < lo:
            return True
        return self.run.decide(("len-cmp", _uid(coll), tuple(sorted(kinds)), op, c))

    def obj_item(self, o: Any, idx: Any, node: ast.AST) -> Any:
        sk = ("stored", getattr(o, "uid", None), _K(idx) if isinstance(idx, Sym) else idx)
        if sk in self.run.elem_memo:
            return self.run.elem_memo[sk]
        kinds = getattr(o, "kinds", None)
        if isinstance(o, SNew):
            kinds = frozenset({self.U.kind_of_class(o.cls) or "OTHER"}) if isinstance(o.cls, ClassInfo) else frozenset({"OTHER"})
        if kinds is not None and kinds <= frozenset({"TAGLIST"}):
            m = self.prog.find_method(self.U.repo_class("TAGLIST"), "__getitem__")  # type: ignore[arg-type]
            if m is not None and m[0].module.name.startswith("htmltools"):
                return self.call_method_def(o, m[0], m[1], [idx], {}, node)
            return self.view_elem(o, None, idx, node)
        if kinds is not None and kinds <= frozenset({"LIST", "TUPLE"}):
            inner = getattr(o, "meta", {}).get("list_of")
            if inner is not None:
                return self.view_elem(inner, None, idx, node)
            return self.view_elem(o, None, idx, node)
        if kinds is not None and kinds <= frozenset({"DICT", "TAGATTRDICT", "JSXATTRDICT"}):
            mk = ("dictitem", o.uid, _K(idx) if isinstance(idx, Sym) else idx)
            if mk not in self.run.elem_memo:
                vk = o.meta.get("value_kinds") if isinstance(o, SObj) else None
                if vk is None and kinds <= frozenset({"TAGATTRDICT"}):
                    vk = {"STR", "HTMLSTR"}
                tci = o.meta.get("typed_dict") if isinstance(o, SObj) else None
                if vk is None and tci is not None and isinstance(idx, str):
                    for c in self.prog.mro(tci):
                        if isinstance(c, ClassInfo) and idx in c.annotations:
                            vk = self.kinds_from_annotation(c.annotations[idx], c.module)
                            break
                v = SObj(f"{_nm(o)}[{short(idx)}]", vk or ALL_KINDS, origin=_origin(o))
                v.meta["item_of"] = (o, idx)
                self.run.elem_memo[mk] = v
            return self.run.elem_memo[mk]
        if isinstance(o, SOpaque):
            mk = ("opitem", o.uid, _K(idx) if isinstance(idx, Sym) else idx)
            if mk not in self.run.elem_memo:
                self.run.elem_memo[mk] = SOpaque(("item", o.descr, short(idx)))
            return self.run.elem_memo[mk]
        if isinstance(o, SObj):
            mk = ("anyitem", o.uid, _K(idx) if isinstance(idx, Sym) else idx)
            if mk not in self.run.elem_memo:
                v = SObj(f"{_nm(o)}[{short(idx)}]", o.meta.get("value_kinds") or ALL_KINDS, origin=_elem_origin(o))
                v.meta["item_of"] = (o, idx)
                self.run.elem_memo[mk] = v
            return self.run.elem_memo[mk]
        raise self.unmodelled(f"subscript of {o!r}", node)

    # ---- comparison ----------------------------------------------------------------
    def e_Compare(self, e: ast.Compare) -> Any:
        left = self.eval(e.left)
        result: Any = True
        for op, rexpr in zip(e.ops, e.comparators):
            right = self.eval(rexpr)
            r = self.compare(op, left, right, e)
            if isinstance(r, SBool):
                r = self.run.decide(r.atom)
            if not r:
                return False
            left = right
        return result

    def compare(self, op: ast.cmpop, l: Any, r: Any, node: ast.AST) -> Any:
        if isinstance(op, (ast.Is, ast.IsNot)):
            v = self.identical(l, r, node)
            return v if isinstance(op, ast.Is) else (not v)
        if isinstance(op, (ast.In, ast.NotIn)):
            v = self.contains(r, l, node)
            return v if isinstance(op, ast.In) else (not v)
        if isinstance(op, (ast.Eq, ast.NotEq)):
            v = self.equal(l, r, node)
            return v if isinstance(op, ast.Eq) else (not v)
        sym = {ast.Lt: "<", ast.LtE: "<=", ast.Gt: ">", ast.GtE: ">="}[type(op)]
        if not isinstance(l, Sym) and not isinstance(r, Sym):
            try:
                return {"<": l < r, "<=": l <= r, ">": l > r, ">=": l >= r}[sym]
            except Exception:
                raise self.unmodelled("ordering of constants", node)
        # len(view) against a small constant
        lc = getattr(l, "len_of", None)
        rc = getattr(r, "len_of", None)
        if lc is not None and isinstance(r, int):
            return self.cmp_count(lc[0], lc[1], sym, r)
        if rc is not None and isinstance(l, int):
            flip = {"<": ">", "<=": ">=", ">": "<", ">=": "<="}[sym]
            return self.cmp_count(rc[0], rc[1], flip, l)
        if isinstance(l, SInt) and isinstance(r, SInt) and l.base == r.base:
            return {"<": l.off < r.off, "<=": l.off <= r.off, ">": l.off > r.off, ">=": l.off >= r.off}[sym]
        return self.run.decide(("cmp", sym, _K(l), _K(r)))

    def identical(self, l: Any, r: Any, node: ast.AST) -> bool:
        for a, b in ((l, r), (r, l)):
            if b is None or b is True or b is False or b is Ellipsis:
                if not isinstance(a, Sym):
                    return a is b
                kind = kinds_of_pyvalue(b)
                if isinstance(a, SObj):
                    if kind not in a.kinds:
                        return False
                    if a.kinds == frozenset({kind}):
                        return True
                    if self.run.path.choose(("is", a.uid, kind), 2, (f"is {b}", f"is not {b}")) == 0:
                        a.kinds = frozenset({kind})
                        return True
                    a.kinds = a.kinds - {kind}
                    return False
                if isinstance(a, SBool):
                    t = self.run.decide(a.atom)
                    if b is None and isinstance(a.atom, tuple) and a.atom[:1] == ("extcall",) and len(a.atom) > 1 \
                            and a.atom[1] in ("re.search", "re.match", "re.fullmatch"):
                        return not t        # the value is a match object or None: `m is None` means "no match"
                    return t is b
                if isinstance(a, (SNew, SStr, SList, SDict, SFunc, SClass, SInt)):
                    return False
                if isinstance(a, SOpaque):
                    return self.run.decide(("is", a.uid, kind))
                return self.run.decide(("is", short(a), kind))
        if isinstance(l, (SObj, SNew, SOpaque, SList, SDict)) and isinstance(r, (SObj, SNew, SOpaque, SList, SDict)):
            if l is r:
                return True
            if isinstance(l, SNew) or isinstance(r, SNew):
                return False
            return self.run.decide(("same", min(l.uid, r.uid), max(l.uid, r.uid)))
        if isinstance(l, TypeRef) and isinstance(r, TypeRef):
            return repr(l) == repr(r)
        for a, b in ((l, r), (r, l)):
            if isinstance(a, SOpaque) and "type_of" in a.__dict__ and isinstance(b, (SClass, TypeRef)):
                x = a.__dict__["type_of"]
                cname = b.ci.name if isinstance(b, SClass) else b.name
                if isinstance(x, SNew):
                    return x.cls_name == cname
                if isinstance(x, SObj):
                    exact = {k for k in x.kinds if KINDS[k].repo == cname or (KINDS[k].repo is None and getattr(KINDS[k].standin, "__name__", "") == cname
                                                                             and not KINDS[k].methods and k != "OTHER")}
                    if not exact:
                        return False
                    if self.run.path.choose(("type-is", x.uid, cname), 2, (f"type is {cname}", f"type is not {cname}")) == 0:
                        x.kinds = frozenset(exact)
                        return True
                    return False      # (a subclass instance keeps the same kind)
                return self.run.decide(("type-is", short(x), cname))
        raise self.unmodelled("identity test", node)

    def equal(self, l: Any, r: Any, node: ast.AST) -> Any:
        if not isinstance(l, Sym) and not isinstance(r, Sym):
            return l == r
        for a, b in ((l, r), (r, l)):
            lc = getattr(a, "len_of", None)
            if lc is not None and isinstance(b, int) and not isinstance(b, bool):
                return self.cmp_count(lc[0], lc[1], "==", b)
        if isinstance(l, SInt) and isinstance(r, SInt) and l.base == r.base:
            return l.off == r.off
        for a, b in ((l, r), (r, l)):
            if isinstance(a, SStr) and isinstance(b, str):
                if a.is_const():
                    return a.const() == b
                if b == "":
                    return not self.run.truth(a, node)
                return self.run.decide(("eq", a.key(), b))
            if isinstance(a, SObj) and not isinstance(b, Sym):
                bk = kinds_of_pyvalue(b)
                compat = {bk}
                if bk in ("INT", "FLOAT", "TRUE", "FALSE"):
                    compat = {"INT", "FLOAT", "TRUE", "FALSE"}
                if bk == "STR":
                    compat = {"STR", "JSXEXPR", "HTMLSTR"}
                if not (a.kinds & compat):
                    return False
                if a.known is not _NOVAL:
                    return a.known == b
                if _hk(b) in a.excluded:
                    return False
                if isinstance(b, str):
                    for s, val in a.in_sets.items():
                        if val and b not in s:
                            return False
                        if (not val) and b in s:
                            return False
                if a.kinds <= frozenset({bk}) and KINDS[bk].singleton != "<no>":
                    return True
                if self.run.path.choose(("eq", a.uid, _hk(b)), 2, (f"== {b!r}", f"!= {b!r}")) == 0:
                    self.run.restrict(a, compat)
                    if a.kinds <= frozenset({"STR", "JSXEXPR"}) or bk != "STR":
                        a.known = b
                    return True
                a.excluded.add(_hk(b))
                return False
        if isinstance(l, SStr) and isinstance(r, SStr):
            if l.key() == r.key():
                return True
            return self.run.decide(("eq", l.key(), r.key()))
        if isinstance(l, SBool) or isinstance(r, SBool):
            a = self.run.truth(l, node)
            b = self.run.truth(r, node)
            return a == b
        if l is r:
            return True
        return self.run.decide(("eq", _K(l), _K(r)))

    def contains(self, container: Any, item: Any, node: ast.AST) -> Any:
        # constant container
        if isinstance(container, (set, frozenset, tuple, list, dict, str)) and not isinstance(item, Sym):
            try:
                return item in container
            except TypeError:
                raise self.unmodelled("membership", node)
        if isinstance(container, SList) and container.mode == "concrete" and not any(isinstance(i, SSplat) for i in container.items):
            container = list(container.items)
        if isinstance(container, (set, frozenset, tuple, list)):
            elems = list(container)
            if not elems:
                return False        # nothing is a member of an empty container
            if isinstance(item, SObj):
                if all(isinstance(x, str) for x in elems) and item.kinds <= frozenset({"STR", "JSXEXPR"}):
                    fs = frozenset(elems)
                    if item.known is not _NOVAL:
                        return item.known in fs
                    if fs in item.in_sets:
                        return item.in_sets[fs]
                    for s, val in item.in_sets.items():
                        if val and not (s & fs):
                            return False
                        if val and s <= fs:
                            return True
                    if fs and fs <= frozenset(x for x in item.excluded if isinstance(x, str)):
                        return False
                    r = self.run.path.choose(("in", item.uid, tuple(sorted(fs))), 2, ("in " + _setname(fs), "not in " + _setname(fs))) == 0
                    item.in_sets[fs] = r
                    return r
                # general: any(item == x) - for an object of a user-defined class this runs its __eq__
                self.run.effect("eqcmp", item, None, list(elems), node)
                for x in elems:
                    if isinstance(x, Sym):
                        if self.run.truth(self.equal(item, x, node)) or self.identical_safe(item, x, node):
                            return True
                        continue
                    if x is None or x is Ellipsis or x is True or x is False:
                        # `in` uses identity first, then ==
                        if self.value_equals_const(item, x, node):
                            return True
                    else:
                        if self.run.truth(self.equal(item, x, node)):
                            return True
                return False
            if isinstance(item, (SStr,)):
                if item.is_const():
                    return item.const() in elems
                return self.run.decide(("in", item.key(), tuple(map(repr, elems))))
            if isinstance(item, SBool):
                t = self.run.truth(item)
                return any((x is t) or (isinstance(x, (int, float)) and not isinstance(x, bool) and x == t) for x in elems)
            if isinstance(item, SNew):
                return False
            return self.run.decide(("in", _K(item), tuple(map(repr, elems))))
        if isinstance(container, str) or isinstance(container, SStr):
            return self.run.decide(("substr", _K(item), _K(container)))
        if isinstance(container, SNew) and isinstance(container.cls, ClassInfo) and self.prog.is_subclass(container.cls, "UserString"):
            return self.run.decide(("substr", _K(item), _K(container)))      # UserString.__contains__: substring of .data
        if isinstance(container, (SDict, SList, SObj, SOpaque)):
            key = _K(item) if isinstance(item, Sym) else item
            if isinstance(container, SDict) and container.concrete and not container.dstar and not isinstance(item, Sym):
                return item in container.items
            if isinstance(container, SDict):
                if key in container.items:
                    return True
            atom = ("in", key, ("coll", container.uid))
            self.run.atom_info[atom] = {"op": "in", "item": item, "container": container}
            return self.run.decide(atom)
        if isinstance(container, dict):
            return self.run.decide(("in", _K(item), ("constdict", tuple(container))))
        raise self.unmodelled("membership test", node)

    def identical_safe(self, a: Any, b: Any, node: ast.AST) -> bool:
        return a is b

    def value_equals_const(self, item: Any, c: Any, node: ast.AST) -> bool:
        """item == c or item is c, for a singleton constant c (None/True/False/Ellipsis)."""
        if not isinstance(item, SObj):
            return self.run.truth(self.equal(item, c, node))
        kind = kinds_of_pyvalue(c)
        ks = item.kinds
        numeric = {"INT", "FLOAT", "TRUE", "FALSE"}
        if c is None or c is Ellipsis:
            if kind not in ks:
                return False
            if ks == frozenset({kind}):
                return True
            if self.run.path.choose(("is", item.uid, kind), 2, (f"is {c}", f"is not {c}")) == 0:
                item.kinds = frozenset({kind})
                return True
            item.kinds = ks - {kind}
            return False
        # True / False: equal to numbers 1 / 0 as well
        if not (ks & numeric):
            return False
        self.split_kinds(item, node, [frozenset({"TRUE"}), frozenset({"FALSE"}), frozenset({"INT", "FLOAT"}), ALL_KINDS - numeric])
        if item.kinds <= frozenset({"TRUE"}):
            return c is True
        if item.kinds <= frozenset({"FALSE"}):
            return c is False
        if item.kinds <= frozenset({"INT", "FLOAT"}):
            return self.run.decide(("num-eq", item.uid, int(c)))
        return False

    # ---- binary operators ---------------------------------------------------------------
    def e_BinOp(self, e: ast.BinOp) -> Any:
        l = self.eval(e.left)
        r = self.eval(e.right)
        return self.binop(e.op, l, r, e)

    def binop(self, op: ast.operator, l: Any, r: Any, node: ast.AST) -> Any:
        if not isinstance(l, Sym) and not isinstance(r, Sym):
            try:
                if isinstance(op, ast.Add):
                    return l + r
                if isinstance(op, ast.Sub):
                    return l - r
                if isinstance(op, ast.Mult):
                    return l * r
                if isinstance(op, ast.Mod):
                    return l % r
                if isinstance(op, ast.BitOr):
                    return l | r
            except Exception:
                raise self.unmodelled("constant arithmetic", node)
        if isinstance(op, ast.Add):
            return self.add(l, r, node)
        if isinstance(op, ast.Sub):
            if isinstance(l, SInt) and isinstance(r, int):
                return SInt(l.base, l.off - r)
            return _opq(("sub", short(l), short(r)), l, r)
        if isinstance(op, ast.Mult):
            for a, b in ((l, r), (r, l)):
                if isinstance(a, str) and isinstance(b, (SInt,)):
                    return SStr([Frag("REP", a, b)])
                if isinstance(a, str) and isinstance(b, SObj) and b.kinds <= frozenset({"INT"}):
                    return SStr([Frag("REP", a, SInt(b.name))])
                if isinstance(a, int) and isinstance(b, SInt):
                    return SOpaque(("mul", a, repr(b)), {"INT"})
            return _opq(("mul", short(l), short(r)), l, r)
        if isinstance(op, ast.Mod):
            return _opq(("mod", short(l), short(r)), l, r)
        raise self.unmodelled("binary operator", node)

    def add(self, l: Any, r: Any, node: ast.AST) -> Any:
        if isinstance(l, SInt) and isinstance(r, int):
            return SInt(l.base, l.off + r)
        if isinstance(r, SInt) and isinstance(l, int):
            return SInt(r.base, r.off + l)
        if isinstance(l, SObj) and l.kinds <= frozenset({"INT"}) and isinstance(r, int):
            return SInt(l.name, r)
        # resolve kinds of symbolic objects relevant for operator dispatch
        for v in (l, r):
            if isinstance(v, SObj) and len(v.kinds) > 1:
                self.split_kinds(v, node, [frozenset({"STR", "JSXEXPR"}), frozenset({"HTMLSTR"}),
                                           ALL_KINDS - {"STR", "JSXEXPR", "HTMLSTR"}])
        lh = self.is_html(l)
        rh = self.is_html(r)
        if lh:
            m = self.html_method("__add__")
            if m is not None:
                return self.call_method_def(l, m[0], m[1], [r], {}, node)
        ls = self.as_sstr(l)
        rs = self.as_sstr(r)
        if ls is not None and rs is not None:
            out = SStr(ls.frags + rs.frags)
            return out.const() if out.is_const() else out
        if rh:
            m = self.html_method("__radd__")
            if m is not None:
                return self.call_method_def(r, m[0], m[1], [l], {}, node)
        # lists
        if isinstance(l, (SList, list, tuple)) and isinstance(r, (SList, list, tuple)):
            li = self.splat(l)
            ri = self.splat(r)
            out2 = SList("concrete", li + ri)
            out2.pytype = "tuple" if isinstance(l, tuple) or (isinstance(l, SList) and l.pytype == "tuple") else "list"
            return out2
        # TagList + x
        for a, b, nm in ((l, r, "__add__"), (r, l, "__radd__")):
            ci = self.class_of(a)
            if ci is not None:
                m2 = self.prog.find_method(ci, nm)
                if m2 is not None:
                    return self.call_method_def(a, m2[0], m2[1], [b], {}, node)
        if ls is not None or rs is not None:
            # str + unknown: TypeError unless the other side implements __radd__; keep opaque
            return SStr((ls.frags if ls else (Frag("OP", ("operand", short(l)), l, ()),)) +
                        (rs.frags if rs else (Frag("OP", ("operand", short(r)), r, ()),)))
        o_ = _opq(("add", short(l), short(r)), l, r)
        if all(isinstance(x, (SList, list, tuple)) or (isinstance(x, SObj) and x.kinds and x.kinds <= frozenset({"LIST", "TUPLE"})) for x in (l, r)):
            # list + list / tuple + tuple: a new sequence holding the operands' elements (a shallow copy of both)
            o_.__dict__["copy_of"] = l
            o_.kinds = frozenset({"LIST"} if not (isinstance(l, SObj) and l.kinds <= frozenset({"TUPLE"})) else {"TUPLE"})
        return o_

    def class_of(self, v: Any) -> Optional[ClassInfo]:
        if isinstance(v, SNew) and isinstance(v.cls, ClassInfo):
            return v.cls
        if isinstance(v, SObj) and len(v.kinds) == 1:
            return self.U.repo_class(next(iter(v.kinds)))
        return None

    def is_html(self, v: Any) -> bool:
        if isinstance(v, SNew) and isinstance(v.cls, ClassInfo):
            return self.prog.is_subclass(v.cls, "HTML")
        if isinstance(v, SObj):
            return v.kinds <= frozenset({"HTMLSTR"})
        return False

    def html_method(self, name: str) -> Any:
        ci = self.prog.get_class("HTML")
        if ci is None:
            raise AnalysisError("anchor vanished: class HTML")
        m = self.prog.find_method(ci, name)
        if m is None:
            return None
        return m

    # ---- comprehensions -----------------------------------------------------------------
    def e_ListComp(self, e: ast.ListComp) -> Any:
        return self.comprehension(e, e.elt, e.generators, "list")

    def e_GeneratorExp(self, e: ast.GeneratorExp) -> Any:
        return self.comprehension(e, e.elt, e.generators, "list")

    def e_SetComp(self, e: ast.SetComp) -> Any:
        r = self.comprehension(e, e.elt, e.generators, "set")
        return r

    def e_DictComp(self, e: ast.DictComp) -> Any:
        if len(e.generators) != 1:
            raise self.unmodelled("nested dict comprehension", e)
        g = e.generators[0]
        it = self.eval(g.iter)
        items = self.concrete_items(it)
        if items is not None:
            d = SDict()
            for x in items:
                self.bind_target(g.target, x, e)
                if all(self.run.truth(self.eval(c), c) for c in g.ifs):
                    k = self.eval(e.key)
                    d.items[k if not isinstance(k, Sym) else _K(k)] = self.eval(e.value)
            return d
        # symbolic: {k: f(v) for k, v in X.items()}
        var = self.generic_element(it, g.target, e)
        self.bind_target(g.target, var, e)
        key = self.eval(e.key)
        val = self.eval(e.value)
        d = SDict(name=f"dictcomp", concrete=False)
        d.__dict__["comp"] = {"iter": it, "var": var, "key": key, "value": val, "ifs": [norm(c) for c in g.ifs]}
        if isinstance(val, SObj) and val.kinds:
            d.__dict__["value_kinds"] = set(val.kinds)     # (a superset: the filter may exclude some of them)
        elif isinstance(val, (SStr, str)):
            d.__dict__["value_kinds"] = {"STR"}
        return d

    def concrete_items(self, it: Any) -> Optional[List[Any]]:
        if isinstance(it, (list, tuple)):
            return list(it)
        if isinstance(it, (set, frozenset)):
            return sorted(it, key=repr)
        if isinstance(it, dict):
            return list(it)
        if isinstance(it, SList) and it.mode == "concrete" and not any(isinstance(i, SSplat) for i in it.items):
            return list(it.items)
        if isinstance(it, SDict) and it.concrete and not it.dstar:
            return [k.v if isinstance(k, _K) else k for k in it.items]
        return None

    def comprehension(self, e: ast.AST, elt: ast.expr, gens: List[ast.comprehension], pytype: str) -> Any:
        if len(gens) > 1:
            # outer generators over concrete iterables are unrolled; each inner comprehension contributes its items
            g0 = gens[0]
            it0 = self.eval(g0.iter)
            items0 = self.concrete_items(it0)
            if items0 is None:
                raise self.unmodelled("comprehension with several generators over a symbolic outer iterable", e)
            saved0 = dict(self.frame.env)
            acc: List[Any] = []
            try:
                for x in items0:
                    self.bind_target(g0.target, x, e)
                    if not all(self.run.truth(self.eval(c), c) for c in g0.ifs):
                        continue
                    sub = self.comprehension(e, elt, gens[1:], pytype)
                    if isinstance(sub, SList) and sub.mode == "concrete":
                        acc.extend(sub.items)
                    else:
                        acc.append(SSplat(sub))
            finally:
                self.frame.env.clear()
                self.frame.env.update(saved0)
            l0 = SList("concrete", acc)
            l0.pytype = pytype
            return l0
        g = gens[0]
        it = self.eval(g.iter)
        from .values import SGen
        if isinstance(it, SGen):
            it = self.materialise(it, e)
        items = self.concrete_items(it)
        saved = dict(self.frame.env)
        try:
            if items is not None:
                out: List[Any] = []
                for x in items:
                    self.bind_target(g.target, x, e)
                    if all(self.run.truth(self.eval(c), c) for c in g.ifs):
                        out.append(self.eval(elt))
                l = SList("concrete", out)
                l.pytype = pytype
                return l
            # symbolic iterable
            coll, base_kinds = self.as_collection(it, e)
            is_identity = isinstance(elt, ast.Name) and isinstance(g.target, ast.Name) and elt.id == g.target.id
            if is_identity and coll is not None:
                from .interp import NeedsDecision
                kinds = set()
                kind_only = True
                self.run.path.frozen = True
                try:
                    for k in sorted(base_kinds):
                        probe = SObj("probe", {k}, origin=_origin(coll))
                        self.frame.env[g.target.id] = probe
                        ok = True
                        for c in g.ifs:
                            v = self.eval(c)
                            if isinstance(v, SBool) or (isinstance(v, Sym) and not isinstance(v, (SStr,))):
                                raise NeedsDecision(None)
                            if not v:
                                ok = False
                                break
                        if ok:
                            kinds.add(k)
                except NeedsDecision:
                    kind_only = False
                finally:
                    self.run.path.frozen = False
                if kind_only:
                    l = SList("view", base=coll, kinds=kinds)
                    l.pytype = pytype
                    return l
            # which element kinds can pass the filter (decided per kind where the conditions only test the kind)
            pass_kinds = None
            drop_kinds = None
            if g.ifs and coll is not None and isinstance(g.target, ast.Name):
                from .interp import NeedsDecision as _ND
                pass_kinds = set()
                drop_kinds = set()
                saved_t = self.frame.env.get(g.target.id, _NOVAL)
                self.run.path.frozen = True
                try:
                    for k in sorted(base_kinds):
                        self.frame.env[g.target.id] = SObj("probe", {k}, origin=_origin(coll))
                        try:
                            ok_k = True
                            for c in g.ifs:
                                v_ = self.eval(c)
                                if isinstance(v_, Sym) and not isinstance(v_, SStr):
                                    raise _ND(None)
                                if not v_:
                                    ok_k = False
                                    break
                            if not ok_k:
                                drop_kinds.add(k)            # never passes
                        except (_ND, Unmodelled):
                            ok_k = True      # value-dependent: elements of this kind may pass
                            drop_kinds.add(k)                # ... and may be dropped
                        if ok_k:
                            pass_kinds.add(k)
                finally:
                    self.run.path.frozen = False
                    if saved_t is _NOVAL:
                        self.frame.env.pop(g.target.id, None)
                    else:
                        self.frame.env[g.target.id] = saved_t
            var = self.generic_element(it, g.target, e)
            self.run.__dict__["last_generic_var"] = var
            self.bind_target(g.target, var, e)
            # describe value-dependent filter conditions without forking
            cond_atoms: List[Any] = []
            if g.ifs:
                # evaluated on a throw-away clone of the element: capturing must not leave facts on the real one
                probe_var = _clone_value(var)
                self.bind_target(g.target, probe_var, e)
                self.run.path.capture = cond_atoms
                try:
                    for c in g.ifs:
                        v = self.eval(c)
                        if isinstance(v, SBool):
                            cond_atoms.append((v.atom, "truthy"))
                finally:
                    self.run.path.capture = None
                    self.bind_target(g.target, var, e)
            if True:
                conds = [norm(c) for c in g.ifs]
                mark = len(self.run.effects)
                val = self.eval(elt)
                l = SList("map", base=it, elt=val, var=var, cond=conds)
                l.pytype = pytype
                l.__dict__["elt_effects"] = self.run.effects[mark:]
                l.__dict__["cond_atoms"] = cond_atoms
                l.__dict__["cond_var"] = probe_var if g.ifs else var
                l.__dict__["cond_nodes"] = list(g.ifs)
                l.__dict__["target_node"] = g.target
                l.__dict__["frame_env"] = self.frame.env
                l.__dict__["identity"] = is_identity
                l.__dict__["pass_kinds"] = pass_kinds
                l.__dict__["drop_kinds"] = drop_kinds
                return l
            var = self.generic_element(it, g.target, e)
            self.bind_target(g.target, var, e)
            conds = []
            for c in g.ifs:
                conds.append(norm(c))
            mark = len(self.run.effects)
            val = self.eval(elt)
            l = SList("map", base=it, elt=val, var=var, cond=conds)
            l.pytype = pytype
            l.__dict__["elt_effects"] = self.run.effects[mark:]
            return l
        finally:
            for k in list(self.frame.env):
                if k not in saved:
                    del self.frame.env[k]
            self.frame.env.update(saved)

    def as_collection(self, it: Any, node: ast.AST) -> Tuple[Any, FrozenSet[str]]:
        """(collection object, element kinds) when `it` iterates the elements of a symbolic list."""
        if isinstance(it, SList) and it.mode == "view":
            return it.base, it.kinds or self.coll_elem_kinds(it.base)
        if isinstance(it, SObj) and it.kinds <= frozenset({"TAGLIST"}):
            return it, self.coll_elem_kinds(it)
        if isinstance(it, SObj) and it.kinds <= frozenset({"LIST", "TUPLE"}):
            inner = it.meta.get("list_of")
            if inner is not None:
                return inner, self.coll_elem_kinds(inner)
            return it, self.coll_elem_kinds(it)
        if isinstance(it, SNew) and it.cls_name == "TagList":
            return it, self.coll_elem_kinds(it)
        return None, ALL_KINDS

    def generic_element(self, it: Any, target: ast.expr, node: ast.AST) -> Any:
        """A fresh value standing for an arbitrary element produced by iterating `it`."""
        run = self.run
        run.fresh_counter += 1
        n = run.fresh_counter
        d = getattr(it, "iter_descr", None)
        if d is not None:
            kind = d[0]
            if kind == "enumerate":
                inner = self.generic_element(d[1], target, node)
                idx = SInt(f"i{n}")
                if isinstance(inner, SObj):
                    inner.meta["index"] = idx
                    inner.meta["index_in"] = d[1]
                t = SList("concrete", [idx, inner])
                t.pytype = "tuple"
                return t
            if kind == "items":
                base = d[1]
                k = SObj(f"key{n}", {"STR"}, origin=_origin(base))
                vk = None
                if isinstance(base, SDict):
                    vk = base.__dict__.get("value_kinds")
                if isinstance(base, SObj):
                    vk = base.meta.get("value_kinds")
                    if vk is None and base.kinds <= frozenset({"TAGATTRDICT"}):
                        vk = {"STR", "HTMLSTR"}
                v = SObj(f"val{n}", vk or ANY_VALUE_KINDS, origin=_origin(base))
                v.meta["item_of"] = (base, k)
                k.meta["key_of"] = base
                t = SList("concrete", [k, v])
                t.pytype = "tuple"
                return t
            if kind == "keys":
                base = d[1]
                k = SObj(f"key{n}", {"STR"}, origin=_origin(base))
                k.meta["key_of"] = base
                return k
            if kind == "range":
                return SInt(f"i{n}")
            if kind == "reversed":
                return self.generic_element(d[1], target, node)
            if kind == "values":
                base = d[1]
                v = SObj(f"val{n}", ANY_VALUE_KINDS, origin=_origin(base))
                return v
        coll, kinds = self.as_collection(it, node)
        if coll is not None:
            o = SObj(f"elem{n}", kinds, origin=_elem_origin(coll))
            o.elem_of = (coll, kinds, None)
            return o
        if isinstance(it, SList) and it.mode == "map":
            return it.elt
        ek = getattr(it, "__dict__", {}).get("elem_kinds") if isinstance(it, Sym) else None
        if isinstance(it, SObj) and it.meta.get("elem_kinds") is not None:
            ek = it.meta["elem_kinds"]
        o = SObj(f"elem{n}", ek or ALL_KINDS, origin=_origin(it))
        o.elem_of = (it, frozenset(ek or ALL_KINDS), None)
        return o

    def bind_target(self, target: ast.expr, value: Any, node: Optional[ast.AST] = None) -> None:
        if isinstance(target, ast.Name):
            self.frame.env[target.id] = value
            return
        if isinstance(target, (ast.Tuple, ast.List)):
            items = self.concrete_items(value)
            if items is None and isinstance(value, (SObj, SOpaque)):
                # unpacking an unknown tuple: each component is an unknown value
                items = []
                for i, t in enumerate(target.elts):
                    o = SObj(f"{_nm(value)}[{i}]", ALL_KINDS, origin=_origin(value))
                    o.meta["component_of"] = (value, i)
                    items.append(o)
            if items is None and isinstance(value, SList) and value.mode in ("view", "carried", "map") \
                    and not any(isinstance(t, ast.Starred) for t in target.elts):
                # (a, b) = <symbolic list>: the components are its elements 0..n-1 (a length mismatch raises ValueError in Python)
                items = [self.list_item(value, i, node or target) for i in range(len(target.elts))]
            if items is None or len(items) != len(target.elts):
                raise self.unmodelled("tuple unpacking of symbolic value", node or target)
            for t, v in zip(target.elts, items):
                if isinstance(t, (ast.Name, ast.Tuple, ast.List)):
                    self.bind_target(t, v, node)
                else:
                    self.assign(t, v, node or target)
            return
        raise self.unmodelled("assignment target", node or target)


def _clone_value(v: Any) -> Any:
    if isinstance(v, SObj):
        o = SObj(v.name, v.kinds, v.origin)
        o.meta = dict(v.meta)
        o.elem_of = v.elem_of
        o.known, o.excluded, o.in_sets = v.known, set(v.excluded), dict(v.in_sets)
        return o
    if isinstance(v, SList) and v.mode == "concrete":
        l = SList("concrete", [_clone_value(i) for i in v.items])
        l.pytype = v.pytype
        return l
    return v


class _K:
    """Hashable wrapper for a symbolic dict key."""

    def __init__(self, v: Any):
        self.v = v
        self.k = ("K", getattr(v, "uid", None) or (v.key() if isinstance(v, SStr) else repr(v)))

    def __hash__(self) -> int:
        return hash(self.k)

    def __eq__(self, o: Any) -> bool:
        return isinstance(o, _K) and o.k == self.k

    def __repr__(self) -> str:
        return short(self.v)


class _Base:
    """`super()` resolved to a builtin base class: (object, base name)."""

    def __init__(self, obj: Any, base: str):
        self.obj = obj
        self.base = base
        self.uid = getattr(obj, "uid", 0)

    def __repr__(self) -> str:
        return f"super<{self.base}>({short(self.obj)})"


def _opq(descr: Any, *operands: Any) -> SOpaque:
    o = SOpaque(descr)
    o.__dict__["operands"] = operands
    return o


def _uid(o: Any) -> Any:
    return getattr(o, "uid", id(o))


def _nm(o: Any) -> str:
    if isinstance(o, SObj):
        return o.name
    if isinstance(o, SNew):
        return o.cls_name + "()"
    return short(o)


def _origin(o: Any) -> str:
    return getattr(o, "origin", "new")


def _iterates(it: Any, coll: Any, kinds: Any, elem_kinds: Any) -> bool:
    """The loop iterable `it` runs over the elements of `coll` with a kind in `kinds` (or a subset of them)."""
    if isinstance(it, SList) and it.mode == "view" and it.base is coll:
        return frozenset(it.kinds if it.kinds is not None else elem_kinds) <= frozenset(kinds)
    if it is coll:
        return frozenset(elem_kinds) <= frozenset(kinds)
    return False


def _elem_origin(o: Any) -> str:
    """Ownership of the *elements* of a collection (a shallow copy is a new container of the old elements)."""
    if isinstance(o, SObj):
        lo = o.meta.get("list_of")
        if lo is not None:
            return _elem_origin(lo)
        return o.meta.get("elem_origin") or o.origin
    if isinstance(o, SNew):
        return o.__dict__.get("meta", {}).get("elem_origin") or "new"
    return getattr(o, "origin", "new")


def _hk(v: Any) -> Any:
    return (type(v).__name__, v)


def _show(v: Any) -> str:
    return "" if v is None else short(v)


def _setname(fs: FrozenSet[str]) -> str:
    s = sorted(fs)
    return "{" + ",".join(s[:4]) + (",…" if len(s) > 4 else "") + "}"
