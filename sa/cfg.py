"""Engine C: statement-level control-flow graph, dominance and path queries (DESIGN 3.4)."""

from __future__ import annotations

import ast
from typing import Any, Callable, Dict, Iterable, List, Optional, Set, Tuple

ENTRY = "ENTRY"
EXIT = "EXIT"      # normal return (explicit or falling off the end)
RAISE = "RAISE"    # exceptional exit


class CFG:
    def __init__(self, fn: ast.AST):
        self.fn = fn
        self.nodes: List[Any] = [ENTRY, EXIT, RAISE]
        self.succ: Dict[Any, List[Any]] = {ENTRY: [], EXIT: [], RAISE: []}
        self.pred: Dict[Any, List[Any]] = {ENTRY: [], EXIT: [], RAISE: []}
        self.edge_kind: Dict[Tuple[int, int], str] = {}
        self.parent_stmt: Dict[int, ast.stmt] = {}

    def key(self, n: Any) -> Any:
        return n if isinstance(n, str) else id(n)

    def add_node(self, n: Any) -> None:
        if n not in self.succ if isinstance(n, str) else id(n) not in self._ids():
            self.nodes.append(n)
            self.succ[self._k(n)] = []
            self.pred[self._k(n)] = []

    def _ids(self) -> Dict[Any, Any]:
        return self.succ

    def _k(self, n: Any) -> Any:
        return n if isinstance(n, str) else id(n)

    def add_edge(self, a: Any, b: Any, kind: str = "") -> None:
        ka, kb = self._k(a), self._k(b)
        for n, k in ((a, ka), (b, kb)):
            if k not in self.succ:
                self.nodes.append(n)
                self.succ[k] = []
                self.pred[k] = []
        if kb not in self.succ[ka]:
            self.succ[ka].append(kb)
            self.pred[kb].append(ka)
        if kind:
            self.edge_kind[(ka, kb)] = kind

    def node_of(self, k: Any) -> Any:
        for n in self.nodes:
            if self._k(n) == k:
                return n
        return None

    def stmts(self) -> List[ast.stmt]:
        return [n for n in self.nodes if not isinstance(n, str)]


class _Builder:
    def __init__(self, cfg: CFG, calls_may_raise: bool, may_raise: Optional[Callable[[ast.stmt], bool]]):
        self.cfg = cfg
        self.calls_may_raise = calls_may_raise
        self.may_raise = may_raise
        self.loop_stack: List[Tuple[Any, List[Any]]] = []  # (head, break-sources)
        self.handler_stack: List[List[Any]] = []  # innermost exception targets
        self.finally_stack: List[Any] = []

    def exc_targets(self) -> List[Any]:
        if self.handler_stack:
            return self.handler_stack[-1]
        return [RAISE]

    def stmt_may_raise(self, st: ast.stmt) -> bool:
        if self.may_raise is not None:
            return self.may_raise(st)
        if not self.calls_may_raise:
            return False
        hdr = _header_exprs(st)
        for e in hdr:
            for n in ast.walk(e):
                if isinstance(n, (ast.Call, ast.Subscript, ast.Attribute)):
                    return True
        return False

    def seq(self, body: List[ast.stmt], preds: List[Tuple[Any, str]]) -> List[Tuple[Any, str]]:
        """Wire a statement list after `preds` (list of (node, edge-kind)); returns the dangling exits."""
        cur = preds
        for st in body:
            cur = self.stmt(st, cur)
        return cur

    def link(self, preds: List[Tuple[Any, str]], node: Any) -> None:
        for p, kind in preds:
            self.cfg.add_edge(p, node, kind)

    def stmt(self, st: ast.stmt, preds: List[Tuple[Any, str]]) -> List[Tuple[Any, str]]:
        cfg = self.cfg
        self.link(preds, st)
        if id(st) not in cfg.succ:
            cfg.add_edge(st, st) if False else None
            cfg.nodes.append(st)
            cfg.succ[id(st)] = []
            cfg.pred[id(st)] = []
        if self.stmt_may_raise(st):
            for t in self.exc_targets():
                cfg.add_edge(st, t, "exc")
        if isinstance(st, ast.Return):
            if self.finally_stack:
                cfg.add_edge(st, self.finally_stack[-1], "return-via-finally")
            else:
                cfg.add_edge(st, EXIT, "return")
            return []
        if isinstance(st, ast.Raise):
            for t in self.exc_targets():
                cfg.add_edge(st, t, "raise")
            return []
        if isinstance(st, ast.Continue):
            if self.loop_stack:
                cfg.add_edge(st, self.loop_stack[-1][0], "continue")
            return []
        if isinstance(st, ast.Break):
            if self.loop_stack:
                self.loop_stack[-1][1].append((st, "break"))
            return []
        if isinstance(st, ast.If):
            b = self.seq(st.body, [(st, "true")])
            if st.orelse:
                o = self.seq(st.orelse, [(st, "false")])
            else:
                o = [(st, "false")]
            return b + o
        if isinstance(st, (ast.For, ast.While, ast.AsyncFor)):
            self.loop_stack.append((st, []))
            b = self.seq(st.body, [(st, "iter")])
            for p, kind in b:
                cfg.add_edge(p, st, "back")
            _, breaks = self.loop_stack.pop()
            infinite = isinstance(st, ast.While) and isinstance(st.test, ast.Constant) and bool(st.test.value)
            out: List[Tuple[Any, str]] = []
            if not infinite:
                if st.orelse:
                    out = self.seq(st.orelse, [(st, "exhausted")])
                else:
                    out = [(st, "exhausted")]
            return out + breaks
        if isinstance(st, (ast.With, ast.AsyncWith)):
            return self.seq(st.body, [(st, "with")])
        if isinstance(st, ast.Try):
            handlers_entry: List[Any] = []
            for h in st.handlers:
                handlers_entry.append(h)
            fin_marker = st.finalbody[0] if st.finalbody else None
            targets: List[Any] = list(handlers_entry)
            if not targets:
                targets = [fin_marker] if fin_marker is not None else self.exc_targets()
            self.handler_stack.append(targets)
            if fin_marker is not None:
                self.finally_stack.append(fin_marker)
            b = self.seq(st.body, [(st, "try")])
            # any statement in the try body may transfer to a handler
            for inner in _walk_stmts(st.body):
                for t in targets:
                    cfg.add_edge(inner, t, "exc")
            self.handler_stack.pop()
            if st.orelse:
                b = self.seq(st.orelse, b)
            outs = list(b)
            for h in st.handlers:
                if id(h) not in cfg.succ:
                    cfg.nodes.append(h)
                    cfg.succ[id(h)] = []
                    cfg.pred[id(h)] = []
                outs += self.seq(h.body, [(h, "handler")])
            if fin_marker is not None:
                self.finally_stack.pop()
                f = self.seq(st.finalbody, outs)
                # after finally an in-flight exception / return continues
                for p, _ in f:
                    for t in self.exc_targets():
                        cfg.add_edge(p, t, "exc-after-finally")
                    cfg.add_edge(p, self.finally_stack[-1] if self.finally_stack else EXIT, "return-after-finally")
                return f
            return outs
        if isinstance(st, (ast.FunctionDef, ast.AsyncFunctionDef, ast.ClassDef)):
            return [(st, "")]
        if isinstance(st, ast.Match):
            outs2: List[Tuple[Any, str]] = [(st, "nomatch")]
            for case in st.cases:
                outs2 += self.seq(case.body, [(st, "case")])
            return outs2
        return [(st, "")]


def _walk_stmts(body: Iterable[ast.stmt]) -> Iterable[ast.stmt]:
    for st in body:
        yield st
        for fld in ("body", "orelse", "finalbody"):
            sub = getattr(st, fld, None)
            if isinstance(sub, list) and not isinstance(st, (ast.FunctionDef, ast.AsyncFunctionDef, ast.ClassDef)):
                yield from _walk_stmts(sub)
        if isinstance(st, ast.Try):
            for h in st.handlers:
                yield from _walk_stmts(h.body)


def _header_exprs(st: ast.stmt) -> List[ast.AST]:
    if isinstance(st, ast.If) or isinstance(st, ast.While):
        return [st.test]
    if isinstance(st, (ast.For, ast.AsyncFor)):
        return [st.iter]
    if isinstance(st, (ast.With, ast.AsyncWith)):
        return [i.context_expr for i in st.items]
    if isinstance(st, (ast.Try, ast.FunctionDef, ast.AsyncFunctionDef, ast.ClassDef)):
        return []
    return [st]


def build_cfg(fn: ast.AST, calls_may_raise: bool = False,
              may_raise: Optional[Callable[[ast.stmt], bool]] = None) -> CFG:
    cfg = CFG(fn)
    b = _Builder(cfg, calls_may_raise, may_raise)
    body = fn.body if hasattr(fn, "body") else []
    outs = b.seq(list(body), [(ENTRY, "")])
    for p, kind in outs:
        cfg.add_edge(p, EXIT, "fallthrough")
    _index_parents(cfg, fn)
    return cfg


def _index_parents(cfg: CFG, fn: ast.AST) -> None:
    def rec(parent: Any, body: List[ast.stmt]) -> None:
        for st in body:
            if parent is not None:
                cfg.parent_stmt[id(st)] = parent
            if isinstance(st, (ast.FunctionDef, ast.AsyncFunctionDef, ast.ClassDef)):
                continue
            for fld in ("body", "orelse", "finalbody"):
                sub = getattr(st, fld, None)
                if isinstance(sub, list):
                    rec(st, sub)
            if isinstance(st, ast.Try):
                for h in st.handlers:
                    rec(st, h.body)
            if isinstance(st, ast.Match):
                for c in st.cases:
                    rec(st, c.body)

    rec(None, list(getattr(fn, "body", [])))


# -----------------------------------------------------------------------------------------
# queries
# -----------------------------------------------------------------------------------------

def _k(n: Any) -> Any:
    return n if isinstance(n, str) else id(n)


def reachable(cfg: CFG, start: Any, avoid: Iterable[Any] = (), forward: bool = True,
              skip_edge: Optional[Callable[[Any, Any], bool]] = None) -> Set[Any]:
    av = {_k(a) for a in avoid}
    s = _k(start)
    seen: Set[Any] = set()
    stack = [s]
    adj = cfg.succ if forward else cfg.pred
    while stack:
        n = stack.pop()
        for m in adj.get(n, []):
            if m in av or m in seen:
                continue
            if skip_edge is not None and (skip_edge(n, m) if forward else skip_edge(m, n)):
                continue
            seen.add(m)
            stack.append(m)
    return seen


def dominates(cfg: CFG, a: Any, b: Any) -> bool:
    """Every path ENTRY -> b passes through a (a == b counts)."""
    if _k(a) == _k(b):
        return True
    if _k(b) not in reachable(cfg, ENTRY) and _k(b) != ENTRY:
        return True  # vacuous: b unreachable
    return _k(b) not in reachable(cfg, ENTRY, avoid=[a])


def postdominates(cfg: CFG, a: Any, b: Any, exits: Iterable[Any] = (EXIT, RAISE)) -> bool:
    """Every path from b to any of `exits` passes through a."""
    if _k(a) == _k(b):
        return True
    r = reachable(cfg, b, avoid=[a])
    return not any(_k(e) in r for e in exits)


def all_paths_through(cfg: CFG, a: Any, exits: Iterable[Any] = (EXIT,)) -> bool:
    """Every path ENTRY -> exit passes through a."""
    r = reachable(cfg, ENTRY, avoid=[a])
    return not any(_k(e) in r for e in exits)


def in_body(container: ast.stmt, st: ast.stmt, fields: Tuple[str, ...] = ("body",)) -> bool:
    for fld in fields:
        for sub in getattr(container, fld, []) or []:
            for n in ast.walk(sub):
                if n is st:
                    return True
    return False


def dominates_all(cfg: CFG, guard: ast.If, st: ast.stmt) -> bool:
    """`guard` is an `if` whose body always leaves the function abnormally.  True when every
    path to `st` has evaluated the guard (and therefore took its false edge)."""
    if in_body(guard, st, ("body",)):
        return False
    return dominates(cfg, guard, st)


def can_follow(cfg: CFG, a: Any, b: Any) -> bool:
    """Is there a path from a to b (b executed after a)?"""
    return _k(b) in reachable(cfg, a)


def enclosing_stmt(cfg: CFG, fn: ast.AST, node: ast.AST) -> Optional[ast.stmt]:
    """The CFG statement whose header contains the expression node."""
    best: Optional[ast.stmt] = None
    for st in cfg.stmts():
        if isinstance(st, ast.ExceptHandler):
            continue
        for h in _header_exprs(st):
            for n in ast.walk(h):
                if n is node:
                    return st
    return best
