"""Dispatch tables of the child normaliser (_tagchilds_to_tagnodes, flatten) derived by Engine A.
Shared by C02 (numbers rendered as plain text), C14 and C09."""

from __future__ import annotations

import ast
from typing import Any, Dict, FrozenSet, List, Optional, Tuple

from .frontend import AnalysisError, Program
from .interp import Config, Interp
from .values import ALL_KINDS, ANY_VALUE_KINDS, Frag, SList, SNew, SObj, SOpaque, SStr, Sym, Unmodelled, short

CORE = "htmltools._core"
UTIL = "htmltools._util"

# kinds a user can pass as a child argument (values of arbitrary type)
ARG_KINDS = ANY_VALUE_KINDS


class NormRow:
    def __init__(self, kinds: FrozenSet[str], outcome: str, action: str, value: Any, effects: List[Any]):
        self.kinds = kinds
        self.outcome = outcome    # keep | convert | raise | drop | recurse | append
        self.action = action
        self.value = value
        self.effects = effects

    def __repr__(self) -> str:
        return f"{sorted(self.kinds)} -> {self.outcome} {self.action}"


def _classify_value(v: Any, item: SObj) -> str:
    if v is item:
        return "keep"
    if isinstance(v, SStr) and len(v.frags) == 1 and v.frags[0].kind == "OF" and v.frags[0].a[0] == item.uid \
            and v.frags[0].b in ("NUM", "PLAIN") and not v.frags[0].c:
        return "convert"
    if isinstance(v, str) and v in ("True", "False") and item.kinds <= {"TRUE", "FALSE"}:
        return "convert"
    return "other"


def tagchilds_table(prog: Program) -> Dict[str, Any]:
    """kind of a flattened item -> what _tagchilds_to_tagnodes does with it (keep | convert | raise | drop | other).

    Shape-agnostic: the per-item decision may be written as an in-place patch of the flattened list, as a loop appending to
    a fresh list, or as a comprehension over flatten(x) (possibly through a helper)."""
    I = Interp(prog)
    fn = prog.function(CORE, "_tagchilds_to_tagnodes")
    p = fn.args.args[0].arg

    def mk(run: Any) -> Tuple[Dict[str, Any], Any]:
        x = SObj("x", {"LIST", "TUPLE", "TAGLIST", "STR", "RANGE"})
        run.__dict__["x"] = x
        return ({p: x}, None)

    cfg0 = Config()
    cfg0.opaque = {"flatten"}
    cfg0.loop_effects = False
    summary = I.run_function(CORE, "_tagchilds_to_tagnodes", mk, cfg0)
    pre = [l for l in summary if l.run.__dict__["x"].kinds <= {"STR", "JSXEXPR"}]
    rows: List[NormRow] = []
    maps = [l for l in summary if l not in pre and ((l.kind == "return" and isinstance(l.value, SList) and l.value.mode == "map")
                                                    or (l.kind == "raise" and not l.run.loops))]
    if maps and any(l.kind == "return" for l in maps):
        # comprehension shape: one leaf per decision about the generic element
        for l in maps:
            var = l.value.var if l.kind == "return" else l.run.__dict__.get("last_generic_var")
            if not isinstance(var, SObj):
                raise Unmodelled("_tagchilds_to_tagnodes: comprehension element not identified")
            if l.kind == "raise":
                rows.append(NormRow(frozenset(var.kinds), "raise", l.value.cls_name if isinstance(l.value, SNew) else "?", None, []))
            else:
                if l.value.cond:
                    # a filter: the kinds it can remove are dropped items (flatten has removed None already)
                    dk = l.value.__dict__.get("drop_kinds")
                    if dk is None:
                        raise Unmodelled("_tagchilds_to_tagnodes: filtered comprehension")
                    for k_ in sorted(set(dk) - {"NONE"}):
                        if not any(r_.outcome == "drop" and k_ in r_.kinds for r_ in rows):
                            rows.append(NormRow(frozenset({k_}), "drop", f"by the filter `{l.value.cond[0]}`", None, []))
                            rows[-1].__dict__["iter_value"] = l.value.base
                            rows[-1].__dict__["leaf"] = l
                c = _classify_value(l.value.elt, var)
                rows.append(NormRow(frozenset(var.kinds), c, "map", l.value.elt, []))
                rows[-1].__dict__["item"] = var
                rows[-1].__dict__["target"] = l.value
            rows[-1].__dict__["iter_value"] = l.value.base if l.kind == "return" else None
            rows[-1].__dict__["leaf"] = l
        return {"rows": rows, "pre": pre, "shape": "comprehension"}
    # loop shape
    rets = [l for l in summary if l not in pre and l.kind == "return"]
    cfg = Config()
    cfg.opaque = {"flatten"}
    key = None
    for l0 in summary:
        for rec0 in l0.run.loops:      # the per-item loop, in the function itself or in a helper / generator it consumes
            if key is None:
                key = rec0.__dict__.get("loop_key")
    cfg.stop_at_loop = key or ("_tagchilds_to_tagnodes", 0)
    leaves = I.run_function(CORE, "_tagchilds_to_tagnodes", mk, cfg)
    for l in leaves:
        rec = getattr(l.run, "stop_loop_record", None)
        if rec is None:
            continue
        el = rec.__dict__.get("element")
        item = None
        if isinstance(el, SList) and el.mode == "concrete" and len(el.items) == 2:
            item = el.items[1]
        elif isinstance(el, SObj):
            item = el
        if not isinstance(item, SObj):
            raise Unmodelled("_tagchilds_to_tagnodes: loop does not iterate (index, item) or item")
        it = rec.iter_value
        d = getattr(it, "iter_descr", None)
        base = d[1] if d is not None and d[0] == "enumerate" else it
        start = rec.__dict__.get("body_effect_start", 0)
        stores = [e for e in l.effects[start:] if e.kind in ("store_item", "mutcall", "store_slice")]
        inplace = [e for e in stores if e.kind == "store_item" and e.target is base]
        appends = [e for e in stores if e.kind == "mutcall" and e.key == "append" and e.target is not base]
        def _is_flat(o: Any) -> bool:
            return isinstance(o, SObj) and getattr((o.meta.get("call") or {}).get("func"), "qual", "") == "flatten"
        returned_is_base = _is_flat(base) and any(_is_flat(r.value) for r in rets)
        if l.kind == "raise":
            rows.append(NormRow(frozenset(item.kinds), "raise", l.value.cls_name if isinstance(l.value, SNew) else "?", None, stores))
        elif l.kind in ("fall", "continue"):
            if inplace:
                c = _classify_value(inplace[-1].value, item)
                rows.append(NormRow(frozenset(item.kinds), c if c != "keep" else "keep", "store_item", inplace[-1].value, stores))
                rows[-1].__dict__["target"] = inplace[-1].target
            elif appends:
                c = _classify_value(appends[-1].value[0] if appends[-1].value else None, item)
                rows.append(NormRow(frozenset(item.kinds), c, "append", appends[-1].value[0] if appends[-1].value else None, stores))
                rows[-1].__dict__["target"] = appends[-1].target
            elif not stores:
                rows.append(NormRow(frozenset(item.kinds), "keep" if returned_is_base else "drop", "", None, stores))
            else:
                rows.append(NormRow(frozenset(item.kinds), "other", stores[-1].kind, stores[-1].value, stores))
            rows[-1].__dict__["item"] = item
        else:
            rows.append(NormRow(frozenset(item.kinds), l.kind, "", l.value, stores))
        rows[-1].__dict__["iter_value"] = rec.iter_value
        rows[-1].__dict__["leaf"] = l
    return {"rows": rows, "pre": pre, "shape": "loop"}


def flatten_table(prog: Program) -> List[NormRow]:
    """kind of an element of the argument of flatten() -> recurse | drop | append (the loop of _flatten_recurse, entered
    through flatten() itself so that extra helper parameters are bound as the code binds them)."""
    I = Interp(prog)
    cfg = Config()
    cfg.stop_at_loop = ("_flatten_recurse", 0)
    fn = prog.function(UTIL, "flatten")
    p = fn.args.args[0].arg

    def mk(run: Any) -> Tuple[Dict[str, Any], Any]:
        x = SObj("x", {"LIST"})
        run.__dict__["x"] = x
        return ({p: x}, None)

    rows: List[NormRow] = []
    for l in I.run_function(UTIL, "flatten", mk, cfg):
        rec = getattr(l.run, "stop_loop_record", None)
        if rec is None:
            continue
        el = rec.__dict__.get("element")
        if not isinstance(el, SObj):
            raise Unmodelled("_flatten_recurse: loop target is not a single item")
        eff = l.effects[rec.__dict__.get("body_effect_start", 0):]
        calls = [e for e in eff if e.kind == "call" and getattr(e.target, "qual", "") == "_flatten_recurse"]
        appends = [e for e in eff if e.kind == "mutcall" and isinstance(e.target, SList) and e.key in ("append", "extend", "insert", "__iadd__")]
        other = [e for e in eff if e.kind in ("mutcall", "store_item", "store_slice") and e not in appends]
        if l.kind == "raise":
            rows.append(NormRow(frozenset(el.kinds), "raise", "", None, eff))
        elif calls and not appends:
            ok = len(calls) == 1 and calls[0].value and calls[0].value[0] is el and any(isinstance(a, SList) for a in calls[0].value[1:])
            rows.append(NormRow(frozenset(el.kinds), "recurse" if ok else "recurse?", "", None, eff))
        elif appends and not calls:
            ok = len(appends) == 1 and appends[0].key == "append" and appends[0].value and appends[0].value[0] is el
            rows.append(NormRow(frozenset(el.kinds), "append" if ok else f"append?{short(appends[0].value)}", appends[0].key, None, eff))
        elif not appends and not calls:
            rows.append(NormRow(frozenset(el.kinds), "drop", "", None, eff))
        else:
            rows.append(NormRow(frozenset(el.kinds), "mixed", "", None, eff))
        rows[-1].__dict__["other_effects"] = other
        rows[-1].__dict__["iter_value"] = rec.iter_value
        rows[-1].__dict__["arg"] = l.run.__dict__["x"]
    if not rows:
        raise Unmodelled("flatten: the element loop of _flatten_recurse was not reached")
    return rows


def flatten_reach(prog: Program) -> Optional[List[Tuple[str, List[str]]]]:
    """Paths of the recursive worker that end normally without entering its element loop, whatever the extra arguments hold
    (the recursion hands them on, so inside a nested container they are not what flatten() passed at the top): a list of
    (outcome, conditions); [] when every normal path iterates the argument (or has established that it is empty); None when
    the worker cannot be run on its own."""
    I = Interp(prog)
    cfg = Config()
    cfg.stop_at_loop = ("_flatten_recurse", 0)
    try:
        fn = prog.function(UTIL, "_flatten_recurse")
    except Exception:
        return None
    params = [a.arg for a in fn.args.posonlyargs + fn.args.args + fn.args.kwonlyargs]
    if not params:
        return None

    def mk(run: Any) -> Tuple[Dict[str, Any], Any]:
        env: Dict[str, Any] = {params[0]: SObj("x", {"LIST"})}
        for q in params[1:]:
            ann = next((a.annotation for a in fn.args.args + fn.args.kwonlyargs if a.arg == q), None)
            txt = ast.unparse(ann).lower() if ann is not None else ""
            kind = "SET" if txt.startswith(("set", "frozenset")) else "DICT" if txt.startswith("dict") else "LIST" if txt.startswith("list") else None
            env[q] = SObj(q, {kind} if kind else {"INT"}, origin="opaque")
        return (env, None)

    bad: List[Tuple[str, List[str]]] = []
    seen_loop = False
    try:
        for l in I.run_function(UTIL, "_flatten_recurse", mk, cfg):
            if getattr(l.run, "stop_loop_record", None) is not None:
                seen_loop = True
                continue
            if l.kind not in ("return", "fall"):
                continue
            dom = getattr(l.run, "count_dom", {}) or {}
            if dom and all(set(v) == {0} for v in dom.values()):
                continue
            bad.append((l.kind, [str(lbl) for _, lbl in l.atoms]))
    except Unmodelled:
        return None
    return bad if seen_loop else None


def predicate_table(prog: Program, name: str) -> Dict[str, Any]:
    """kind -> True/False/'mixed' for the one-argument predicates is_tag_node / is_tag_child."""
    I = Interp(prog)
    fn = prog.function(CORE, name)
    p = fn.args.args[0].arg
    out: Dict[str, Any] = {}
    for k in sorted(ARG_KINDS):
        def mk(run: Any, k: str = k) -> Tuple[Dict[str, Any], Any]:
            return ({p: SObj("x", {k})}, None)

        res = set()
        for l in I.run_function(CORE, name, mk, Config()):
            if l.kind == "return":
                v = l.value
                res.add(v if isinstance(v, bool) else "sym")
            else:
                res.add(l.kind)
        out[k] = next(iter(res)) if len(res) == 1 else "mixed"
    return out
