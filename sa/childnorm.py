"""Dispatch tables of the child normaliser (_tagchilds_to_tagnodes, flatten) derived by Engine A.
Shared by C02 (numbers rendered as plain text), C14 and C09."""

from __future__ import annotations

from typing import Any, Dict, FrozenSet, List, Optional, Tuple

from .frontend import AnalysisError, Program
from .interp import Config, Interp
from .values import ALL_KINDS, ANY_VALUE_KINDS, Frag, SList, SNew, SObj, SOpaque, SStr, Sym, Unmodelled, short

CORE = "htmltools._core"
UTIL = "htmltools._util"

# kinds a user can pass as a child argument (values of arbitrary type)
ARG_KINDS = ANY_VALUE_KINDS


class NormRow:
    def __init__(self, kinds: FrozenSet[str], outcome: str, action: str, value: Any, effects: List[Any]):
        self.kinds = kinds
        self.outcome = outcome    # keep | convert | raise | drop | recurse | append
        self.action = action
        self.value = value
        self.effects = effects

    def __repr__(self) -> str:
        return f"{sorted(self.kinds)} -> {self.outcome} {self.action}"


def tagchilds_table(prog: Program) -> Dict[str, Any]:
    """kind of a flattened item -> what _tagchilds_to_tagnodes does with it."""
    I = Interp(prog)
    cfg = Config()
    cfg.stop_at_loop = ("_tagchilds_to_tagnodes", 0)
    holder: Dict[str, Any] = {}

    def mk(run: Any) -> Tuple[Dict[str, Any], Any]:
        fn = prog.function(CORE, "_tagchilds_to_tagnodes")
        p = fn.args.args[0].arg
        return ({p: SObj("x", {"LIST", "TUPLE", "TAGLIST", "STR", "RANGE"})}, None)

    leaves = I.run_function(CORE, "_tagchilds_to_tagnodes", mk, cfg)
    rows: List[NormRow] = []
    pre: List[Any] = []
    for l in leaves:
        rec = getattr(l.run, "stop_loop_record", None)
        if rec is None:
            pre.append(l)
            continue
        el = rec.__dict__.get("element")
        item = None
        if isinstance(el, SList) and el.mode == "concrete" and len(el.items) == 2:
            item = el.items[1]
        elif isinstance(el, SObj):
            item = el
        if not isinstance(item, SObj):
            raise Unmodelled("_tagchilds_to_tagnodes: loop does not iterate (index, item) or item")
        start = rec.__dict__.get("body_effect_start", 0)
        stores = [e for e in l.effects[start:] if e.kind in ("store_item", "mutcall", "store_slice")]
        if l.kind == "raise":
            exc = l.value.cls_name if isinstance(l.value, SNew) else "?"
            rows.append(NormRow(frozenset(item.kinds), "raise", exc, None, stores))
        elif l.kind in ("fall", "continue"):
            if not stores:
                rows.append(NormRow(frozenset(item.kinds), "keep", "", None, stores))
            else:
                e = stores[-1]
                rows.append(NormRow(frozenset(item.kinds), "convert", e.kind, e.value, stores))
                rows[-1].__dict__["item"] = item
                rows[-1].__dict__["target"] = e.target
        else:
            rows.append(NormRow(frozenset(item.kinds), l.kind, "", l.value, stores))
        rows[-1].__dict__["iter_value"] = rec.iter_value
        rows[-1].__dict__["leaf"] = l
    return {"rows": rows, "pre": pre}


def flatten_table(prog: Program) -> List[NormRow]:
    I = Interp(prog)
    cfg = Config()
    cfg.stop_at_loop = ("_flatten_recurse", 0)

    def mk(run: Any) -> Tuple[Dict[str, Any], Any]:
        fn = prog.function(UTIL, "_flatten_recurse")
        ps = [a.arg for a in fn.args.args]
        if len(ps) != 2:
            raise Unmodelled("_flatten_recurse signature changed")
        res = SList("carried", name="result")
        run.__dict__["result_list"] = res
        return ({ps[0]: SObj("x", {"LIST"}), ps[1]: res}, None)

    rows: List[NormRow] = []
    for l in I.run_function(UTIL, "_flatten_recurse", mk, cfg):
        rec = getattr(l.run, "stop_loop_record", None)
        if rec is None:
            continue
        el = rec.__dict__.get("element")
        if not isinstance(el, SObj):
            raise Unmodelled("_flatten_recurse: loop target is not a single item")
        res = l.run.__dict__["result_list"]
        l.effects[:] = l.effects[rec.__dict__.get("body_effect_start", 0):]
        calls = [e for e in l.effects if e.kind == "call" and getattr(e.target, "qual", "") == "_flatten_recurse"]
        appends = [e for e in l.effects if e.kind == "mutcall" and e.target is res]
        other = [e for e in l.effects if e.kind in ("mutcall", "store_item", "store_slice") and e.target is not res]
        if l.kind == "raise":
            rows.append(NormRow(frozenset(el.kinds), "raise", "", None, l.effects))
        elif calls and not appends:
            ok = len(calls) == 1 and calls[0].value and calls[0].value[0] is el and calls[0].value[1] is res
            rows.append(NormRow(frozenset(el.kinds), "recurse" if ok else "recurse?", "", None, l.effects))
        elif appends and not calls:
            ok = len(appends) == 1 and appends[0].key == "append" and appends[0].value and appends[0].value[0] is el
            rows.append(NormRow(frozenset(el.kinds), "append" if ok else f"append?{short(appends[0].value)}", appends[0].key, None, l.effects))
        elif not appends and not calls:
            rows.append(NormRow(frozenset(el.kinds), "drop", "", None, l.effects))
        else:
            rows.append(NormRow(frozenset(el.kinds), "mixed", "", None, l.effects))
        rows[-1].__dict__["other_effects"] = other
        rows[-1].__dict__["iter_value"] = rec.iter_value
    return rows


def predicate_table(prog: Program, name: str) -> Dict[str, Any]:
    """kind -> True/False/'mixed' for the one-argument predicates is_tag_node / is_tag_child."""
    I = Interp(prog)
    fn = prog.function(CORE, name)
    p = fn.args.args[0].arg
    out: Dict[str, Any] = {}
    for k in sorted(ARG_KINDS):
        def mk(run: Any, k: str = k) -> Tuple[Dict[str, Any], Any]:
            return ({p: SObj("x", {k})}, None)

        res = set()
        for l in I.run_function(CORE, name, mk, Config()):
            if l.kind == "return":
                v = l.value
                res.add(v if isinstance(v, bool) else "sym")
            else:
                res.add(l.kind)
        out[k] = next(iter(res)) if len(res) == 1 else "mixed"
    return out
