"""Thorough tier: the checker tested both ways (DESIGN 3.8.2).

For the property being checked, every confirmed seeded change under /verif/seeded/<id>-k (a patch that breaks the
property while the test-suite still passes) is applied to a scratch copy of the *current* /repo and the property's own
analysis is re-run on it in-process: it must refute an obligation.  Every behaviour-preserving refactoring under
/verif/twins/<id>-k must leave it silent.  Tallies go into the evidence; a miss is printed as SELFTEST-MISS and never
changes the verdict of the property on /repo."""

from __future__ import annotations

import importlib
import json
import os
import shutil
import subprocess
import tempfile
from typing import Any, Dict, List, Tuple

from .frontend import AnalysisError, Program
from .report import VERIF, Ctx


def _scratch(root: str, patch: str) -> Tuple[str, str]:
    tmp = tempfile.mkdtemp(prefix="sa_selftest_")
    for rel in ("htmltools", "scripts"):
        src = os.path.join(root, rel)
        if os.path.isdir(src):
            shutil.copytree(src, os.path.join(tmp, rel), ignore=shutil.ignore_patterns("__pycache__"))
    r = subprocess.run(["git", "apply", "--unsafe-paths", "--directory", tmp, patch], cwd=tmp, capture_output=True, text=True)
    if r.returncode != 0:
        r2 = subprocess.run(["patch", "-p1", "-s", "-i", patch], cwd=tmp, capture_output=True, text=True)
        if r2.returncode != 0:
            shutil.rmtree(tmp, ignore_errors=True)
            return "", (r.stderr or r2.stderr)[:200]
    return tmp, ""


def _run(pid: str, root: str) -> Tuple[str, List[str]]:
    prog = Program(root)
    ctx = Ctx(pid, "quick", 0, prog, quiet=True)
    mod = importlib.import_module(f"sa.props.{pid.lower()}")
    try:
        mod.check(ctx)
    except AnalysisError as e:
        if ctx.findings:
            return "violation", [f.key for f in ctx.findings]
        return "cannot-decide", [str(e)[:160]]
    except Exception as e:  # pragma: no cover
        return "checker-crash", [repr(e)[:160]]
    from .report import load_known
    known = load_known()
    new = [f for f in ctx.findings if not (f.key in known and known[f.key]["property"] == pid)]
    return ("violation", [f.key for f in new]) if new else ("silent", [])


def run(ctx: Ctx) -> None:
    pid = ctx.pid
    root = ctx.prog.root
    out: Dict[str, Any] = {"mutants": [], "twins": []}
    for kind, folder, want in (("mutants", "seeded", "violation"), ("twins", "twins", "silent")):
        base = os.path.join(VERIF, folder)
        if not os.path.isdir(base):
            continue
        for d in sorted(os.listdir(base)):
            meta_p = os.path.join(base, d, "meta.json")
            patch = os.path.join(base, d, "patch.diff")
            if not (os.path.isfile(meta_p) and os.path.isfile(patch)):
                continue
            meta = json.load(open(meta_p))
            props = meta.get("properties_silent") if kind == "twins" else [meta.get("property")]
            if kind == "twins" and props is None:
                props = [meta.get("property")]
            if pid not in (props or []):
                continue
            tmp, err = _scratch(root, patch)
            if not tmp:
                out[kind].append({"id": d, "result": "SKIPPED", "why": "patch does not apply to the current tree: " + err})
                continue
            try:
                res, detail = _run(pid, tmp)
            finally:
                shutil.rmtree(tmp, ignore_errors=True)
            ok = res == want
            out[kind].append({"id": d, "result": res, "expected": want, "ok": ok, "detail": detail[:3]})
            if not ok:
                print(f"SELFTEST-MISS property={pid} {kind[:-1]}={d} expected={want} got={res} {detail[:1]}")
    m = out["mutants"]
    t = out["twins"]
    ctx.extra["selftest"] = {
        "mutants_applicable": len([x for x in m if x["result"] != "SKIPPED"]),
        "mutants_reported": len([x for x in m if x.get("ok")]),
        "mutants_undecided": len([x for x in m if x["result"] == "cannot-decide"]),
        "twins_applicable": len([x for x in t if x["result"] != "SKIPPED"]),
        "twins_silent": len([x for x in t if x.get("ok")]),
        "twins_undecided": len([x for x in t if x["result"] == "cannot-decide"]),
        "twins_false_alarm": len([x for x in t if x["result"] == "violation"]),
        "skipped": len([x for x in m + t if x["result"] == "SKIPPED"]),
        "details": m + t,
    }
    s = ctx.extra["selftest"]
    if not ctx.quiet:
        print(f"[{pid}] selftest: mutants {s['mutants_reported']}/{s['mutants_applicable']} reported "
              f"({s['mutants_undecided']} undecided), twins {s['twins_silent']}/{s['twins_applicable']} silent "
              f"({s['twins_undecided']} undecided, {s['twins_false_alarm']} false alarms), skipped {s['skipped']}")
