"""Lists / dicts / strings that a function builds with an explicit loop (`out = []; for x in S: [if c:] out.append(f(x))`)
described from an Engine A leaf, so that checks can treat them like the equivalent comprehension."""

from __future__ import annotations

from typing import Any, Dict, List, Optional

from .values import SDict, SList, SObj, SSplat, Sym


def element_of(rec: Any) -> Any:
    return rec.__dict__.get("element")


def contributions(leaf: Any, container: Any) -> List[Dict[str, Any]]:
    """Every write into `container` on this path, in program order:
    {'how': append|extend|setitem, 'value', 'key', 'loop': LoopRecord|None, 'element': generic loop element|None, 'iter': iterated value|None}."""
    out: List[Dict[str, Any]] = []
    recs = {r.__dict__.get("loop_key"): r for r in leaf.run.loops}
    for e in leaf.effects:
        if e.target is not container:
            continue
        if e.kind == "mutcall" and e.key in ("append", "extend", "__iadd__", "add", "insert"):
            how = "append" if e.key in ("append", "add") else "extend" if e.key in ("extend", "__iadd__") else "insert"
            val = e.value[-1] if e.value else None
            key = None
        elif e.kind == "store_item":
            how, val, key = "setitem", e.value, e.key
        else:
            continue
        lid = e.__dict__.get("in_loop")
        rec = e.__dict__.get("in_loop_rec") or (recs.get(lid) if lid is not None else None)
        out.append({"how": how, "value": val, "key": key, "loop": rec, "element": element_of(rec) if rec is not None else None,
                    "iter": rec.iter_value if rec is not None else None, "effect": e})
    # items the container already held when it became loop-carried
    return out


def initial_items(container: Any) -> List[Any]:
    ent = container.__dict__.get("entry") if isinstance(container, (SList, SDict)) else None
    if isinstance(ent, list):
        return list(ent)
    if isinstance(ent, SList):
        return list(ent.items)
    if isinstance(ent, dict):
        return list(ent.items())
    return []


def iter_base(it: Any) -> Any:
    """Strip enumerate()/reversed()/items() wrappers from an iterated value."""
    d = getattr(it, "iter_descr", None)
    while d is not None and d[0] in ("enumerate", "reversed", "items", "keys", "values"):
        it = d[1]
        d = getattr(it, "iter_descr", None)
    return it
