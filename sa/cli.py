"""Command line: python -m sa.cli check <id> [--tier quick|thorough] [--replay file]."""

from __future__ import annotations

import argparse
import importlib
import importlib.abc
import json
import os
import sys
import traceback


class _Blocker(importlib.abc.MetaPathFinder):
    """Static analysis only: importing the package under analysis is a bug in the checker."""

    def find_spec(self, fullname, path=None, target=None):  # type: ignore[override]
        if fullname == "htmltools" or fullname.startswith("htmltools."):
            raise ImportError("sa: importing htmltools is forbidden (static analysis only)")
        return None


def main(argv=None) -> int:
    ap = argparse.ArgumentParser(prog="sa")
    sub = ap.add_subparsers(dest="cmd", required=True)
    c = sub.add_parser("check")
    c.add_argument("pid")
    c.add_argument("--tier", default=os.environ.get("VERIF_TIER", "quick"), choices=["quick", "thorough"])
    c.add_argument("--replay", default=None)
    c.add_argument("--repo", default=None)
    a = ap.parse_args(argv)

    sys.meta_path.insert(0, _Blocker())
    from .frontend import AnalysisError, Program, check_reflection_precondition
    from .report import Ctx

    pid = a.pid.upper()
    seed = int(os.environ.get("VERIF_SEED", "0") or 0)
    ctx = None
    try:
        prog = Program(a.repo) if a.repo else Program()
        ctx = Ctx(pid, a.tier, seed, prog)
        bad = check_reflection_precondition(prog)
        if bad:
            raise AnalysisError("reflection precondition: unmodelled reflective construct(s): "
                                + "; ".join(f"{b['module']}:{b['where']} {b['text']}" for b in bad[:5]))
        mod = importlib.import_module(f"sa.props.{pid.lower()}")
        mod.check(ctx)
        if a.tier == "thorough":
            if hasattr(mod, "thorough"):
                mod.thorough(ctx)
            from . import selftest
            selftest.run(ctx)
        if a.replay:
            with open(a.replay) as fh:
                want = json.load(fh).get("key")
            ctx.findings = [f for f in ctx.findings if f.key == want]
            print(f"[{pid}] replay of {want}: {'still refuted' if ctx.findings else 'no longer refuted'}")
        assert "htmltools" not in sys.modules
        rc = ctx.finish()
        return rc
    except AnalysisError as e:
        print(f"ANALYSIS-ERROR: property={pid} {e}")
        try:
            # obligations already refuted on positive evidence stand, whatever else could not be decided
            if ctx is not None and ctx.findings:
                ctx.info(f"analysis incomplete: {e}")
                rc = ctx.finish()
                if rc == 1:
                    return 1
        except Exception:
            pass
        return 2
    except Exception:
        traceback.print_exc()
        print(f"ANALYSIS-ERROR: property={pid} internal error in the checker (see traceback)")
        return 2


if __name__ == "__main__":
    sys.exit(main())
