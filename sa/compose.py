"""Thorough tier, model composition (DESIGN 3.8.1): the extracted element frame and sibling transducer are composed
over abstract trees and compared token-for-token with the composed specification renderer.  No repository code runs:
both sides are tables derived by the analysis / written from the property."""

from __future__ import annotations

import itertools
from typing import Any, Dict, List, Optional, Tuple

from .layout import (Child, FrameScenario, Model, META_KINDS, initial_state, sib_apply_all, sib_matches, spec_frame,
                     spec_sib_step, strip_names)
from .rendercheck import NOESC2, VOID16, frames
from .values import Unmodelled

# abstract trees: ("L", kind) leaf | ("T", add_ws, name, children)
LEAVES = [("L", "STR"), ("L", "HTMLSTR"), ("L", "REPR_ONLY"), ("L", "META")]
INNER = [(), (("L", "STR"),), (("L", "STR"), ("T", False, "span", ())), (("T", True, "div", ()),), (("L", "META"),)]


def child_of(n: Tuple[Any, ...]) -> Child:
    if n[0] == "L":
        return Child(n[1])
    return Child("TAG", n[1])


def has_block(n: Tuple[Any, ...]) -> bool:
    if n[0] == "L":
        return False
    return n[1] or any(has_block(c) for c in n[3])


def valid_c06(n: Tuple[Any, ...]) -> bool:
    """No inline tag contains a block tag."""
    if n[0] == "L":
        return True
    if not n[1] and any(has_block(c) for c in n[3]):
        return False
    return all(valid_c06(c) for c in n[3])


class Composer:
    def __init__(self, m: Model):
        self.m = m
        self.frame_tab: Dict[Tuple[Any, ...], List[Tuple[Any, ...]]] = {}
        for sc, hits in frames(m):
            key = (sc.n_vis, sc.n_meta, sc.name, sc.add_ws, sc.single_kind, sc.first_is_meta)
            from .layout import indent_is_zero
            generic = [h for h in hits if not indent_is_zero(h[0].atoms)] or hits    # paths that only exist for indent == 0 are instances of these
            toks = {tuple(strip_names(t)) for _, t, _ in generic}
            self.frame_tab[key] = [list(t) for t in toks]

    # ---- implementation model -------------------------------------------------------------------------
    def frame(self, n: Tuple[Any, ...]) -> List[Tuple[Any, ...]]:
        kids = n[3]
        vis = [c for c in kids if not (c[0] == "L" and c[1] in META_KINDS)]
        nm = len(kids) - len(vis)
        name = n[2]
        cls = name if (name in VOID16 or name in NOESC2) else "<other>"
        single = None
        if len(vis) == 1:
            single = vis[0][1] if vis[0][0] == "L" else "TAG"
        fim = None
        if nm:
            fim = kids[0][0] == "L" and kids[0][1] in META_KINDS
        key = (min(len(vis), 2), min(nm, 2), cls, n[1], single if len(vis) == 1 else None, fim)
        alts = self.frame_tab.get(key)
        if not alts:
            raise Unmodelled(f"composition: no frame for {key}")
        return alts[0]

    def render_tag(self, n: Tuple[Any, ...], indent: int, eol_on: bool, impl: bool) -> List[Tuple[Any, ...]]:
        kids = n[3]
        if impl:
            toks = self.frame(n)
        else:
            vis = [c for c in kids if not (c[0] == "L" and c[1] in META_KINDS)]
            single = (vis[0][1] if vis[0][0] == "L" else "TAG") if len(vis) == 1 else None
            toks = spec_frame(min(len(vis), 2), n[2] in VOID16, n[2] in NOESC2, n[1], single)
        out: List[Tuple[Any, ...]] = []
        for t in toks:
            if t[0] == "INDENT":
                if indent + t[1]:
                    out.append(("IND", indent + t[1]))
            elif t[0] == "EOL":
                if eol_on:
                    out.append(("EOL",))
            elif t[0] == "CHILDREN":
                ci = self.arg_indent(t[1], indent)
                ce = self.arg_eol(t[2], eol_on)
                add_ws = t[3][1] if t[3][0] == "const" else n[1]
                esc = t[4][1] if len(t) > 4 and t[4][0] == "const" else True
                out += self.render_list(kids, ci, ce, bool(add_ws), bool(esc), impl)
            elif t[0] == "TEXT":
                out.append(("TEXT",) + tuple(t[1:3]))
            else:
                out.append(t)
        return out

    @staticmethod
    def arg_indent(a: Tuple[Any, ...], indent: int) -> int:
        if a[0] == "indent":
            return indent + a[1]
        if a[0] == "const":
            return int(a[1])
        raise Unmodelled(f"composition: indent argument {a}")

    @staticmethod
    def arg_eol(a: Tuple[Any, ...], eol_on: bool) -> bool:
        if a[0] == "var":
            return eol_on
        if a[0] == "const":
            return a[1] != ""
        raise Unmodelled(f"composition: eol argument {a}")

    def render_list(self, kids: Tuple[Any, ...], indent: int, eol_on: bool, add_ws: bool, escape: bool, impl: bool) -> List[Tuple[Any, ...]]:
        out: List[Tuple[Any, ...]] = []
        params = {"add_ws": add_ws, "_escape_strings": escape}
        state = initial_state(self.m, params) if impl else None
        first, prev_block = True, add_ws
        for k in kids:
            ch = child_of(k)
            if impl:
                rows = sib_matches(self.m, state, ch, params)
                rows = [r_ for r_ in rows if not r_.indent_zero] or rows
                if not rows:
                    raise Unmodelled(f"composition: no row for {ch!r} in {state}")
                r = rows[0]
                if r.outcome == "raise":
                    out.append(("RAISE",))
                    return out
                toks = strip_names(r.tokens)
                state = sib_apply_all(self.m, r, state, ch, params)[0]
            else:
                sp = spec_sib_step(first, prev_block, add_ws, escape, ch)
                if sp["outcome"] == "raise":
                    out.append(("RAISE",))
                    return out
                toks = sp["tokens"]
                if sp["outcome"] != "skip":
                    first, prev_block = sp["first"], sp["prev_block"]
            for t in toks:
                if t[0] == "INDENT":
                    if indent + t[1]:
                        out.append(("IND", indent + t[1]))
                elif t[0] == "EOL":
                    if eol_on:
                        out.append(("EOL",))
                elif t[0] == "TAG":
                    out += self.render_tag(k, self.arg_indent(t[1], indent), self.arg_eol(t[2], eol_on), impl)
                elif t[0] == "TEXT":
                    out.append(("TEXT",) + tuple(t[1:3]))
                else:
                    out.append(t)
        return out


def enumerate_trees(max_len: int, c06_only: bool) -> List[Tuple[str, Tuple[Any, ...]]]:
    """(context, tree or list): every parent frame x every sibling sequence up to max_len over the item classes."""
    items: List[Tuple[Any, ...]] = list(LEAVES)
    for add_ws in (True, False):
        for inner in INNER:
            items.append(("T", add_ws, "div" if add_ws else "span", inner))
    items.append(("T", True, "br", ()))
    items.append(("T", True, "script", (("L", "STR"), ("L", "STR"))))
    out: List[Tuple[str, Tuple[Any, ...]]] = []
    for L in range(0, max_len + 1):
        for seq in itertools.product(items, repeat=L):
            for parent in (("T", True, "div", seq), ("T", False, "span", seq)):
                if c06_only and not valid_c06(parent):
                    continue
                out.append(("tag", parent))
            if not c06_only or all(valid_c06(x) for x in seq):
                out.append(("list", ("LIST", seq)))
    return out


def flat(n: Tuple[Any, ...]) -> List[Tuple[Any, ...]]:
    """flat(S): open tag, content, close tag - no layout at all (C05 invariant iii)."""
    if n[0] == "L":
        if n[1] in META_KINDS:
            return []
        return [("CONTENT",)]
    return [("OPEN", n[2])] + [x for c in n[3] for x in flat(c)] + ([("CLOSE", n[2])] if (n[3] or n[2] not in VOID16) and True else [])
