"""Engine B: ownership and effects (DESIGN 3.3), built on Engine A's effect traces.

Every function is analysed on its own (callees opaque). A *mutation site* is an effect that changes an object; its
target is BORROWED when it existed before the call (the receiver, a parameter, a module global, or anything read out
of one) and OWNED when it was created during the call (constructor, literal, copy per the class's own __copy__,
result of a callee whose return summary says 'fresh').  Summaries (which parameters a function may mutate, whether its
result is fresh) are computed bottom-up to a fix-point and applied at call sites."""

from __future__ import annotations

import ast
from typing import Any, Dict, List, Optional, Set, Tuple

from .eval_expr import _Base
from .frontend import AnalysisError, ClassInfo, Program, norm
from .interp import Config, Interp, Leaf, _Raise
from .values import (ALL_KINDS, KINDS, SBool, SBound, SDict, SFunc, SList, SNew, SObj, SOpaque, SSplat, SStr, Sym, Unmodelled, short)

MUT_KINDS = {"store_attr", "store_item", "store_slice", "del_item", "del_attr", "mutcall", "basecall", "global_store"}
_BASE_MUTATORS = {"update", "__setitem__", "__delitem__", "pop", "popitem", "clear", "setdefault", "append", "extend", "insert",
                  "remove", "sort", "reverse", "__iadd__", "__imul__"}


class Site:
    def __init__(self, fn: str, node: Optional[ast.AST], what: str, target: str, root: Optional[str], chain: Tuple[str, ...] = ()):
        self.fn = fn
        self.node = node
        self.what = what
        self.target = target
        self.root = root
        self.chain = chain

    def text(self) -> str:
        return norm(self.node) if self.node is not None else self.what

    def __repr__(self) -> str:
        return f"{self.fn}: {self.text()} [{self.target}]"


class Summary:
    def __init__(self, qual: str):
        self.qual = qual
        self.mutates: Dict[str, List[Site]] = {}      # parameter name -> sites (possibly in callees)
        self.globals: List[Site] = []
        self.ret_fresh: Optional[bool] = None
        self.ret_fields_fresh: Optional[bool] = None
        self.ret_elems_fresh: Optional[bool] = None
        self.ret_alias_self = False
        self.ret_detail: List[str] = []
        self.paths = 0
        self.calls: Set[str] = set()
        self.error: Optional[str] = None

    def key(self) -> Tuple[Any, ...]:
        return (tuple(sorted((p, len(s)) for p, s in self.mutates.items())), len(self.globals), self.ret_fresh,
                self.ret_fields_fresh, self.ret_elems_fresh, self.ret_alias_self)


def _meta(o: Any) -> Dict[str, Any]:
    if isinstance(o, SObj):
        return o.meta
    if isinstance(o, SNew):
        return o.__dict__.get("meta", {})
    return {}


def owner(v: Any) -> str:
    if isinstance(v, _Base):
        return owner(v.obj)
    if isinstance(v, SObj):
        if v.origin in ("input", "global"):
            return "BORROWED"
        if v.origin == "new":
            return "OWNED"
        return "UNKNOWN"
    if isinstance(v, SNew):
        return "OWNED"
    if isinstance(v, (SList, SDict)):
        if getattr(v, "origin", "new") == "new":
            return "OWNED"
        return "BORROWED" if v.origin in ("input", "global") else "UNKNOWN"
    if isinstance(v, SOpaque):
        if "copy_of" in v.__dict__:
            return "OWNED"
        return "UNKNOWN"
    return "OWNED"


def root_of(v: Any, params: Dict[int, str], depth: int = 0) -> Optional[str]:
    if depth > 12:
        return None
    if isinstance(v, _Base):
        return root_of(v.obj, params, depth + 1)
    uid = getattr(v, "uid", None)
    if uid in params:
        return params[uid]
    if isinstance(v, SObj):
        if v.origin == "global":
            return "<global>"
        m = v.meta
        for k in ("attr_of", "item_of", "component_of"):
            if m.get(k) is not None:
                return root_of(m[k][0], params, depth + 1)
        if m.get("list_of") is not None:
            return root_of(m["list_of"], params, depth + 1)
        if v.elem_of is not None:
            return root_of(v.elem_of[0], params, depth + 1)
        if m.get("copy_of") is not None and v.origin != "new":
            return root_of(m["copy_of"], params, depth + 1)
        if m.get("copy_of") is not None and m.get("elem_origin") not in (None, "new"):
            # an element / aliased field of a shallow copy belongs to the source
            return root_of(m["copy_of"], params, depth + 1)
    if isinstance(v, (SList, SDict)) and "entry" in v.__dict__:
        return root_of(v.__dict__["entry"], params, depth + 1)
    return None


class Ownership:
    def __init__(self, prog: Program, skip_modules: Tuple[str, ...] = ()):
        self.prog = prog
        self.skip_modules = skip_modules
        self.I = Interp(prog)
        self.sums: Dict[str, Summary] = {}
        self.fn_index: Dict[str, Tuple[Any, Optional[ClassInfo], ast.FunctionDef]] = {}
        for m in prog.modules.values():
            if not m.name.startswith("htmltools") or m.name in ("htmltools.tags", "htmltools.svg"):
                continue
            for nm, fn in m.functions.items():
                self.fn_index.setdefault(nm, (m, None, fn))
            for ci in m.classes.values():
                for nm, fn in ci.methods.items():
                    self.fn_index.setdefault(f"{ci.name}.{nm}", (m, ci, fn))
        # stdlib bases that the package's classes inherit mutators from
        try:
            coll = prog.stdlib_module("collections")
            for cn in ("UserList", "UserString"):
                ci = coll.classes[cn]
                for nm, fn in ci.methods.items():
                    self.fn_index.setdefault(f"{cn}.{nm}", (coll, ci, fn))
        except Exception:
            pass
        self.analysed: List[str] = []
        self.override_returns: Dict[str, Dict[str, bool]] = {}
        self._dep_key: Dict[str, Any] = {}
        self.unresolved_calls = 0
        self.resolved_calls = 0

    # ------------------------------------------------------------------ one function, modularly
    def _self_kind(self, ci: ClassInfo) -> Any:
        k = self.I.U.kind_of_class(ci)
        if k is not None:
            return SObj("self", {k})
        # a class without its own kind (stdlib base): analyse with the repo subclass receiver
        for kk, ki in KINDS.items():
            rc = self.I.U.repo_class(kk) if ki.repo else None
            if rc is not None and any(c is ci for c in self.prog.mro(rc)):
                return SObj("self", {kk})
        o = SObj("self", {"OTHER"})
        return o

    def analyse(self, qual: str) -> Summary:
        s = Summary(qual)
        if qual not in self.fn_index:
            s.error = "not found"
            return s
        mod, ci, fn = self.fn_index[qual]
        cfg = Config()
        cfg.opaque_all = True
        cfg.coarse_counts = True
        cfg.max_depth = 6
        cfg.inline = set(self.__dict__.get("inline", ()))
        for q, sm in self.sums.items():
            if sm.ret_fresh is not None or sm.ret_alias_self:
                cfg.return_origin[q] = {"fresh": bool(sm.ret_fresh), "fields_fresh": bool(sm.ret_fields_fresh),
                                        "elems_fresh": bool(sm.ret_elems_fresh), "alias_self": sm.ret_alias_self,
                                        "elems_from_inputs": bool(sm.__dict__.get("ret_elems_from_inputs"))}
        for q, ov in self.override_returns.items():
            cfg.return_origin[q] = dict(cfg.return_origin.get(q, {}), **ov)
        a = fn.args
        decos = [ast.unparse(d).split(".")[-1] for d in fn.decorator_list]
        is_method = ci is not None and "staticmethod" not in decos

        def body(run: Any) -> Tuple[Any, ...]:
            binds: Dict[str, Any] = {}
            params: Dict[int, str] = {}
            self_obj = None
            pos = a.posonlyargs + a.args
            for i, p in enumerate(pos):
                if i == 0 and is_method:
                    self_obj = self._self_kind(ci)  # type: ignore[arg-type]
                    self_obj.name = p.arg
                    binds[p.arg] = self_obj
                    params[self_obj.uid] = p.arg
                    continue
                ks = run.ev.kinds_from_annotation(p.annotation, mod) if p.annotation is not None and hasattr(run, "ev") else None
                o = SObj(p.arg, ks or ALL_KINDS)
                binds[p.arg] = o
                params[o.uid] = p.arg
            for p in a.kwonlyargs:
                ks = run.ev.kinds_from_annotation(p.annotation, mod) if p.annotation is not None else None
                o = SObj(p.arg, ks or ALL_KINDS)
                binds[p.arg] = o
                params[o.uid] = p.arg
            if a.vararg is not None:
                o = SObj(a.vararg.arg, {"TUPLE"})
                binds[a.vararg.arg] = o
                params[o.uid] = a.vararg.arg
            if a.kwarg is not None:
                d = SDict(name=a.kwarg.arg, concrete=False)
                d.origin = "input"
                binds[a.kwarg.arg] = d
                params[d.uid] = a.kwarg.arg
            run.__dict__["params"] = params
            run.__dict__["self_obj"] = self_obj
            f = SFunc(mod, fn, self_obj, ci, None, qual)
            try:
                return ("return", run.ev.call_function(f, [], {}, binds=binds, top=True))
            except _Raise as r:
                return ("raise", r.exc)

        import time as _t
        t0 = _t.time()
        try:
            leaves = self.I.explore(body, cfg, max_paths=15000)
        except Unmodelled as e:
            s.error = str(e)
            return s
        self.__dict__.setdefault("timing", {})[qual] = self.__dict__.get("timing", {}).get(qual, 0) + _t.time() - t0
        s.paths = len(leaves)
        fresh_all: List[bool] = []
        fields_all: List[bool] = []
        elems_all: List[bool] = []
        elems_src: List[bool] = []
        alias_self_all: List[bool] = []
        for l in leaves:
            params = l.run.__dict__["params"]
            self._scan_leaf(s, l, params, qual)
            if l.kind == "return":
                v = l.value
                if v is None or not isinstance(v, Sym) or isinstance(v, (SStr, SBool)):
                    continue
                ow = owner(v)
                fresh_all.append(ow == "OWNED")
                alias_self_all.append(v is l.run.__dict__["self_obj"])
                if ow != "OWNED":
                    s.ret_detail.append(f"returns {short(v)} ({ow.lower()})")
                ff, ef = self._fields_fresh(v)
                fields_all.append(ff)
                elems_all.append(ef)
                if not ef:
                    elems_src.append(_meta(v).get("elem_origin") == "input" and isinstance(v, SNew))
        if fresh_all:
            s.ret_fresh = all(fresh_all)
            s.ret_fields_fresh = all(fields_all)
            s.ret_elems_fresh = all(elems_all)
            # every element that is not new is one the caller handed in (the receiver's or an argument's)
            s.__dict__["ret_elems_from_inputs"] = bool(elems_src) and all(elems_src)
            s.ret_alias_self = all(alias_self_all)
        return s

    def _fields_fresh(self, v: Any) -> Tuple[bool, bool]:
        m = _meta(v)
        if isinstance(v, SNew) and "copy_of" not in m:
            # a newly built container still holds whatever was handed to its constructor
            return True, m.get("elem_origin", "new") == "new"
        if (isinstance(v, SObj) and v.origin == "new") or isinstance(v, SNew):
            mode = m.get("copy_mode")
            if mode in ("fieldwise", "deep", "userlist", "dict", "list"):
                fields = True
            elif mode is None and m.get("fresh_fields") is not None:
                fields = bool(m.get("fresh_fields"))
            else:
                fields = mode is None
            # explicitly replaced fields count as fresh when the stored value is owned
            return fields, m.get("elem_origin", "new") == "new" or self._children_fresh(v)
        if isinstance(v, (SList, SDict)):
            return True, True
        return False, False

    def _children_fresh(self, v: Any) -> bool:
        ch = getattr(v, "attrs", {}).get("children")
        if ch is None:
            return False
        return owner(ch) == "OWNED" and _meta(ch).get("elem_origin", "new") == "new"

    def _scan_leaf(self, s: Summary, l: Leaf, params: Dict[int, str], qual: str) -> None:
        for e in l.effects:
            if e.kind in ("call", "new"):
                self._apply_callee(s, l, e, params, qual)
                continue
            if e.kind == "store_attr" and isinstance(e.value, (SObj, SList, SDict, SOpaque)) and owner(e.target) == "BORROWED" \
                    and owner(e.value) != "OWNED" and root_of(e.target, params) is not None and str(e.key) == "data":
                # the storage of a pre-existing container is replaced by a list this function does not own (an argument's, or a
                # callee's result that may be one): two containers share one list from here on
                lst_ = s.__dict__.setdefault("adopts", [])
                st_ = Site(qual, e.node, f"store_attr {e.key}", short(e.value), root_of(e.target, params))
                if not any(x.text() == st_.text() for x in lst_):
                    lst_.append(st_)
            if e.kind not in MUT_KINDS:
                continue
            if e.kind == "basecall":
                nm = str(e.key).split(".")[-1]
                if nm not in _BASE_MUTATORS:
                    continue
            if e.kind == "global_store":
                s.globals.append(Site(qual, e.node, f"store to {e.target}", str(e.target), "<global>"))
                continue
            tgt = e.target
            if owner(tgt) != "BORROWED":
                continue
            r = root_of(tgt, params)
            site = Site(qual, e.node, f"{e.kind} {e.key}", short(tgt), r)
            if r == "<global>":
                s.globals.append(site)
            elif r is not None:
                lst = s.mutates.setdefault(r, [])
                if not any(x.text() == site.text() and x.fn == site.fn for x in lst):
                    lst.append(site)
            else:
                lst = s.mutates.setdefault("<borrowed>", [])
                if not any(x.text() == site.text() for x in lst):
                    lst.append(site)

    def _callee_name(self, e: Any) -> Optional[str]:
        t = e.target
        if isinstance(t, SFunc):
            return t.qual
        if isinstance(t, SNew) and isinstance(t.cls, ClassInfo):
            m = self.prog.find_method(t.cls, "__init__")
            if m is not None:
                return f"{m[0].name}.__init__"
        return None

    def _apply_callee(self, s: Summary, l: Leaf, e: Any, params: Dict[int, str], qual: str) -> None:
        cq = self._callee_name(e)
        if cq is None:
            if e.kind == "call" and isinstance(e.target, SBound) and (e.extra or {}).get("external"):
                self.unresolved_calls += 1
            return
        self.resolved_calls += 1
        s.calls.add(cq)
        cs = self.sums.get(cq)
        if cs is None or (not cs.mutates and not cs.globals):
            return
        if cq not in self.fn_index:
            return
        _, cci, cfn = self.fn_index[cq]
        a = cfn.args
        pos = [p.arg for p in a.posonlyargs + a.args]
        args = list(e.value or [])
        bound: Dict[str, List[Any]] = {}
        decos = [ast.unparse(d).split(".")[-1] for d in cfn.decorator_list]
        recv = e.key if e.kind == "call" else e.target
        if cci is not None and "staticmethod" not in decos and pos:
            bound[pos[0]] = [recv]
            pos = pos[1:]
        i = 0
        for p in pos:
            if i < len(args) and not isinstance(args[i], SSplat):
                bound.setdefault(p, []).append(args[i])
                i += 1
        rest = args[i:]
        if rest:
            tgt = a.vararg.arg if a.vararg is not None else None
            for x in rest:
                val = x.value if isinstance(x, SSplat) else x
                if tgt:
                    bound.setdefault(tgt, []).append(val)
                else:
                    for p in pos:
                        bound.setdefault(p, []).append(val)
        kw = (e.extra or {}).get("kwargs", {}) if isinstance(e.extra, dict) else {}
        for k, v in kw.items():
            if k in pos or k in [p.arg for p in a.kwonlyargs]:
                bound.setdefault(k, []).append(v)
            elif a.kwarg is not None:
                bound.setdefault(a.kwarg.arg, []).append(v)
        for g in cs.globals:
            if not any(x.text() == g.text() and x.fn == g.fn for x in s.globals):
                s.globals.append(Site(g.fn, g.node, g.what, g.target, "<global>", (qual,) + g.chain))
        # a callee's writes to pre-existing objects whose owner could not be named stay what they are for the caller
        for st in cs.mutates.get("<borrowed>", []):
            lst0 = s.mutates.setdefault("<borrowed>", [])
            site0 = Site(st.fn, st.node, st.what, st.target, "<borrowed>", (qual,) + st.chain)
            if not any(x.text() == site0.text() and x.fn == site0.fn for x in lst0):
                lst0.append(site0)
        for p, sites in cs.mutates.items():
            for val in bound.get(p, []):
                if not isinstance(val, Sym):
                    continue
                # a container argument: the callee mutates what it contains
                vals = [val]
                if isinstance(val, SList):
                    vals += [x.value if isinstance(x, SSplat) else x for x in val.items]
                for vv in vals:
                    if owner(vv) != "BORROWED":
                        continue
                    r = root_of(vv, params) or "<borrowed>"
                    for st in sites:
                        site = Site(st.fn, st.node, st.what, f"{short(vv)} (as `{p}` of {cq})", r, (qual,) + st.chain)
                        if r == "<global>":
                            s.globals.append(site)
                        else:
                            lst = s.mutates.setdefault(r, [])
                            if not any(x.text() == site.text() and x.fn == site.fn for x in lst):
                                lst.append(site)

    # ------------------------------------------------------------------ fix-point over a call-graph closure
    def solve(self, entries: List[str], max_rounds: int = 8) -> None:
        work = list(entries)
        seen: List[str] = []
        # discover the closure (analyse once with empty summaries to learn the callees)
        while work:
            q = work.pop()
            if q in seen or q not in self.fn_index:
                continue
            if self.fn_index[q][0].name in self.skip_modules:
                self.__dict__.setdefault("boundary", set()).add(q)
                continue
            seen.append(q)
            sm = self.analyse(q)
            self.sums[q] = sm
            for c in sorted(sm.calls):
                if c not in seen:
                    work.append(c)
        self.analysed = seen
        for _ in range(max_rounds):
            changed = False
            for q in list(seen):
                old = self.sums[q].key()
                dep = tuple(sorted((c, self.sums[c].key()) for c in self.sums[q].calls if c in self.sums))
                if self._dep_key.get(q) == dep:
                    continue      # no callee summary changed since this function was last analysed
                self._dep_key[q] = dep
                sm = self.analyse(q)
                for c in sm.calls:
                    if c not in self.sums and c in self.fn_index and self.fn_index[c][0].name not in self.skip_modules:
                        seen.append(c)
                        self.sums[c] = self.analyse(c)
                        changed = True
                if sm.key() != old:
                    changed = True
                self.sums[q] = sm
            if not changed:
                break
