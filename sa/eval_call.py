"""Engine A, part 3: calls (repo functions inlined, builtins modelled, the rest opaque + logged)."""

from __future__ import annotations

import ast
from typing import Any, Dict, FrozenSet, List, Optional, Tuple

from .frontend import AnalysisError, ClassInfo, NotConst, norm
from .values import (ALL_KINDS, ANY_VALUE_KINDS, KINDS, META_KINDS, NODE_KINDS, Frag, SBool, SBound, SClass, SDict,
                     SExtern, SFunc, SGen, SInt, SList, SNew, SObj, SOpaque, SSplat, SStr, SSuper, SUnknown, Sym, TypeRef,
                     Unmodelled, _ABCS, _BUILTIN_TYPES, _NOVAL, kinds_of_pyvalue, lit, short)

_PURE_STR_METHODS = {"lower", "upper", "strip", "lstrip", "rstrip", "split", "rsplit", "replace", "startswith",
                     "endswith", "join", "format", "encode", "removesuffix", "removeprefix", "title", "capitalize",
                     "splitlines", "isdigit", "find", "count", "partition", "rpartition", "isspace"}
_LIST_MUTATORS = {"append", "extend", "insert", "pop", "remove", "clear", "sort", "reverse", "__setitem__",
                  "__delitem__", "__iadd__"}
_DICT_MUTATORS = {"update", "pop", "popitem", "clear", "setdefault", "__setitem__", "__delitem__"}
_SET_MUTATORS = {"add", "discard", "remove", "clear", "update", "pop"}


class CallMixin:
    # ------------------------------------------------------------------ call expression
    def e_Call(self, e: ast.Call) -> Any:
        # super() needs the frame
        if isinstance(e.func, ast.Name) and e.func.id == "super" and not e.args:
            fr = self.frame
            if fr.cls is None or fr.func.self_obj is None:
                raise self.unmodelled("super() outside a method", e)
            return SSuper(fr.func.self_obj, fr.cls)
        f = self.eval(e.func)
        args: List[Any] = []
        for a in e.args:
            if isinstance(a, ast.Starred):
                sv = self.eval(a.value)
                if isinstance(sv, SGen):
                    sv = self.materialise(sv, a)     # f(*gen): the call receives all items, so the generator runs to its end first
                args.extend(self.splat(sv, a))
            else:
                args.append(self.eval(a))
        kwargs: Dict[str, Any] = {}
        dstar: List[Any] = []
        for k in e.keywords:
            if k.arg is None:
                v = self.eval(k.value)
                if isinstance(v, dict):
                    kwargs.update(v)
                elif isinstance(v, SDict) and v.concrete and not v.dstar:
                    for kk, vv in v.items.items():
                        kwargs[kk if isinstance(kk, str) else repr(kk)] = vv
                else:
                    dstar.append(v)
            else:
                kwargs[k.arg] = self.eval(k.value)
        return self.call(f, args, kwargs, e, dstar)

    def call(self, f: Any, args: List[Any], kwargs: Dict[str, Any], node: Optional[ast.AST] = None,
             dstar: Optional[List[Any]] = None) -> Any:
        dstar = dstar or []
        if any(isinstance(a, SGen) for a in args):
            args = self.consume_generators(f, args, node)
        if isinstance(f, SFunc):
            return self.call_function(f, args, kwargs, node=node, dstar=dstar)
        if isinstance(f, SClass):
            return self.construct(f.ci, args, kwargs, node, dstar)
        if isinstance(f, TypeRef):
            return self.call_type(f, args, kwargs, node)
        if isinstance(f, SExtern):
            return self.call_extern(f, args, kwargs, node, dstar)
        if isinstance(f, SBound):
            return self.call_bound(f, args, kwargs, node, dstar)
        if isinstance(f, SNew) and isinstance(f.cls, ClassInfo):
            # an instance of a package class used as a function: its __call__
            m = self.prog.find_method(f.cls, "__call__")
            if m is not None and m[0].module.name.startswith("htmltools"):
                return self.call_function(SFunc(m[0].module, m[1], f, m[0], None, f"{m[0].name}.__call__"), args, kwargs, node=node, dstar=dstar)
        if isinstance(f, (SObj, SOpaque)):
            # calling a callable value (handler, hook)
            self.run.effect("call", f, None, list(args), node, extra=dict(kwargs))
            r = SObj(f"{getattr(f, 'name', 'callable')}(...)", ALL_KINDS, origin="opaque")
            r.meta["result_of"] = (f, list(args))
            return r
        raise self.unmodelled(f"call of {type(f).__name__}", node)

    # ------------------------------------------------------------------ repo functions
    def is_opaque(self, f: SFunc) -> bool:
        q = f.qual
        cfg = self.run.cfg
        if q in cfg.opaque:
            return True
        if cfg.opaque_all and q not in cfg.inline and f.closure is None and not isinstance(f.node, ast.Lambda) \
                and f.mod.name.startswith("htmltools"):
            from .inventory import KNOWN_FUNCTIONS
            return q in KNOWN_FUNCTIONS     # new helpers (extracted by a refactoring) are analysed as part of their caller
        return False

    def call_function(self, f: SFunc, args: List[Any], kwargs: Dict[str, Any], node: Optional[ast.AST] = None,
                      binds: Optional[Dict[str, Any]] = None, top: bool = False, dstar: Optional[List[Any]] = None) -> Any:
        from .eval_expr import Frame
        from .interp import _Raise, _Return

        run = self.run
        fn = f.node
        if f.__dict__.get("pre_args") is not None:
            # functools.partial(f, *pre, **prekw)
            args = list(f.__dict__["pre_args"]) + list(args)
            kwargs = {**f.__dict__.get("pre_kwargs", {}), **kwargs}
            f = f.__dict__["partial_of"]
        if not top and self.is_opaque(f):
            return self.opaque_call(f, args, kwargs, node, dstar)
        if not top and self.run.cfg.treat_escape_primitive and f.mod.name == "htmltools._util" and f.qual == "html_escape":
            return self.html_escape_primitive(f, args, kwargs, node)
        if run.depth >= run.cfg.max_depth or (not top and f.qual in run.call_stack):
            return self.opaque_call(f, args, kwargs, node, dstar, reason="recursion")
        if isinstance(fn, ast.Lambda):
            env = self.bind_params(f, fn.args, args, kwargs, node, dstar)
            self.frames.append(Frame(f, env))
            try:
                return self.eval(fn.body)
            finally:
                self.frames.pop()
        env = dict(binds) if binds is not None else self.bind_params(f, fn.args, args, kwargs, node, dstar)
        if binds is not None:
            self.fill_defaults(f, fn.args, env)
        if f.self_obj is not None and fn.args.args and binds is None:
            pass
        if f.self_obj is not None and binds is not None and fn.args.args:
            env.setdefault(fn.args.args[0].arg, f.self_obj)
        if is_generator(fn):
            if top:
                raise self.unmodelled("generator function as analysis entry point", node)
            from .values import SGen
            run.effect("gen", f, None, list(args), node)
            return SGen(f, env)
        fr = Frame(f, env)
        self.frames.append(fr)
        run.depth += 1
        run.call_stack.append(f.qual)
        try:
            self.exec_block(fn.body)
            if top:
                run.final_env = dict(fr.env)
            return None
        except _Return as r:
            if top:
                run.final_env = dict(fr.env)
            return r.value
        finally:
            run.call_stack.pop()
            run.depth -= 1
            self.frames.pop()

    _EAGER_TYPES = (list, tuple, set, frozenset, dict, sorted)

    def consume_generators(self, f: Any, args: List[Any], node: Optional[ast.AST]) -> List[Any]:
        """Generator arguments of consumers that build a fresh object from all items (list(g), sorted(g), sep.join(g), ...) are
        run to their end first; list.extend(g) / list += g append while the generator is still running and are modelled so."""
        eager = False
        if isinstance(f, TypeRef) and f.py in (list, tuple, set, frozenset, dict):
            eager = True
        if isinstance(f, SExtern) and f.mod == "builtins" and f.name in ("sorted", "any", "all", "sum", "min", "max", "len", "enumerate", "reversed", "zip", "map", "filter", "iter", "next"):
            eager = True
        if isinstance(f, SBound) and f.name == "join":
            eager = True
        if isinstance(f, SBound) and f.name in ("extend", "__iadd__") and len(args) == 1:
            return [self.lazy_items(args[0], node)]
        if eager:
            return [self.materialise(a, node) if isinstance(a, SGen) else a for a in args]
        return args

    def lazy_items(self, gen: Any, node: Optional[ast.AST]) -> Any:
        """The items of a generator consumed by list.extend: same list as materialise(), marked as produced lazily."""
        v = self.materialise(gen, node)
        if isinstance(v, (SList, SObj)):
            v.__dict__["lazy_generator"] = gen
        return v

    def run_generator(self, gen: Any, on_yield: Any, node: Optional[ast.AST] = None) -> None:
        """Run the generator's body to completion, calling on_yield(value) at every `yield` (in program order)."""
        from .eval_expr import Frame
        from .interp import _Return
        run = self.run
        f = gen.func
        if run.depth >= run.cfg.max_depth or f.qual in run.call_stack:
            raise self.unmodelled(f"recursive generator {f.qual}", node)
        fr = Frame(f, dict(gen.env))
        self.frames.append(fr)
        self.yield_handlers.append(on_yield)
        run.depth += 1
        run.call_stack.append(f.qual)
        try:
            self.exec_block(f.node.body)
        except _Return:
            pass
        finally:
            run.call_stack.pop()
            run.depth -= 1
            self.yield_handlers.pop()
            self.frames.pop()

    def materialise(self, gen: Any, node: Optional[ast.AST] = None) -> Any:
        """list(<generator>): the generator function rewritten to collect what it yields (exact when the consumer builds a
        fresh object from all items: list(), tuple(), sorted(), "".join(), set(), dict())."""
        tw = collecting_twin(gen.func.node)
        f2 = SFunc(gen.func.mod, tw, gen.func.self_obj, getattr(gen.func, "cls", None), gen.func.closure, gen.func.qual)
        return self.call_function(f2, [], {}, node=node, binds=dict(gen.env))

    def fill_defaults(self, f: SFunc, a: ast.arguments, env: Dict[str, Any]) -> None:
        from .eval_expr import Frame
        pos = a.posonlyargs + a.args
        defaults = [None] * (len(pos) - len(a.defaults)) + list(a.defaults)
        self.frames.append(Frame(f, {}))
        try:
            for p, d in zip(pos, defaults):
                if p.arg not in env and d is not None:
                    env[p.arg] = self.eval(d)
            for p, d in zip(a.kwonlyargs, a.kw_defaults):
                if p.arg not in env and d is not None:
                    env[p.arg] = self.eval(d)
        finally:
            self.frames.pop()
        if a.vararg is not None and a.vararg.arg not in env:
            env[a.vararg.arg] = ()
        if a.kwarg is not None and a.kwarg.arg not in env:
            env[a.kwarg.arg] = SDict()

    def bind_params(self, f: SFunc, a: ast.arguments, args: List[Any], kwargs: Dict[str, Any],
                    node: Optional[ast.AST], dstar: Optional[List[Any]] = None) -> Dict[str, Any]:
        env: Dict[str, Any] = {}
        pos = list(a.posonlyargs + a.args)
        args = list(args)
        decos = [ast.unparse(d).split(".")[-1] for d in getattr(f.node, "decorator_list", [])]
        if f.self_obj is not None and "staticmethod" not in decos:
            args = [f.self_obj] + args
        kwargs = dict(kwargs)
        i = 0
        for p in pos:
            if i < len(args):
                if isinstance(args[i], SSplat):
                    # unknown number of positionals
                    break
                env[p.arg] = args[i]
                i += 1
            elif p.arg in kwargs:
                env[p.arg] = kwargs.pop(p.arg)
        rest = args[i:]
        if a.vararg is not None:
            if rest and any(isinstance(x, SSplat) for x in rest):
                l = SList("concrete", rest)
                l.pytype = "tuple"
                env[a.vararg.arg] = l
            elif any(isinstance(x, Sym) for x in rest):
                l = SList("concrete", rest)
                l.pytype = "tuple"
                env[a.vararg.arg] = l
            else:
                env[a.vararg.arg] = tuple(rest)
        elif rest:
            if any(isinstance(x, SSplat) for x in rest):
                # `f(*xs)` into fixed parameters: bind generically
                for p in pos[i:]:
                    env[p.arg] = SUnknown(f"parameter {p.arg} bound from *splat")
            else:
                raise self.unmodelled(f"too many positional arguments for {f.qual}", node)
        for p in a.kwonlyargs:
            if p.arg in kwargs:
                env[p.arg] = kwargs.pop(p.arg)
        if a.kwarg is not None:
            d = SDict()
            d.items.update(kwargs)
            d.dstar = list(dstar or [])
            env[a.kwarg.arg] = d
        elif kwargs:
            raise self.unmodelled(f"unexpected keyword arguments {sorted(kwargs)} for {f.qual}", node)
        elif dstar:
            for p in pos + list(a.kwonlyargs):
                if p.arg not in env:
                    env[p.arg] = SUnknown(f"parameter {p.arg} bound from **splat")
        self.fill_defaults(f, a, env)
        for p in pos + list(a.kwonlyargs):
            if p.arg not in env:
                sp = rest[0] if rest and isinstance(rest[0], SSplat) and p in pos and a.vararg is not None else None
                if sp is not None and isinstance(sp.value, (SObj, SList, SNew)):
                    # f(*xs) into `def f(first, *more)`: `first` takes the first element; an empty xs is a TypeError
                    uid = getattr(sp.value, "uid", 0)
                    if self.run.path.choose(("splat-empty", uid, f.qual, p.arg), 2, (f"*{short(sp.value)} is non-empty", f"*{short(sp.value)} is empty")) == 1:
                        self.raise_exc("TypeError", node)
                    ks = self.coll_elem_kinds(sp.value) if isinstance(sp.value, (SObj, SNew)) else ALL_KINDS
                    o = SObj(f"{short(sp.value)}[0]", ks, origin=_elem_origin(sp.value) if isinstance(sp.value, (SObj, SNew)) else "input")
                    o.elem_of = (sp.value, ("first",)) if isinstance(sp.value, SObj) else None
                    env[p.arg] = o
                    continue
                raise self.unmodelled(f"missing argument `{p.arg}` for {f.qual}", node)
        return env

    def call_copy_method(self, obj: Any, ci: ClassInfo, fn: ast.FunctionDef, node: Optional[ast.AST]) -> Any:
        """A class's own __copy__ defines what copy.copy means: it is always interpreted, never summarised."""
        q = f"{ci.name}.{fn.name}"
        cfg = self.run.cfg
        added = q not in cfg.inline
        was_opaque = q in cfg.opaque
        cfg.inline.add(q)
        cfg.opaque.discard(q)
        try:
            return self.call_method_def(obj, ci, fn, [], {}, node)
        finally:
            if added:
                cfg.inline.discard(q)
            if was_opaque:
                cfg.opaque.add(q)

    def call_method_def(self, obj: Any, ci: ClassInfo, fn: ast.FunctionDef, args: List[Any], kwargs: Dict[str, Any],
                        node: Optional[ast.AST]) -> Any:
        f = SFunc(ci.module, fn, obj, ci, None, f"{ci.name}.{fn.name}")
        return self.call_function(f, args, kwargs, node=node)

    def opaque_call(self, f: SFunc, args: List[Any], kwargs: Dict[str, Any], node: Optional[ast.AST],
                    dstar: Optional[List[Any]] = None, reason: str = "opaque") -> Any:
        recv = f.self_obj
        self.run.effect("call", f, recv, list(args), node, extra={"kwargs": dict(kwargs), "reason": reason, "dstar": dstar or []})
        ret = getattr(f.node, "returns", None)
        rk = self.kinds_from_annotation(ret, f.mod) if ret is not None else None
        if rk is None and isinstance(ret, ast.Name) and recv is not None:
            # `def m(self: T) -> T`: the result has the receiver's class
            a0 = f.node.args.args[0] if f.node.args.args else None
            if a0 is not None and isinstance(a0.annotation, ast.Name) and a0.annotation.id == ret.id:
                if isinstance(recv, SObj):
                    rk = recv.kinds
                elif isinstance(recv, SNew) and isinstance(recv.cls, ClassInfo):
                    k0 = self.U.kind_of_class(recv.cls)
                    rk = frozenset({k0}) if k0 else None
        descr = (f.qual, _ref(recv), tuple(short(a) for a in args), tuple((k, short(v)) for k, v in sorted(kwargs.items())))
        if rk is not None and rk <= frozenset({"STR", "JSXEXPR"}):
            return SStr([Frag("OP", ("call", f.qual), {"recv": recv, "args": list(args), "kwargs": dict(kwargs)}, ())])
        if rk is not None and rk <= frozenset({"TRUE", "FALSE"}):
            return SBool(("call", f.qual, _ref(recv), tuple(short(a) for a in args)))
        o = SOpaque(descr, rk)
        o.__dict__["call"] = {"func": f, "recv": recv, "args": list(args), "kwargs": dict(kwargs)}
        ro = self.run.cfg.return_origin.get(f.qual)
        if rk is None and ro is not None:
            rk = ALL_KINDS
        if rk is not None:
            so = SObj(f"{f.qual}(...)", rk, origin="opaque")
            so.meta["call"] = o.__dict__["call"]
            so.meta["descr"] = descr
            r2 = ret
            if isinstance(r2, ast.Constant) and isinstance(r2.value, str):
                try:
                    r2 = ast.parse(r2.value, mode="eval").body
                except SyntaxError:
                    r2 = None
            if isinstance(r2, ast.Subscript) and ast.unparse(r2.value).split(".")[-1] in ("list", "List") and not isinstance(r2.slice, ast.Tuple):
                ek = self.kinds_from_annotation(r2.slice, f.mod)
                if ek is not None:
                    so.meta["elem_kinds"] = ek
            if ret is not None and isinstance(ret, ast.Name):
                tci = self.prog.get_class(ret.id, f.mod)
                if tci is not None and self.prog.is_subclass(tci, "TypedDict"):
                    so.meta["typed_dict"] = tci
            if ro is not None:
                # ownership of the result as established by the callee's own return summary
                if ro.get("alias_self") and recv is not None:
                    return recv
                so.origin = "new" if ro.get("fresh") else "opaque"
                if ro.get("fresh"):
                    so.meta["copy_mode"] = None
                    so.meta["fresh_fields"] = bool(ro.get("fields_fresh"))
                    so.meta["elem_origin"] = "new" if ro.get("elems_fresh") else "opaque"
                    if not ro.get("elems_fresh") and ro.get("elems_from_inputs"):
                        # the elements that are not new are the caller's own arguments' (or the receiver's)
                        srcs = [x for x in [recv] + list(args) + list(kwargs.values()) if isinstance(x, Sym)]
                        os_ = {owner_of(x) for x in srcs}
                        if "input" in os_:
                            so.meta["elem_origin"] = "input"
                        elif os_ <= {"new"}:
                            so.meta["elem_origin"] = "new"
            return so
        return o

    # ------------------------------------------------------------------ the escape primitive
    def html_escape_primitive(self, f: SFunc, args: List[Any], kwargs: Dict[str, Any], node: Optional[ast.AST]) -> Any:
        env = self.bind_params(f, f.node.args, args, kwargs, node)
        names = [a.arg for a in f.node.args.args]
        if len(names) < 2:
            raise self.unmodelled("html_escape signature", node)
        text = env[names[0]]
        attr = env[names[1]]
        mode = "attr" if self.run.truth(attr, node) else "text"
        # further parameters select other behaviour of the function: a call that does not leave them at their defaults is not
        # "the text / attribute mapping" (the escape-function checks decide the function at its defaults)
        a_ = f.node.args
        extra = [(p_, d_) for p_, d_ in zip(a_.args[::-1], a_.defaults[::-1]) if p_.arg not in names[:2]] + \
                [(p_, d_) for p_, d_ in zip(a_.kwonlyargs, a_.kw_defaults) if d_ is not None]
        for p_, d_ in extra:
            try:
                dv = self.prog.fold(d_, f.mod)
            except Exception:
                dv = _NOFOLD
            v_ = env.get(p_.arg, dv)
            if isinstance(v_, SBool) and v_.atom[0] != "param":
                v_ = self.run.truth(v_, node)
            same = (v_ is dv) or (not isinstance(v_, Sym) and not isinstance(dv, Sym) and type(v_) is type(dv) and v_ == dv)
            if not same:
                mode = f"{mode}+{p_.arg}={short(v_)}"
        if isinstance(text, SObj) and not (text.kinds <= frozenset({"STR", "JSXEXPR"})):
            if len(text.kinds) > 1:
                self.split_kinds(text, node, [frozenset({"STR", "JSXEXPR"}), frozenset({"HTMLSTR"}),
                                              ALL_KINDS - {"STR", "JSXEXPR", "HTMLSTR"}])
        if isinstance(text, SObj) and text.kinds <= frozenset({"HTMLSTR"}):
            s = SStr([Frag("OF", (text.uid, text.name), "TRUSTED", ())])
        elif isinstance(text, SNew) and text.cls_name == "HTML":
            s = self.as_sstr(self.get_attr(text, "data", node))
        else:
            s = self.as_sstr(text)
        if s is None:
            if isinstance(text, SObj):
                # non-string argument: re.search raises TypeError
                self.raise_exc("TypeError", node)
            raise self.unmodelled(f"html_escape of {short(text)}", node)
        out: List[Frag] = []
        self.run.effect("escape", None, mode, s, node)
        for fr in s.frags:
            if fr.kind == "LIT":
                out.append(Frag("OP", ("escaped-literal", mode), fr.a, ()) if _has_meta(fr.a, mode) else fr)
            elif fr.kind == "OF":
                out.append(Frag("OF", fr.a, fr.b, tuple(fr.c or ()) + (mode,)))
            elif fr.kind == "OP":
                out.append(Frag("OP", fr.a, fr.b, tuple(fr.c or ()) + (mode,)))
            else:
                out.append(Frag("OP", ("escaped", mode), fr, (mode,)))
        return SStr(out)

    # ------------------------------------------------------------------ constructors
    def construct(self, ci: ClassInfo, args: List[Any], kwargs: Dict[str, Any], node: Optional[ast.AST],
                  dstar: Optional[List[Any]] = None) -> Any:
        o = SNew(ci, tuple(a for a in args if not isinstance(a, SSplat)), kwargs,
                 tuple(a.value for a in args if isinstance(a, SSplat)), tuple(dstar or ()))
        o.__dict__["all_args"] = list(args)
        o.node = node
        if self.prog.is_subclass(ci, "UserList") or self.prog.is_subclass(ci, "list"):
            # a new container: its elements are the (flattened) arguments, which may belong to somebody else
            eo = _args_elem_origin(list(args))
            if eo != "new":
                o.__dict__.setdefault("meta", {})["elem_origin"] = eo
        from .inventory import KNOWN_FUNCTIONS
        m0 = self.prog.find_method(ci, "__init__") if ci.module.name.startswith("htmltools") else None
        new_class = m0 is not None and m0[0].module.name.startswith("htmltools") and f"{m0[0].name}.__init__" not in KNOWN_FUNCTIONS \
            and not any(k.startswith(ci.name + ".") for k in KNOWN_FUNCTIONS)
        if ci.name in self.run.cfg.interpret_ctor or new_class:
            # (a class that a refactoring introduced is part of the code under analysis, like a new helper function)
            m = self.prog.find_method(ci, "__init__")
            if m is not None:
                self.call_function(SFunc(m[0].module, m[1], o, m[0], None, f"{m[0].name}.__init__"), args, kwargs,
                                   node=node, dstar=dstar)
        else:
            self.run.effect("new", o, None, list(args), node, extra=dict(kwargs))
        if self.prog.is_subclass(ci, "Exception") or ci.name.endswith("Error"):
            pass
        return o

    def call_type(self, t: TypeRef, args: List[Any], kwargs: Dict[str, Any], node: Optional[ast.AST]) -> Any:
        py = t.py
        if py is str:
            if not args:
                return ""
            return _const_or(self.py_str(args[0], node))
        if py is bool:
            return self.run.truth(args[0], node) if args else False
        if py in (list, tuple, set, frozenset):
            if not args:
                if py in (list, set):
                    l0 = SList("concrete", [])
                    l0.pytype = py.__name__
                    return l0
                return py()
            v = args[0]
            items = self.concrete_items(v)
            if items is not None:
                l = SList("concrete", list(items))
                l.pytype = py.__name__
                return l
            if isinstance(v, (SObj, SNew)) and py in (list, tuple):
                # a new container holding the elements of v
                o2 = SObj(f"{py.__name__}({getattr(v, 'name', short(v))})", {"LIST" if py is list else "TUPLE"}, origin="new")
                o2.meta["copy_of"] = v
                o2.meta["copy_mode"] = "list"
                o2.meta["list_ctor"] = py.__name__
                o2.meta["elem_origin"] = _elem_origin(v)
                if isinstance(v, SObj):
                    ek = v.meta.get("elem_kinds")
                    if ek is None and v.kinds <= frozenset({"TAGLIST"}):
                        ek = NODE_KINDS - {"TAGLIST"}
                    if ek is not None:
                        o2.meta["elem_kinds"] = ek
                return o2
            dv = getattr(v, "iter_descr", None)
            if py in (list, tuple) and dv is not None and dv[0] in ("enumerate", "reversed"):
                # list(enumerate(x)) / tuple(d.items()): the same elements in the same order, taken up front
                o0 = _iter(dv)
                o0.__dict__["snapshot"] = py.__name__
                return o0
            o = SOpaque((py.__name__, short(v)))
            o.__dict__["of"] = v
            o.__dict__["pytype"] = py.__name__
            return o
        if py is dict:
            if not args and not kwargs:
                return SDict()
            if not args and kwargs:
                return SDict(items=dict(kwargs))        # dict(a=1, b=2) is the literal {"a": 1, "b": 2}
            if args and isinstance(args[0], (SObj, SNew)):
                d = SDict(name=f"dict({short(args[0])})", concrete=False)
                d.__dict__["copy_of"] = args[0]
                return d
            if args and isinstance(args[0], SDict):
                d = SDict(items=dict(args[0].items), concrete=args[0].concrete)
                d.dstar = list(args[0].dstar)
                return d
            if args and isinstance(args[0], dict):
                return SDict(items=dict(args[0]))
            d = SDict(name="dict(...)", concrete=False)
            d.__dict__["copy_of"] = args[0] if args else None
            return d
        if py in (int, float):
            return SOpaque((py.__name__, short(args[0]) if args else ""), {"INT" if py is int else "FLOAT"})
        if py is type and len(args) == 1:
            if args[0] is None or isinstance(args[0], (bool, int, float, str)):
                return TypeRef(py=type(args[0]))      # type(None), type(0) ... : the class of a constant
            o = SOpaque(("type", short(args[0])))
            o.__dict__["type_of"] = args[0]
            return o
        if py is object:
            return SNew("object")
        if py is range:
            return self.call_extern(SExtern("builtins", "range"), args, kwargs, node)
        raise self.unmodelled(f"call of type {t!r}", node)

    # ------------------------------------------------------------------ externals / builtins
    def typeref(self, v: Any, node: Optional[ast.AST]) -> List[TypeRef]:
        if isinstance(v, TypeRef):
            return [v]
        if isinstance(v, SClass):
            return [TypeRef(repo=v.ci)]
        if isinstance(v, SExtern):
            nm = (v.name or "").split(".")[-1]
            if nm in _ABCS:
                return [TypeRef(py=_ABCS[nm])]
            if v.mod.startswith("packaging") and nm == "Version":
                return [TypeRef(ext="packaging.version.Version")]
            if v.mod == "builtins" and nm in _BUILTIN_TYPES:
                return [TypeRef(py=_BUILTIN_TYPES[nm])]
            return [TypeRef(ext=v.qual)]
        if isinstance(v, (tuple, list)):
            out: List[TypeRef] = []
            for x in v:
                out.extend(self.typeref(x, node))
            return out
        if isinstance(v, SList) and v.mode == "concrete":
            out = []
            for x in v.items:
                out.extend(self.typeref(x, node))
            return out
        if isinstance(v, SOpaque) and "type_of" in v.__dict__:
            o = v.__dict__["type_of"]
            ks = getattr(o, "kinds", None)
            if ks and len({KINDS[k].standin for k in ks}) == 1 and all(KINDS[k].repo is None for k in ks):
                return [TypeRef(py=KINDS[next(iter(ks))].standin)]
            if isinstance(o, (SList,)):
                return [TypeRef(py={"list": list, "tuple": tuple, "set": set}[o.pytype])]
        raise self.unmodelled(f"isinstance class argument {short(v)}", node)

    def isinstance_(self, v: Any, cls: Any, node: Optional[ast.AST]) -> bool:
        if isinstance(cls, SObj) and not isinstance(v, (str, int, float, bool, type(None))):
            # the class is itself an unknown value (e.g. a parameter holding a tuple of types)
            return self.run.decide(("isinstance-of-value", getattr(v, "uid", repr(v)), cls.uid))
        if isinstance(cls, SOpaque) and "type_of" in cls.__dict__:
            other = cls.__dict__["type_of"]
            try:
                refs0 = self.typeref(cls, node)
            except Unmodelled:
                refs0 = None
            if refs0 is None:
                # isinstance(y, type(x)) with x of undetermined class
                return self.run.decide(("isinstance-type-of", getattr(v, "uid", repr(v)), getattr(other, "uid", repr(other))))
        refs = self.typeref(cls, node)
        U = self.U
        if isinstance(v, SObj):
            sat = {k for k in v.kinds if any(U.kind_isinstance(k, t) for t in refs)}
            uns = v.kinds - sat
            if not uns:
                return True
            if not sat:
                return False
            names = "|".join(t.name for t in refs)
            c = self.run.path.choose(("isinstance", v.uid, names), 2, (f"isinstance {names}", f"not isinstance {names}"))
            if c == 0:
                v.kinds = frozenset(sat)
                return True
            v.kinds = frozenset(uns)
            return False
        if isinstance(v, SNew):
            if isinstance(v.cls, ClassInfo):
                return any(U.class_isinstance(v.cls, t) for t in refs)
            return any(t.py is object for t in refs)
        if isinstance(v, SStr):
            return any(t.py is not None and issubclass(str, t.py) for t in refs)
        if isinstance(v, SBool):
            return any(t.py is not None and issubclass(bool, t.py) for t in refs)
        if isinstance(v, SInt):
            return any(t.py is not None and issubclass(int, t.py) for t in refs)
        if isinstance(v, SList):
            py = {"list": list, "tuple": tuple, "set": set}[v.pytype]
            return any(t.py is not None and issubclass(py, t.py) for t in refs)
        if isinstance(v, SDict):
            return any(t.py is not None and issubclass(dict, t.py) for t in refs)
        if isinstance(v, (SFunc, SBound)):
            return any(t.py is not None and t.py in (object,) for t in refs)
        if isinstance(v, SOpaque):
            if v.kinds:
                tmp = SObj("opaque", v.kinds)
                tmp.uid = v.uid
                r = self.isinstance_(tmp, cls, node)
                v.kinds = tmp.kinds
                return r
            names = "|".join(t.name for t in refs)
            return self.run.decide(("isinstance", v.uid, names))
        if isinstance(v, SUnknown):
            raise self.unmodelled(f"isinstance on {v!r}", node)
        return any(U.py_isinstance(v, t) for t in refs)

    def call_extern(self, x: SExtern, args: List[Any], kwargs: Dict[str, Any], node: Optional[ast.AST],
                    dstar: Optional[List[Any]] = None) -> Any:
        q = x.qual
        nm = x.name or ""
        run = self.run
        if x.mod == "builtins":
            if nm == "isinstance":
                return self.isinstance_(args[0], args[1], node)
            if nm == "len":
                return self.len_(args[0], node)
            if nm in ("repr",):
                return self.py_repr(args[0], node)
            if nm == "enumerate":
                return _iter(("enumerate", args[0]))
            if nm == "reversed":
                items = self.concrete_items(args[0])
                if items is not None:
                    return SList("concrete", list(reversed(items)))
                return _iter(("reversed", args[0]))
            if nm == "range":
                if all(isinstance(a, int) for a in args):
                    return list(range(*args))
                return _iter(("range",) + tuple(args))
            if nm == "sorted":
                o = SOpaque(("sorted", short(args[0])))
                o.__dict__["of"] = args[0]
                return o
            if nm == "getattr":
                if isinstance(args[1], str):
                    return self.get_attr(args[0], args[1], node)
                o = SOpaque(("getattr", short(args[0]), short(args[1])))
                o.__dict__["getattr"] = tuple(args)
                return o
            if nm == "issubclass" and len(args) == 2:
                return run.decide(("issubclass", _ref(args[0]), short(args[1])))
            if nm == "hasattr":
                return run.decide(("hasattr", _ref(args[0]), short(args[1])))
            if nm == "type":
                if len(args) == 1 and (args[0] is None or isinstance(args[0], (bool, int, float, str))):
                    return TypeRef(py=type(args[0]))
                o = SOpaque(("type", _ref(args[0])))
                o.__dict__["type_of"] = args[0]
                return o
            if nm in ("id", "hash"):
                run.effect("nondet", nm, None, list(args), node)
                return SOpaque((nm, short(args[0])), {"INT"})
            if nm in ("any", "all"):
                v = args[0]
                items = self.concrete_items(v)
                if items is not None:
                    rs = [run.truth(i, node) for i in items]
                    return any(rs) if nm == "any" else all(rs)
                return SBool((nm, _deep(v)))
            if nm in _EXC:
                o = SNew(nm, tuple(args), kwargs)
                return o
            if nm == "print":
                return None
            if nm == "callable":
                return run.decide(("callable", _ref(args[0])))
            if nm in ("min", "max", "sum", "abs"):
                return SOpaque((nm,) + tuple(short(a) for a in args))
            if nm == "open":
                run.effect("fs", "open", None, list(args), node, extra=dict(kwargs))
                o = SOpaque(("open",) + tuple(short(a) for a in args))
                o.__dict__["open_args"] = (list(args), dict(kwargs))
                return o
            if nm == "next" and args and isinstance(args[0], SList) and args[0].mode == "map" and "cond_nodes" in args[0].__dict__:
                # next((elt for target in it if cond), default): the first element satisfying cond, or the default
                g = args[0]
                c = run.path.choose(("next-found", g.uid), 2, ("an element satisfies the condition", "no element satisfies the condition"))
                if c == 1:
                    if len(args) > 1:
                        return args[1]
                    self.raise_exc("StopIteration", node)
                saved = dict(self.frame.env)
                try:
                    self.bind_target(g.__dict__["target_node"], g.var, node)
                    for cn in g.__dict__["cond_nodes"]:
                        if not run.truth(self.eval(cn), cn):
                            from .interp import Infeasible
                            raise Infeasible()
                finally:
                    self.frame.env.clear()
                    self.frame.env.update(saved)
                run.effect("search", g, None, g.var, node)
                return g.elt
            if nm in ("iter", "next", "zip", "map", "filter"):
                return SOpaque((nm,) + tuple(short(a) for a in args))
            if nm == "format":
                return _const_or(self.py_str(args[0], node))
            raise self.unmodelled(f"builtin {nm}", node)
        if x.mod == "functools" and nm == "partial" and args and isinstance(args[0], SFunc) and not dstar:
            f0 = args[0]
            pf = SFunc(f0.mod, f0.node, f0.self_obj, f0.cls, f0.closure, f0.qual)
            pf.__dict__["partial_of"] = f0.__dict__.get("partial_of", f0)
            pf.__dict__["pre_args"] = list(f0.__dict__.get("pre_args") or []) + list(args[1:])
            pf.__dict__["pre_kwargs"] = {**(f0.__dict__.get("pre_kwargs") or {}), **kwargs}
            return pf
        if x.mod == "itertools" and nm in ("chain", "chain.from_iterable") and not kwargs:
            # chain(a, b, ...) over containers whose items are known: the concatenation, consumed once in order
            srcs = list(args) if nm == "chain" else (self.concrete_items(args[0]) if len(args) == 1 else None)
            if srcs is not None:
                parts = [self.concrete_items(a) for a in srcs]
                if all(p_ is not None for p_ in parts):
                    return SList("concrete", [i_ for p_ in parts for i_ in p_])
                o_ = SOpaque(("chain",) + tuple(short(a_) for a_ in srcs))
                o_.__dict__["chain_parts"] = list(srcs)       # a `for` over it runs over the parts one after the other
                return o_
        if x.mod == "typing" and nm == "cast":
            # types-lite: a cast refines the kind set (the developer's claim is trusted; listed as an assumption)
            v = args[1]

            def _ki(k: str, t: Any) -> bool:
                if t.repo is not None and self.prog.is_subclass(t.repo, "TypedDict"):
                    return k == "DICT"      # a TypedDict is a plain dict at run time
                return self.U.kind_isinstance(k, t)
            if isinstance(v, SObj) and len(v.kinds) > 1:
                try:
                    refs = self.typeref(args[0], node)
                    sat = {k for k in v.kinds if any(_ki(k, t) for t in refs)}
                except Unmodelled:
                    sat = None
                if sat is not None:
                    if not sat:
                        from .interp import Infeasible
                        raise Infeasible()      # the path contradicts the cast
                    v.kinds = frozenset(sat)
            elif isinstance(v, SObj) and len(v.kinds) == 1:
                try:
                    refs = self.typeref(args[0], node)
                    if not any(_ki(next(iter(v.kinds)), t) for t in refs):
                        from .interp import Infeasible
                        raise Infeasible()
                except Unmodelled:
                    pass
            return v
        if x.mod == "copy" and nm in ("copy", "deepcopy") or (x.mod == "copy" and x.name is None):
            return self.copy_(args[0], nm == "deepcopy", node)
        if x.mod == "copy.copy" or q in ("copy.copy", "copy.deepcopy"):
            return self.copy_(args[0], q.endswith("deepcopy"), node)
        if q == "packaging.version.Version":
            o = SObj(f"Version({short(args[0])})", {"VERSION"}, origin="new")
            o.meta["version_of"] = args[0]
            return o
        # everything else: opaque, logged
        run.effect("extcall", q, None, list(args), node, extra=dict(kwargs))
        if q in ("re.sub", "re.subn"):
            return SStr([Frag("OP", ("call", q), {"args": list(args), "kwargs": dict(kwargs)}, ())])
        rk = None
        if q in ("os.path.join", "posixpath.join", "os.path.dirname", "os.path.realpath", "urllib.parse.quote",
                 "json.dumps", "os.path.basename", "tempfile.gettempdir"):
            return SStr([Frag("OP", ("call", q), {"args": list(args), "kwargs": dict(kwargs)}, ())])
        if q in ("os.path.exists", "os.path.isfile", "os.path.isdir", "re.search", "re.match", "re.fullmatch"):
            return SBool(("extcall", q, tuple(_deep(a) for a in args), len(run.effects)))
        o = SOpaque((q,) + tuple(short(a) for a in args), rk)
        o.__dict__["extcall"] = {"q": q, "args": list(args), "kwargs": dict(kwargs)}
        return o

    def py_repr(self, v: Any, node: Optional[ast.AST]) -> Any:
        return SStr([Frag("OP", ("repr", short(v)), None, ())])

    def len_(self, v: Any, node: Optional[ast.AST]) -> Any:
        if isinstance(v, (str, list, tuple, dict, set, frozenset)):
            return len(v)
        if isinstance(v, SList):
            if v.mode == "concrete" and not any(isinstance(i, SSplat) for i in v.items):
                return len(v.items)
            if v.mode == "view":
                n = SInt(f"len#{v.uid}")
                n.len_of = (v.base, v.kinds)  # type: ignore[attr-defined]
                return n
        if isinstance(v, SDict) and v.concrete and not v.dstar:
            return len(v.items)
        coll, kinds = self.as_collection(v, node) if isinstance(v, Sym) else (None, None)
        if coll is not None:
            n = SInt(f"len#{getattr(coll, 'uid', 0)}")
            n.len_of = (coll, frozenset(kinds))  # type: ignore[attr-defined]
            return n
        if isinstance(v, (SObj, SOpaque, SDict, SList, SNew)):
            n = SInt(f"len#{v.uid}")
            n.len_of = (v, frozenset(ALL_KINDS))  # type: ignore[attr-defined]
            return n
        if isinstance(v, SStr):
            return SInt(f"len#{hash(v.key()) & 0xffff}")
        raise self.unmodelled(f"len of {short(v)}", node)

    # ---- copy ---------------------------------------------------------------------------
    # ---- copy ---------------------------------------------------------------------------
    def copy_mode_of_class(self, ci: ClassInfo) -> str:
        """How copy.copy treats an instance: read from the class's own __copy__ (DESIGN 3.3)."""
        cache = self.run.I.__dict__.setdefault("_copy_modes", {})
        if ci.qualname in cache:
            return cache[ci.qualname]
        m = self.prog.find_method(ci, "__copy__")
        if m is None:
            if self.prog.is_subclass(ci, "dict") or self.prog.is_subclass(ci, "Dict"):
                mode = "dict"
            elif self.prog.is_subclass(ci, "UserString") or self.prog.is_subclass(ci, "str"):
                mode = "value"
            else:
                mode = "alias"          # default object copy: a new object whose fields are the same objects
        elif not m[0].module.name.startswith("htmltools"):
            mode = "userlist" if m[0].name == "UserList" else "alias"
        else:
            mode = "fieldwise" if is_field_copy(self.prog, m[0].module, m[1]) else "interpret"
        cache[ci.qualname] = mode
        return mode

    def copy_mode(self, v: Any, node: Optional[ast.AST]) -> str:
        if isinstance(v, SNew):
            return self.copy_mode_of_class(v.cls) if isinstance(v.cls, ClassInfo) else "alias"
        kinds = v.kinds
        modes = set()
        for k in kinds:
            ci = self.U.repo_class(k)
            if ci is not None:
                modes.add(self.copy_mode_of_class(ci))
            elif k in ("LIST", "SET"):
                modes.add("list")
            elif k in ("DICT",):
                modes.add("dict")
            elif k in ("STR", "JSXEXPR", "INT", "FLOAT", "NONE", "TRUE", "FALSE", "ELLIPSIS", "TUPLE", "BYTES", "RANGE", "VERSION", "CALLABLE", "SLICE"):
                modes.add("immutable")
            else:
                modes.add("external")
        if len(modes) > 1:
            groups: Dict[str, set] = {}
            for k in kinds:
                probe = SObj("p", {k})
                groups.setdefault(self.copy_mode(probe, node), set()).add(k)
            self.split_kinds(v, node, [frozenset(g) for g in groups.values()])
            return self.copy_mode(v, node)
        return next(iter(modes))

    def copy_(self, v: Any, deep: bool, node: Optional[ast.AST]) -> Any:
        if not isinstance(v, Sym):
            return v
        if isinstance(v, (SStr, SBool, SInt, SFunc, SClass, SExtern)):
            return v
        self.run.effect("copy", v, None, deep, node)
        if isinstance(v, SObj) and len(v.kinds) > 1 and not deep:
            # class not yet determined: decide how the copy behaves when one of its fields is first looked at
            o = SObj(f"copy({v.name})", v.kinds, origin="new")
            o.known, o.in_sets, o.excluded = v.known, dict(v.in_sets), set(v.excluded)
            o.meta.update({k: val for k, val in v.meta.items() if k in ("elem_kinds", "value_kinds")})
            o.meta["copy_of"] = v
            o.meta["copy_mode"] = "lazy"
            o.meta["elem_origin"] = _elem_origin(v)
            o.twins.append(v)
            v.twins.append(o)
            return o
        if isinstance(v, (SObj, SNew)):
            mode = self.copy_mode(v, node)
            if mode == "immutable":
                return v
            if mode == "interpret":
                ci = self.class_of(v)
                m = self.prog.find_method(ci, "__copy__")  # type: ignore[arg-type]
                return self.call_copy_method(v, m[0], m[1], node)  # type: ignore[index]
            nm = getattr(v, "name", None) or v.cls_name  # type: ignore[union-attr]
            if isinstance(v, SNew):
                o: Any = SNew(v.cls, v.args, v.kwargs, v.star, v.dstar)
                o.__dict__["meta"] = {}
                meta = o.__dict__["meta"]
            else:
                o = SObj(f"{'deepcopy' if deep else 'copy'}({nm})", v.kinds, origin="new")
                meta = o.meta
                o.known = v.known
                o.in_sets = dict(v.in_sets)
                o.excluded = set(v.excluded)
                meta.update({k: val for k, val in v.meta.items() if k in ("elem_kinds", "value_kinds")})
            meta["copy_of"] = v
            meta["copy_mode"] = "deep" if deep else mode
            src_elem = _elem_origin(v)
            meta["elem_origin"] = "new" if deep else src_elem
            return o
        if isinstance(v, SList):
            l = SList(v.mode, list(v.items), v.base, v.kinds, v.elt, v.var, v.name, v.cond)
            l.pytype = v.pytype
            if deep:
                l.items = [self.copy_(i, True, node) for i in l.items]
            return l
        if isinstance(v, SDict):
            d = SDict(v.name, dict(v.items), v.concrete)
            d.dstar = list(v.dstar)
            d.__dict__.update({k: val for k, val in v.__dict__.items() if k in ("value_kinds",)})
            if deep:
                d.items = {k: self.copy_(val, True, node) for k, val in d.items.items()}
            return d
        if isinstance(v, SOpaque):
            o3 = SOpaque(("deepcopy" if deep else "copy", v.descr), v.kinds)
            o3.__dict__["copy_of"] = v
            o3.__dict__["deep"] = deep
            return o3
        return v

    def copied_attr(self, o: Any, attr: str, node: Optional[ast.AST]) -> Any:
        """Attribute of an object produced by copy_: derived lazily from the source object."""
        meta = o.meta if isinstance(o, SObj) else o.__dict__.get("meta", {})
        src = meta.get("copy_of")
        mode = meta.get("copy_mode")
        if src is None or mode is None:
            return _MISSING
        if mode == "delegate":
            val = self.get_attr(meta["delegate"], attr, node)
            o.attrs[attr] = val
            return val
        if mode == "lazy":
            mode = self.copy_mode(o, node)
            if mode == "interpret":
                # the class has a __copy__ that is not the plain field-copy idiom: interpret it on the source
                ci = self.class_of(o)
                m = self.prog.find_method(ci, "__copy__")  # type: ignore[arg-type]
                if isinstance(src, SObj):
                    self.run.restrict(src, o.kinds)
                res = self.call_copy_method(src, m[0], m[1], node)  # type: ignore[index]
                meta["copy_mode"] = "delegate"
                meta["delegate"] = res
                val = self.get_attr(res, attr, node)
                o.attrs[attr] = val
                return val
            meta["copy_mode"] = mode
            if isinstance(src, SObj):
                try:
                    self.run.restrict(src, o.kinds)
                except Exception:
                    pass
        base = self.get_attr(src, attr, node)
        if isinstance(base, (SFunc, SBound)):
            return _MISSING
        if mode == "fieldwise":
            val = self.copy_(base, False, node)
        elif mode == "deep":
            val = self.copy_(base, True, node)
        elif mode == "userlist" and attr == "data":
            val = self.copy_(base, False, node)
        else:
            val = base
        o.attrs[attr] = val
        return val

    # ------------------------------------------------------------------ bound builtin methods
    def call_bound(self, b: SBound, args: List[Any], kwargs: Dict[str, Any], node: Optional[ast.AST],
                   dstar: Optional[List[Any]] = None) -> Any:
        from .eval_expr import _Base, _K
        recv, name = b.recv, b.name
        run = self.run
        # ---- strings ------------------------------------------------------------------
        s = self.as_sstr(recv) if not isinstance(recv, (_Base,)) else None
        if s is not None and not isinstance(recv, (SList, SDict)):
            if s.is_const() and all(not isinstance(a, Sym) for a in args) and name in _PURE_STR_METHODS:
                try:
                    return getattr(s.const(), name)(*args, **kwargs)
                except Exception:
                    raise self.unmodelled(f"constant string method {name}", node)
            if name == "join":
                return self.str_join(s, args[0], node)
            if name in ("endswith", "startswith"):
                if s.frags and isinstance(args[0], str):
                    edge = s.frags[-1] if name == "endswith" else s.frags[0]
                    if edge.kind == "LIT" and args[0]:
                        if name == "endswith" and len(edge.a) >= len(args[0]):
                            return edge.a.endswith(args[0])
                        if name == "startswith" and len(edge.a) >= len(args[0]):
                            return edge.a.startswith(args[0])
                atom = (name, s.key(), _deep(args[0]))
                self.run.atom_info[atom] = {"op": name, "recv": s, "arg": args[0]}
                return SBool(atom)
            if name in ("islower", "isupper", "isalpha", "isalnum", "isascii", "isidentifier", "istitle") and not args and not kwargs:
                # a predicate of the characters of an unknown string: either answer (the receiver is kept for clients that
                # evaluate the path on sample strings)
                atom = (name, s.key())
                self.run.atom_info[atom] = {"op": name, "recv": s, "arg": None}
                return SBool(atom)
            if name in _PURE_STR_METHODS:
                if name in ("split", "rsplit", "splitlines", "partition", "rpartition"):
                    o = SOpaque((f"str.{name}", repr(s)) + tuple(short(a) for a in args), {"LIST"})
                    o.__dict__["strop"] = {"op": name, "recv": s, "args": list(args)}
                    so = SObj(f"{short(s)}.{name}({', '.join(short(a) for a in args)})", {"LIST"}, origin="new")
                    so.meta["strop"] = o.__dict__["strop"]
                    so.meta["elem_kinds"] = {"STR"}
                    return so
                if name in ("isdigit", "isspace"):
                    return SBool((name, s.key()))
                if name in ("find", "count"):
                    return SOpaque((f"str.{name}", repr(s)), {"INT"})
                key = ("str." + name,) + tuple(_deep(a) for a in args)
                self.run.atom_info[("strop",) + key] = list(args)
                return SStr([Frag("OP", key, s, ())])
            if name == "translate" and len(args) == 1 and isinstance(args[0], dict) and all(isinstance(k_, int) for k_ in args[0]) \
                    and all(v_ is None or isinstance(v_, (str, int)) for v_ in args[0].values()):
                # a per-character mapping: every character with an entry is replaced by its image, all at once
                pairs = tuple(sorted((chr(k_), "" if v_ is None else (chr(v_) if isinstance(v_, int) else v_)) for k_, v_ in args[0].items()))
                return SStr([Frag("OP", ("str.translate", pairs), s, ())])
            raise self.unmodelled(f"string method {name}", node)
        # ---- super() of a builtin base ---------------------------------------------------
        if isinstance(recv, _Base):
            run.effect("basecall", recv.obj, f"{recv.base}.{name}", list(args), node, extra=dict(kwargs))
            run.effects[-1].__dict__["dstar"] = list(dstar or [])
            if name == "__init__":
                if recv.base in ("UserList",):
                    pass
                return None
            if name == "__new__":
                return SNew("new")
            return SOpaque((f"{recv.base}.{name}", _ref(recv.obj)))
        # ---- concrete lists -----------------------------------------------------------------
        if isinstance(recv, SList):
            if recv.mode == "map" and recv.pytype == "list" and name in ("append", "extend") and len(args) == 1 and "entry" not in recv.__dict__:
                # a comprehension result that is added to: [*<the comprehension>, ...]
                m_ = SList("map", [], recv.base, recv.kinds, recv.elt, recv.var, recv.name, recv.cond)
                m_.__dict__.update({k_: v_ for k_, v_ in recv.__dict__.items() if k_ not in ("uid", "mode", "items", "base", "kinds", "elt", "var", "name", "cond")})
                recv.mode, recv.items, recv.base, recv.elt, recv.var, recv.cond, recv.kinds = "concrete", [SSplat(m_)], None, None, None, None, None
            if recv.mode == "concrete":
                if name == "append":
                    recv.items.append(args[0])
                    return None
                if name == "extend":
                    recv.items.extend(self.splat(args[0], node))
                    return None
                if name == "insert" and isinstance(args[0], int):
                    recv.items.insert(args[0], args[1])
                    return None
                if name == "copy":
                    return self.copy_(recv, False, node)
            if name in _LIST_MUTATORS or name in _SET_MUTATORS:
                run.effect("mutcall", recv, name, list(args), node)
                if recv.mode == "concrete":
                    recv.mode = "carried"
                return None
            if name == "index":
                return SOpaque(("index", recv.uid, short(args[0])), {"INT"})
            if name == "count":
                return SOpaque(("count", recv.uid), {"INT"})
            raise self.unmodelled(f"list method {name}", node)
        if isinstance(recv, (list, tuple)):
            if name in ("index", "count"):
                return SOpaque((name, repr(recv)), {"INT"})
            raise self.unmodelled(f"method {name} on constant sequence", node)
        # ---- dicts ------------------------------------------------------------------------------
        if isinstance(recv, (SDict, dict)):
            if isinstance(recv, dict):
                recv = SDict(items=dict(recv))
            if name == "items":
                if recv.concrete and not recv.dstar:
                    return [_tuple2(k.v if isinstance(k, _K) else k, v) for k, v in recv.items.items()]
                return _iter(("items", recv))
            if name == "keys":
                if recv.concrete and not recv.dstar:
                    return [k.v if isinstance(k, _K) else k for k in recv.items]
                return _iter(("keys", recv))
            if name == "values":
                if recv.concrete and not recv.dstar:
                    return list(recv.items.values())
                return _iter(("values", recv))
            if name == "get":
                key = args[0] if not isinstance(args[0], Sym) else _K(args[0])
                if key in recv.items:
                    return recv.items[key]
                if recv.concrete and not recv.dstar:
                    return args[1] if len(args) > 1 else None
                if len(args) > 1 and isinstance(args[1], Sym):
                    # d.get(k, <some object>): the same decision as `k in d`, then the item or that object
                    if not run.truth(self.contains(recv, args[0], node), node):
                        return args[1]
                    return self.get_item(recv, args[0], node)  # type: ignore[arg-type]
                v = self.get_item(recv, args[0], node)  # type: ignore[arg-type]
                if isinstance(v, SObj) and (len(args) < 2 or not isinstance(args[1], Sym)):
                    v.kinds = v.kinds | {kinds_of_pyvalue(args[1]) if len(args) > 1 else "NONE"}
                    v.meta["get_default"] = args[1] if len(args) > 1 else None
                return v
            if name == "update" and "fields_of" in recv.__dict__ and len(args) == 1 and isinstance(args[0], SDict) and "comp" in args[0].__dict__:
                comp = args[0].__dict__["comp"]
                it = comp["iter"]
                d = getattr(it, "iter_descr", None)
                src_fields = d[1] if d is not None and d[0] == "items" else None
                src = src_fields.__dict__.get("fields_of") if isinstance(src_fields, SDict) else None
                var = comp["var"]
                val = comp["value"]
                vsrc = var.items[1] if isinstance(var, SList) and len(var.items) == 2 else None
                keyv = var.items[0] if isinstance(var, SList) and len(var.items) == 2 else None
                mode = None
                if src is not None and not comp["ifs"] and comp["key"] is keyv:
                    if val is vsrc:
                        mode = "alias"
                    elif isinstance(val, SObj) and val.meta.get("copy_of") is vsrc:
                        mode = "deep" if val.meta.get("copy_mode") == "deep" else "fieldwise"
                tgt = recv.__dict__["fields_of"]
                if mode is not None and isinstance(tgt, (SNew, SObj)):
                    # tgt.__dict__.update({k: copy(v) for k, v in src.__dict__.items()}): tgt is a field-wise copy of src
                    meta = tgt.meta if isinstance(tgt, SObj) else tgt.__dict__.setdefault("meta", {})
                    meta["copy_of"] = src
                    meta["copy_mode"] = mode
                    meta["elem_origin"] = _elem_origin(src)
                    if isinstance(tgt, SNew) and isinstance(src, (SObj, SNew)):
                        tgt.__dict__["class_like"] = src
                    run.effect("copy", src, None, mode == "deep", node)
                    return None
            if name in _DICT_MUTATORS:
                run.effect("mutcall", recv, name, list(args), node, extra=dict(kwargs))
                if name == "update" and recv.concrete and args and isinstance(args[0], (SDict, dict)) and not kwargs:
                    src = args[0].items if isinstance(args[0], SDict) else args[0]
                    recv.items.update(src)
                    return None
                if name == "pop":
                    key = args[0] if not isinstance(args[0], Sym) else _K(args[0])
                    if key in recv.items:
                        return recv.items.pop(key)
                    v = self.get_item(recv, args[0], node)  # type: ignore[arg-type]
                    if isinstance(v, SObj) and len(args) > 1 and not isinstance(args[1], Sym):
                        v.kinds = v.kinds | {kinds_of_pyvalue(args[1])}
                    return v
                recv.concrete = False
                return None
            if name == "copy":
                return self.copy_(recv, False, node)
            raise self.unmodelled(f"dict method {name}", node)
        if isinstance(recv, (set, frozenset)):
            raise self.unmodelled(f"method {name} on constant set", node)
        # ---- symbolic objects: by kind -----------------------------------------------------------
        if isinstance(recv, (SObj, SNew, SOpaque)):
            return self.call_obj_method(recv, name, args, kwargs, node, dstar)
        if isinstance(recv, TypeRef):
            if name == "__add__" and recv.py is str:
                return self.add(self.as_sstr(args[0]) or args[0], args[1], node)  # str.__add__(a, b)
            if name == "__new__":
                return SNew(recv.name)
            if name == "maketrans" and recv.py is str and args and all(isinstance(a_, (dict, str)) for a_ in args) and not kwargs:
                try:
                    return str.maketrans(*args)        # a translation table over constants is a constant
                except Exception:
                    raise self.unmodelled("str.maketrans on these constants", node)
            if name == "fromkeys" and recv.py is dict:
                o = SOpaque(("dict.fromkeys", short(args[0])), {"DICT"})
                o.__dict__["of"] = args[0]
                return o
            raise self.unmodelled(f"{recv!r}.{name}", node)
        if isinstance(recv, SClass) and name == "__new__":
            ci = args[0].ci if args and isinstance(args[0], SClass) else recv.ci
            o = SNew(ci)
            o.__dict__["via_new"] = True
            return o
        if isinstance(recv, SFunc):
            raise self.unmodelled(f"function attribute call {name}", node)
        raise self.unmodelled(f"method {name} of {type(recv).__name__}", node)

    def str_join(self, sep: SStr, seq: Any, node: Optional[ast.AST]) -> Any:
        items = self.concrete_items(seq)
        if items is not None:
            out: List[Frag] = []
            for i, it in enumerate(items):
                if i:
                    out.extend(sep.frags)
                s = self.as_sstr(it)
                if s is None:
                    raise self.unmodelled("join of non-string", node)
                out.extend(s.frags)
            r = SStr(out)
            return r.const() if r.is_const() else r
        if isinstance(seq, SList) and seq.mode == "carried" and "loop" in seq.__dict__ and sep.is_const() and sep.const() == "":
            # parts.append(...) in a loop, then "".join(parts): the same stream as `acc += ...` in that loop
            entry = seq.__dict__.get("entry")
            pre: List[Frag] = []
            ok = True
            for it in (entry.items if isinstance(entry, SList) else list(entry or [])):
                s0 = self.as_sstr(it)
                if s0 is None:
                    ok = False
                    break
                pre.extend(s0.frags)
            if ok:
                return SStr(pre + [Frag("LOOP", seq.__dict__["loop"], seq.name)])
        if isinstance(seq, SList) and seq.mode == "map":
            item = self.as_sstr(seq.elt)
            payload = {"sep": sep, "item": item if item is not None else seq.elt, "over": seq.base, "var": seq.var, "cond": seq.cond, "map": seq}
            return SStr([Frag("OP", ("join", sep.const() if sep.is_const() else repr(sep)), payload, ())])
        return SStr([Frag("OP", ("join", sep.const() if sep.is_const() else repr(sep)), {"sep": sep, "seq": seq}, ())])

    def call_obj_method(self, recv: Any, name: str, args: List[Any], kwargs: Dict[str, Any], node: Optional[ast.AST],
                        dstar: Optional[List[Any]] = None) -> Any:
        run = self.run
        kinds: FrozenSet[str]
        if isinstance(recv, SOpaque) and "match_text" in recv.__dict__:
            # a regular-expression match of known text (used to read off what a replacement callback does per character)
            if name == "group" and not kwargs and (not args or args == [0]):
                return recv.__dict__["match_text"]
            raise self.unmodelled(f"match.{name}{tuple(short(a_) for a_ in args)} in a replacement callback", node)
        if isinstance(recv, SNew):
            k0 = self.U.kind_of_class(recv.cls) if isinstance(recv.cls, ClassInfo) else None
            kinds = frozenset({k0 or "OTHER"})
            if k0 is None and isinstance(recv.cls, ClassInfo):
                for base, kk in (("dict", "DICT"), ("UserList", "LIST"), ("UserString", "HTMLSTR")):
                    if self.prog.is_subclass(recv.cls, base):
                        kinds = frozenset({kk})
        elif isinstance(recv, SOpaque):
            kinds = recv.kinds or frozenset({"OTHER"})
        else:
            kinds = recv.kinds
        dictish = kinds <= frozenset({"DICT", "TAGATTRDICT", "JSXATTRDICT"})
        listish = kinds <= frozenset({"LIST", "TAGLIST", "TUPLE"})
        if dictish:
            if name in ("items", "keys", "values"):
                return _iter((name, recv))
            if name == "get":
                if len(args) > 1 and isinstance(args[1], Sym):
                    if not run.truth(self.contains(recv, args[0], node), node):
                        return args[1]
                    return self.get_item(recv, args[0], node)  # type: ignore[arg-type]
                v = self.get_item(recv, args[0], node)  # type: ignore[arg-type]
                if isinstance(v, SObj):
                    # missing key -> default
                    v.kinds = v.kinds | {kinds_of_pyvalue(args[1]) if len(args) > 1 and not isinstance(args[1], Sym) else "NONE"}
                return v
            if name in _DICT_MUTATORS:
                run.effect("mutcall", recv, name, list(args), node, extra={"kwargs": dict(kwargs), "dstar": dstar or []})
                if name == "pop":
                    return self.get_item(recv, args[0], node)  # type: ignore[arg-type]
                return None
            if name == "copy":
                if isinstance(recv, SObj) and recv.kinds & {"TAGATTRDICT", "JSXATTRDICT"}:
                    # dict.copy() of an instance of a dict subclass is a plain dict (the subclass is lost)
                    o = SObj(f"{recv.name}.copy()", {"DICT"}, origin="new")
                    o.meta["copy_of"] = recv
                    o.meta["copy_mode"] = "dict"
                    vk = recv.meta.get("value_kinds")
                    if vk:
                        o.meta["value_kinds"] = vk
                    run.effect("copy", recv, None, False, node)
                    return o
                return self.copy_(recv, False, node)
        if listish:
            if name in _LIST_MUTATORS:
                run.effect("mutcall", recv, name, list(args), node, extra={"kwargs": dict(kwargs)})
                return None
            if name == "copy":
                return self.copy_(recv, False, node)
            if name in ("index", "count"):
                return SOpaque((name, _ref(recv)), {"INT"})
        if kinds <= frozenset({"SET"}) and name in _SET_MUTATORS:
            run.effect("mutcall", recv, name, list(args), node)
            return None
        if kinds <= frozenset({"HTMLSTR"}) and name in _PURE_STR_METHODS:
            data = self.as_sstr(self.get_attr(recv, "data", node))
            if name in ("endswith", "startswith"):
                atom = (name, data.key() if data else _ref(recv), _deep(args[0]))
                self.run.atom_info[atom] = {"op": name, "recv": data, "arg": args[0], "obj": recv}
                return SBool(atom)
            if name in ("split", "rsplit", "splitlines"):
                so = SObj(f"{short(recv)}.{name}({', '.join(short(a) for a in args)})", {"LIST"}, origin="new")
                so.meta["strop"] = {"op": name, "recv": data, "args": list(args), "obj": recv}
                so.meta["elem_kinds"] = {"STR"}
                return so
            return SOpaque((f"UserString.{name}", _ref(recv)))
        if kinds <= frozenset({"VERSION"}):
            return SOpaque((f"Version.{name}", _ref(recv)))
        # compiled regular expressions: pattern.search(s) == re.search(pattern, s)
        ec = recv.__dict__.get("extcall") if isinstance(recv, SOpaque) else None
        if ec is not None and ec["q"] == "re.compile" and name in ("search", "match", "fullmatch", "sub", "subn", "findall"):
            pargs = list(ec["args"])
            kw = dict(ec["kwargs"])
            if len(pargs) > 1:
                kw.setdefault("flags", pargs[1])
            if name in ("sub", "subn"):
                return self.call_extern(SExtern("re", name), [pargs[0]] + list(args), dict(kw, **kwargs), node)
            return self.call_extern(SExtern("re", name), [pargs[0]] + list(args), dict(kw, **kwargs), node)
        # external object's method (tagify / _repr_html_ of user classes, file objects, ...)
        run.effect("call", SBound(recv, name), recv, list(args), node, extra={"kwargs": dict(kwargs), "external": True})
        if name == "_repr_html_":
            return SStr([Frag("OF", (recv.uid, getattr(recv, "name", "obj")), "REPRHTML", ())])
        if name == "tagify":
            o = SObj(f"{getattr(recv, 'name', 'obj')}.tagify()", {"TAG", "TAGLIST", "META", "HTMLDEP", "STR", "HTMLSTR"}, origin="opaque")
            o.meta["tagify_of"] = recv
            return o
        o2 = SOpaque((f".{name}", _ref(recv)) + tuple(short(a) for a in args))
        o2.__dict__["method_call"] = {"recv": recv, "name": name, "args": list(args), "kwargs": dict(kwargs)}
        return o2

    def raise_exc(self, name: str, node: Optional[ast.AST]) -> None:
        from .interp import _Raise
        raise _Raise(SNew(name), node)


_MISSING = object()


def _elem_origin(v: Any) -> str:
    m = v.meta if isinstance(v, SObj) else v.__dict__.get("meta", {}) if isinstance(v, SNew) else {}
    return m.get("elem_origin") or getattr(v, "origin", "new")


def is_field_copy(prog: Any, mod: Any, fn: ast.FunctionDef) -> bool:
    """The __copy__ method `fn` is the field-copy idiom, written out or delegated (`return helper(self)`) to a function that is."""
    if not fn.args.args:
        return False
    me = fn.args.args[0].arg
    if _is_dict_copy_idiom(fn, me):
        return True
    body = [st for st in fn.body if not (isinstance(st, ast.Expr) and isinstance(st.value, ast.Constant))]
    if len(body) == 1 and isinstance(body[0], ast.Return) and isinstance(body[0].value, ast.Call):
        c = body[0].value
        if isinstance(c.func, ast.Name) and not c.keywords and len(c.args) == 1 and isinstance(c.args[0], ast.Name) and c.args[0].id == me:
            k, v = prog.resolve(mod, c.func.id)
            if k == "func" and v[1].args.args and not v[1].decorator_list:
                return _is_dict_copy_idiom(v[1], v[1].args.args[0].arg)
    return False


def _is_dict_copy_idiom(fn: ast.FunctionDef, me: str = "self") -> bool:
    """`new = {k: copy(v) for k, v in self.__dict__.items()}; cp = cls.__new__(cls); cp.__dict__.update(new); return cp`."""
    has_comp = has_update = has_new = False
    for n in ast.walk(fn):
        if isinstance(n, ast.DictComp) and len(n.generators) == 1:
            g = n.generators[0]
            it = g.iter
            if isinstance(it, ast.Call) and isinstance(it.func, ast.Attribute) and it.func.attr == "items" \
                    and isinstance(it.func.value, ast.Attribute) and it.func.value.attr == "__dict__" \
                    and isinstance(it.func.value.value, ast.Name) and it.func.value.value.id == me and not g.ifs:
                v = n.value
                if isinstance(v, ast.Call) and not v.keywords and len(v.args) == 1 and ast.unparse(v.func) in ("copy", "copy.copy") \
                        and isinstance(g.target, ast.Tuple) and len(g.target.elts) == 2 and isinstance(v.args[0], ast.Name) \
                        and isinstance(g.target.elts[1], ast.Name) and v.args[0].id == g.target.elts[1].id \
                        and isinstance(n.key, ast.Name) and isinstance(g.target.elts[0], ast.Name) and n.key.id == g.target.elts[0].id:
                    has_comp = True
        if isinstance(n, ast.Call) and isinstance(n.func, ast.Attribute) and n.func.attr == "update" \
                and isinstance(n.func.value, ast.Attribute) and n.func.value.attr == "__dict__" and len(n.args) == 1 and not n.keywords \
                and not (isinstance(n.func.value.value, ast.Name) and n.func.value.value.id == me):
            # <copy>.__dict__.update(<the comprehension, inline or through the one name it was assigned to>)
            a0 = n.args[0]
            if isinstance(a0, ast.DictComp):
                has_update = True
            elif isinstance(a0, ast.Name):
                binds = [x for x in ast.walk(fn) if isinstance(x, (ast.Assign, ast.AnnAssign))
                         and any(isinstance(t, ast.Name) and t.id == a0.id for t in (x.targets if isinstance(x, ast.Assign) else [x.target]))]
                has_update = len(binds) == 1 and isinstance(binds[0].value, ast.DictComp)
        if isinstance(n, ast.Call) and isinstance(n.func, ast.Attribute) and n.func.attr == "__new__":
            has_new = True
    rets = [n for n in ast.walk(fn) if isinstance(n, ast.Return)]
    if has_comp and has_update and has_new and len(rets) == 1:
        return True
    # the same copy written as a loop: for k, v in self.__dict__.items(): cp.__dict__[k] = copy(v)   (or setattr(cp, k, copy(v)))
    dict_aliases = {t.id for n in ast.walk(fn) if isinstance(n, ast.Assign) and isinstance(n.value, ast.Attribute) and n.value.attr == "__dict__"
                    and not (isinstance(n.value.value, ast.Name) and n.value.value.id == me)
                    for t in n.targets if isinstance(t, ast.Name)}
    has_loop = False
    for n in ast.walk(fn):
        if not (isinstance(n, ast.For) and not n.orelse and len(n.body) == 1 and isinstance(n.target, ast.Tuple) and len(n.target.elts) == 2
                and all(isinstance(e, ast.Name) for e in n.target.elts)):
            continue
        it = n.iter
        if not (isinstance(it, ast.Call) and isinstance(it.func, ast.Attribute) and it.func.attr == "items" and not it.args
                and isinstance(it.func.value, ast.Attribute) and it.func.value.attr == "__dict__"
                and isinstance(it.func.value.value, ast.Name) and it.func.value.value.id == me):
            continue
        k, v = n.target.elts[0].id, n.target.elts[1].id  # type: ignore[attr-defined]

        def _is_copy_of_v(e: ast.expr) -> bool:
            return isinstance(e, ast.Call) and not e.keywords and len(e.args) == 1 and ast.unparse(e.func) in ("copy", "copy.copy") \
                and isinstance(e.args[0], ast.Name) and e.args[0].id == v

        st = n.body[0]
        if isinstance(st, ast.Assign) and len(st.targets) == 1 and isinstance(st.targets[0], ast.Subscript) and _is_copy_of_v(st.value):
            tg = st.targets[0]
            base_ok = (isinstance(tg.value, ast.Attribute) and tg.value.attr == "__dict__" and not (isinstance(tg.value.value, ast.Name) and tg.value.value.id == me)) \
                or (isinstance(tg.value, ast.Name) and tg.value.id in dict_aliases)
            if not base_ok and isinstance(tg.value, ast.Name):
                # a temporary dict filled by the loop and handed to <copy>.__dict__.update(tmp) afterwards
                tmp = tg.value.id
                is_fresh = any(isinstance(a, (ast.Assign, ast.AnnAssign)) and any(isinstance(t, ast.Name) and t.id == tmp for t in (a.targets if isinstance(a, ast.Assign) else [a.target]))
                               and (isinstance(a.value, ast.Dict) and not a.value.keys or (isinstance(a.value, ast.Call) and isinstance(a.value.func, ast.Name) and a.value.func.id == "dict" and not a.value.args and not a.value.keywords))
                               for a in ast.walk(fn))
                handed = any(isinstance(c, ast.Call) and isinstance(c.func, ast.Attribute) and c.func.attr == "update" and isinstance(c.func.value, ast.Attribute)
                             and c.func.value.attr == "__dict__" and not (isinstance(c.func.value.value, ast.Name) and c.func.value.value.id == me)
                             and len(c.args) == 1 and isinstance(c.args[0], ast.Name) and c.args[0].id == tmp for c in ast.walk(fn))
                base_ok = is_fresh and handed
            if base_ok and isinstance(tg.slice, ast.Name) and tg.slice.id == k:
                has_loop = True
        if isinstance(st, ast.Expr) and isinstance(st.value, ast.Call) and isinstance(st.value.func, ast.Name) and st.value.func.id == "setattr" \
                and len(st.value.args) == 3 and isinstance(st.value.args[0], ast.Name) and st.value.args[0].id != me \
                and isinstance(st.value.args[1], ast.Name) and st.value.args[1].id == k and _is_copy_of_v(st.value.args[2]):
            has_loop = True
    return has_loop and has_new and len(rets) == 1


_EXC = {"TypeError", "ValueError", "RuntimeError", "KeyError", "IndexError", "Exception", "NotImplementedError",
        "ImportError", "AttributeError", "StopIteration", "OSError", "FileNotFoundError", "AssertionError"}


def _iter(descr: Tuple[Any, ...]) -> SOpaque:
    o = SOpaque(tuple(short(x) if isinstance(x, Sym) else x for x in descr))
    o.__dict__["iter_descr"] = descr
    return o


def _tuple2(a: Any, b: Any) -> Any:
    if isinstance(a, Sym) or isinstance(b, Sym):
        t = SList("concrete", [a, b])
        t.pytype = "tuple"
        return t
    return (a, b)


def _ref(v: Any) -> Any:
    if v is None:
        return None
    return getattr(v, "uid", None) or short(v)


def _deep(v: Any) -> Any:
    if isinstance(v, SStr):
        return v.key()
    if isinstance(v, Sym):
        return getattr(v, "uid", None) or repr(v)
    if isinstance(v, (list, tuple)):
        return tuple(_deep(x) for x in v)
    return v


def _const_or(s: Any) -> Any:
    if isinstance(s, SStr) and s.is_const():
        return s.const()
    return s


def _has_meta(s: str, mode: str) -> bool:
    chars = "&<>" + ("\"'\r\n" if mode == "attr" else "")
    return any(c in s for c in chars)




def _own_nodes(fn: ast.AST):
    """Nodes of a function body, not descending into nested functions / lambdas / classes."""
    stack = list(getattr(fn, "body", []))
    while stack:
        n = stack.pop()
        yield n
        for c in ast.iter_child_nodes(n):
            if isinstance(c, (ast.FunctionDef, ast.AsyncFunctionDef, ast.Lambda, ast.ClassDef)):
                continue
            stack.append(c)


def is_generator(fn: ast.AST) -> bool:
    if not isinstance(fn, (ast.FunctionDef, ast.AsyncFunctionDef)):
        return False
    # cached on the node itself (an id()-keyed table would outlive the program it was computed for)
    g = fn.__dict__.get("_sa_is_gen")
    if g is None:
        g = any(isinstance(n, (ast.Yield, ast.YieldFrom)) for n in _own_nodes(fn))
        fn.__dict__["_sa_is_gen"] = g
    return g


class _Collect(ast.NodeTransformer):
    def visit_FunctionDef(self, node: ast.FunctionDef) -> Any:
        return node      # nested functions keep their own yields

    visit_AsyncFunctionDef = visit_FunctionDef  # type: ignore[assignment]
    visit_Lambda = visit_FunctionDef            # type: ignore[assignment]

    def visit_Expr(self, node: ast.Expr) -> Any:
        v = node.value
        if isinstance(v, ast.Yield):
            call = ast.Call(ast.Attribute(ast.Name("__yielded", ast.Load()), "append", ast.Load()), [v.value or ast.Constant(None)], [])
            return ast.copy_location(ast.Expr(call), node)
        if isinstance(v, ast.YieldFrom):
            call = ast.Call(ast.Attribute(ast.Name("__yielded", ast.Load()), "extend", ast.Load()), [v.value], [])
            return ast.copy_location(ast.Expr(call), node)
        return node

    def visit_Return(self, node: ast.Return) -> Any:
        return ast.copy_location(ast.Return(ast.Name("__yielded", ast.Load())), node)


def collecting_twin(fn: ast.FunctionDef) -> ast.FunctionDef:
    """`def g(..): ... yield v ...`  ->  `def g(..): __yielded = []; ... __yielded.append(v) ...; return __yielded`."""
    if fn.__dict__.get("_sa_twin") is not None:
        return fn.__dict__["_sa_twin"]
    import copy as _copy
    for n in _own_nodes(fn):
        if isinstance(n, (ast.Yield, ast.YieldFrom)):
            pass
    tw = _copy.deepcopy(fn)
    tw.__dict__.pop("_sa_is_gen", None)
    # a yield used as an expression value (x = yield v) is not supported
    for n in _own_nodes(tw):
        if isinstance(n, (ast.Yield, ast.YieldFrom)):
            par_ok = False
            for m in _own_nodes(tw):
                if isinstance(m, ast.Expr) and m.value is n:
                    par_ok = True
            if not par_ok:
                raise Unmodelled(f"{fn.name}: yield used as an expression")
    tr = _Collect()
    tw.body = [x for st in tw.body for x in ([tr.visit(st)] if True else [])]
    pre = ast.Assign([ast.Name("__yielded", ast.Store())], ast.List([], ast.Load()))
    post = ast.Return(ast.Name("__yielded", ast.Load()))
    tw.body = [pre] + tw.body + [post]
    ast.copy_location(pre, fn)
    ast.copy_location(post, fn)
    ast.fix_missing_locations(tw)
    tw.__dict__["_sa_is_gen"] = False
    fn.__dict__["_sa_twin"] = tw
    return tw


_NOFOLD = object()


def owner_of(x: Any) -> str:
    """"input" when x is (or holds) an object that existed before the function under analysis ran, "new" when x and what it
    holds were made here, else "opaque"."""
    if isinstance(x, (SStr, SBool)):
        return "new"
    if isinstance(x, SObj):
        if x.origin in ("input", "global"):
            return "input"
        if x.origin == "new":
            eo = x.meta.get("elem_origin", "new")
            return "new" if eo == "new" else ("input" if eo in ("input", "global") else "opaque")
        return "opaque"
    if isinstance(x, SNew):
        eo = x.__dict__.get("meta", {}).get("elem_origin", "new")
        return "new" if eo == "new" else ("input" if eo in ("input", "global") else "opaque")
    if isinstance(x, (SList, SDict)):
        if getattr(x, "origin", "new") in ("input", "global"):
            return "input"
        return _args_elem_origin([x]) if isinstance(x, SList) else "opaque"
    return "opaque"


def _args_elem_origin(args: List[Any], depth: int = 0) -> str:
    """"input" if some element handed to a container constructor may be an object that existed before (a parameter, a field
    or element of one, module state), "opaque" if unknown, else "new"."""
    worst = "new"

    def up(x: str) -> None:
        nonlocal worst
        order = {"new": 0, "opaque": 1, "global": 2, "input": 2}
        if order.get(x, 1) > order.get(worst, 0):
            worst = "input" if x in ("input", "global") else x

    if depth > 6:
        return "opaque"
    for a in args:
        if isinstance(a, SSplat):
            a = a.value
        if isinstance(a, SObj):
            if a.kinds and a.kinds <= frozenset({"LIST", "TUPLE", "TAGLIST"}):
                up(_elem_origin(a))
            else:
                up(a.origin if a.origin in ("new", "input", "global") else "opaque")
        elif isinstance(a, SNew):
            if getattr(a, "cls_name", "") in ("TagList",):
                up(_elem_origin(a))
        elif isinstance(a, SList):
            if a.mode == "concrete":
                up(_args_elem_origin(list(a.items), depth + 1))
            elif a.mode == "map":
                for t in [a.elt] + list(a.__dict__.get("elt_alts", [])):
                    if t is a.var and a.base is not None:
                        up(_elem_origin(a.base) if isinstance(a.base, (SObj, SNew)) else getattr(a.base, "origin", "new"))
                    else:
                        up(_args_elem_origin([t], depth + 1))
            elif a.mode == "view" and a.base is not None:
                up(_elem_origin(a.base) if isinstance(a.base, (SObj, SNew)) else "opaque")
            else:
                ent = a.__dict__.get("entry")
                up(_args_elem_origin(list(ent), depth + 1) if isinstance(ent, list) else "opaque")
        elif isinstance(a, SOpaque):
            up("new" if "copy_of" in a.__dict__ and False else "opaque")
        elif isinstance(a, (list, tuple)):
            up(_args_elem_origin(list(a), depth + 1))
    return worst
