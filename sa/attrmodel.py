"""Attribute storage model derived by Engine A: TagAttrDict.update / __setitem__ / _normalize_attr_value /
_normalize_attr_name and the Tag helpers that write attributes.  Shared by C03, C04, C15, C16."""

from __future__ import annotations

import ast
from typing import Any, Dict, FrozenSet, List, Optional, Tuple

from .eval_stmt import loops_of
from .frontend import AnalysisError, Program
from .interp import Config, Interp, Leaf
from .values import (ALL_KINDS, ANY_VALUE_KINDS, Frag, SBool, SDict, SList, SNew, SObj, SOpaque, SStr, Sym, Unmodelled,
                     short)

CORE = "htmltools._core"
UPD = f"{CORE}:TagAttrDict.update"


class ValueClass:
    """Classification of an abstract attribute value: ('html'|'plain'|'none'|'other', fragments)."""

    def __init__(self, v: Any):
        self.v = v
        self.kind = "other"
        self.frags: Tuple[Frag, ...] = ()
        if v is None:
            self.kind = "none"
        elif isinstance(v, str):
            self.kind = "plain"
            self.frags = (Frag("LIT", v),) if v else ()
        elif isinstance(v, SStr):
            self.kind = "plain"
            self.frags = v.frags
        elif isinstance(v, SNew) and v.cls_name == "HTML":
            self.kind = "html"
            d = v.attrs.get("data")
            if isinstance(d, SStr):
                self.frags = d.frags
            elif isinstance(d, str):
                self.frags = (Frag("LIT", d),) if d else ()
            else:
                self.kind = "other"
        elif isinstance(v, SObj):
            if v.kinds <= frozenset({"HTMLSTR"}):
                self.kind = "html"
                self.frags = (Frag("OF", (v.uid, v.name), "TRUSTED", ()),)
            elif v.kinds <= frozenset({"STR", "JSXEXPR"}):
                self.kind = "plain"
                self.frags = (Frag("OF", (v.uid, v.name), "PLAIN", ()),)
            elif v.kinds <= frozenset({"STR", "JSXEXPR", "HTMLSTR"}):
                self.kind = "asis"      # stored exactly as given (either kind)
                self.frags = (Frag("OF", (v.uid, v.name), "ASIS", ()),)
            elif v.kinds <= frozenset({"NONE"}):
                self.kind = "none"

    def problems(self) -> List[str]:
        """Escape-typestate errors of a value about to be stored as an attribute value."""
        out: List[str] = []
        for f in self.frags:
            if f.kind == "LIT":
                continue
            if f.kind != "OF":
                if f.kind == "OP" and isinstance(f.a, tuple) and f.a and f.a[0] in ("escaped-literal", "escaped"):
                    continue
                out.append(f"fragment {f!r} is not a value or literal")
                continue
            origin, esc = f.b, tuple(f.c or ())
            if self.kind == "html":
                if origin in ("PLAIN", "NUM", "ASIS") and esc != ("attr",):
                    out.append(f"a plain fragment {f!r} inside an HTML() attribute value is "
                               f"{'not escaped' if not esc else 'escaped as ' + '+'.join(esc)} (needs exactly one attribute-mode "
                               f"escape: the writer emits HTML() values verbatim)")
                if origin == "TRUSTED" and esc:
                    out.append(f"trusted markup {f!r} is escaped ({'+'.join(esc)}) inside an HTML() value")
            elif self.kind == "plain":
                if origin == "TRUSTED":
                    out.append(f"HTML() markup {f!r} ends up in a plain-str attribute value: the writer will escape it")
                elif esc:
                    out.append(f"fragment {f!r} is already escaped ({'+'.join(esc)}) in a plain-str value that the writer "
                               f"escapes again")
        return out


class UpdRow:
    def __init__(self, leaf: Leaf):
        self.leaf = leaf
        self.outcome = leaf.kind
        self.v_kinds: FrozenSet[str] = frozenset()
        self.seen: Optional[bool] = None
        self.prev_kinds: Optional[FrozenSet[str]] = None
        self.stored: Any = None
        self.stored_key: Any = None
        self.store_target: Any = None
        self.n_stores = 0
        self.exc: Optional[str] = None
        self.key_obj: Any = None
        self.val_obj: Any = None
        self.prev_obj: Any = None


def update_rows(prog: Program) -> Dict[str, Any]:
    """Per (value kind, name already seen in this call, kind of the accumulated value): what TagAttrDict.update stores."""
    I = Interp(prog)
    fn = prog.function(CORE, "TagAttrDict.update")
    loops = loops_of(fn)
    inner: Any = None
    for i, l in enumerate(loops):
        for j, o in enumerate(loops):
            if o is not l and any(n is l for n in ast.walk(o)):
                inner = i
    a = fn.args
    ctx_holder: Dict[str, Any] = {}
    stop_key: Any = ("TagAttrDict.update", inner) if inner is not None else None
    if stop_key is None:
        # the item loop lives in a helper: it is the loop over <argument dict>.items(), wherever it is
        def mk0(run: Any) -> Tuple[Dict[str, Any], Any]:
            s0 = SObj("self", {"TAGATTRDICT"})
            d0 = SObj("arg0", {"DICT"})
            d0.meta["value_kinds"] = ANY_VALUE_KINDS
            run.__dict__["d0"] = d0
            if a.vararg is None or a.kwarg is None:
                raise Unmodelled("TagAttrDict.update signature is not (*args, **kwargs)")
            return ({a.args[0].arg: s0, a.vararg.arg: (d0,), a.kwarg.arg: SDict()}, s0)

        cfg0 = Config()
        cfg0.loop_effects = False
        for l0 in I.run_function(CORE, "TagAttrDict.update", mk0, cfg0):
            for rec0 in l0.run.loops:
                d_ = getattr(rec0.iter_value, "iter_descr", None)
                if stop_key is None and d_ is not None and d_[0] == "items" and d_[1] is l0.run.__dict__["d0"]:
                    stop_key = rec0.__dict__.get("loop_key")
        if stop_key is None:
            raise Unmodelled("TagAttrDict.update: expected an outer loop over the argument dicts and an inner loop over items")
    cfg = Config()
    cfg.stop_at_loop = stop_key

    def mk(run: Any) -> Tuple[Dict[str, Any], Any]:
        s = SObj("self", {"TAGATTRDICT"})
        d = SObj("arg0", {"DICT"})
        d.meta["value_kinds"] = ANY_VALUE_KINDS
        binds: Dict[str, Any] = {a.args[0].arg: s}
        if a.vararg is None or a.kwarg is None:
            raise Unmodelled("TagAttrDict.update signature is not (*args, **kwargs)")
        binds[a.vararg.arg] = (d,)
        binds[a.kwarg.arg] = SDict()
        return binds, s

    rows: List[UpdRow] = []
    for l in I.run_function(CORE, "TagAttrDict.update", mk, cfg):
        rec = getattr(l.run, "stop_loop_record", None)
        if rec is None:
            continue
        el = rec.__dict__.get("element")
        if not (isinstance(el, SList) and len(el.items) == 2):
            raise Unmodelled("TagAttrDict.update: inner loop does not unpack (key, value)")
        k, v = el.items
        r = UpdRow(l)
        r.key_obj, r.val_obj = k, v
        r.v_kinds = frozenset(v.kinds)
        r.iter_value = rec.iter_value  # type: ignore[attr-defined]
        stores = [e for e in l.effects if e.kind == "store_item" and isinstance(e.target, SDict)]
        other = [e for e in l.effects if e.kind in ("store_item", "mutcall", "basecall", "store_attr") and e not in stores]
        r.other_effects = other  # type: ignore[attr-defined]
        r.n_stores = len(stores)
        if stores:
            r.stored = stores[-1].value
            r.stored_key = stores[-1].key
            r.store_target = stores[-1].target
        if l.kind == "raise":
            r.exc = l.value.cls_name if isinstance(l.value, SNew) else "?"
        # was the name already present, and what was there
        for atom, val in l.atoms:
            if isinstance(atom, tuple) and atom[0] == "in" and isinstance(atom[2], tuple) and atom[2][:1] == ("coll",):
                r.seen = bool(val)
        for o in l.run.elem_memo.values():
            if isinstance(o, SObj) and o.meta.get("item_of") is not None and isinstance(o.meta["item_of"][0], SDict):
                r.prev_obj = o
                r.prev_kinds = frozenset(o.kinds)
        if r.seen is None and r.prev_obj is not None:
            # `prev = attrz.get(nm)` ... `if prev is not None:` instead of `if nm in attrz:`
            for atom, val in l.atoms:
                if isinstance(atom, tuple) and atom[0] == "is" and atom[1] == r.prev_obj.uid and atom[2] == "NONE":
                    r.seen = not str(val).startswith("is None")
            if r.seen is False:
                r.prev_kinds = None
        rows.append(r)
    if not rows:
        raise Unmodelled("TagAttrDict.update: item loop produced no paths")
    return {"rows": rows, "inner_loop": stop_key, "fn": fn}


def normalize_value_table(prog: Program) -> Dict[str, Any]:
    """kind -> ('drop'|'empty'|'asis'|'str'|'raise'|other, detail) for TagAttrDict._normalize_attr_value."""
    I = Interp(prog)
    fn = prog.function(CORE, "TagAttrDict._normalize_attr_value")
    p = fn.args.args[0].arg
    out: Dict[str, Any] = {}
    for k in sorted(ANY_VALUE_KINDS):
        res = []

        def mk(run: Any, k: str = k) -> Tuple[Dict[str, Any], Any]:
            o = SObj("x", {k})
            run.__dict__["arg"] = o
            return ({p: o}, None)

        for l in I.run_function(CORE, "TagAttrDict._normalize_attr_value", mk, Config()):
            arg = l.run.__dict__["arg"]
            free = [a for a in l.atoms if not (isinstance(a[0], tuple) and a[0][0] in ("isinstance", "is", "kind", "kindgroup") and a[0][1] == arg.uid)]
            reads = [e for e in l.effects if e.kind in ("global_read", "nondet")]
            if l.kind == "raise":
                r = ("raise", l.value.cls_name if isinstance(l.value, SNew) else "?")
            else:
                v = l.value
                if v is None:
                    r = ("drop", None)
                elif v == "":
                    r = ("empty", None)
                elif v is arg:
                    r = ("asis", None)
                elif isinstance(v, SStr) and len(v.frags) == 1 and v.frags[0].kind == "OF" and v.frags[0].a[0] == arg.uid \
                        and v.frags[0].b in ("NUM", "PLAIN") and not v.frags[0].c:
                    r = ("str", None)
                elif isinstance(v, str):
                    r = ("const", v)
                else:
                    r = ("other", short(v))
            res.append((r, free, reads))
        out[k] = res
    decos = [ast.unparse(d) for d in fn.decorator_list]
    return {"table": out, "decorators": decos, "fn": fn}


def normalize_name_pipeline(prog: Program, mod: str = CORE, qual: str = "TagAttrDict._normalize_attr_name") -> Dict[str, Any]:
    """Paths of _normalize_attr_name as (conditions, operation chain on the argument)."""
    I = Interp(prog)
    fn = prog.function(mod, qual)
    p = fn.args.args[0].arg
    paths = []

    def mk(run: Any) -> Tuple[Dict[str, Any], Any]:
        o = SObj("x", {"STR"})
        run.__dict__["arg"] = o
        return ({p: o}, None)

    for l in I.run_function(mod, qual, mk, Config()):
        arg = l.run.__dict__["arg"]
        chain: List[Tuple[Any, ...]] = []
        ok = True
        cur = l.value if l.kind == "return" else None
        while True:
            if cur is arg:
                break
            if isinstance(cur, SStr) and len(cur.frags) == 1:
                f = cur.frags[0]
                if f.kind == "OF" and f.a[0] == arg.uid and not f.c:
                    break
                if f.kind == "OP" and isinstance(f.a, tuple) and f.a and str(f.a[0]).startswith("str."):
                    chain.append(tuple(f.a))
                    cur = f.b
                    continue
                if f.kind == "OP" and isinstance(f.a, tuple) and f.a and f.a[0] == "slice":
                    chain.append(tuple(f.a))
                    cur = f.b
                    continue
            ok = False
            break
        conds = []
        for atom, val in l.atoms:
            conds.append((atom, val))
        paths.append({"leaf": l, "chain": list(reversed(chain)), "ok": ok, "conds": conds, "kind": l.kind,
                      "value": l.value})
    return {"paths": paths, "fn": fn, "decorators": [ast.unparse(d) for d in fn.decorator_list]}


def helper_writes(prog: Program, method: str, arg_kinds: Dict[str, Any]) -> List[Dict[str, Any]]:
    """Run Tag.<method> with TagAttrDict methods opaque; report every write into self.attrs."""
    I = Interp(prog)
    fn = prog.function(CORE, f"Tag.{method}")
    cfg = Config()
    cfg.opaque = {"TagAttrDict.update", "TagAttrDict.__setitem__", "TagAttrDict.__init__"}
    out: List[Dict[str, Any]] = []

    def mk(run: Any) -> Tuple[Dict[str, Any], Any]:
        s = SObj("self", {"TAG"})
        binds: Dict[str, Any] = {fn.args.args[0].arg: s}
        for prm in fn.args.args[1:] + fn.args.kwonlyargs:
            if prm.arg in arg_kinds:
                kv = arg_kinds[prm.arg]
                binds[prm.arg] = SObj(prm.arg, kv) if isinstance(kv, (set, frozenset)) else kv
        run.__dict__["self_obj"] = s
        run.__dict__["args"] = binds
        return binds, s

    for l in I.run_function(CORE, f"Tag.{method}", mk, cfg):
        s = l.run.__dict__["self_obj"]
        attrs = s.attrs.get("attrs")
        writes = []
        for e in l.effects:
            if e.kind == "call" and getattr(e.target, "qual", "") in ("TagAttrDict.update", "TagAttrDict.__setitem__") and e.key is attrs:
                writes.append({"via": e.target.qual, "args": e.value, "kwargs": (e.extra or {}).get("kwargs", {}), "node": e.node})
            elif e.kind in ("mutcall", "store_item", "del_item") and e.target is attrs:
                writes.append({"via": f"dict.{e.key}" if e.kind == "mutcall" else e.kind, "args": e.value, "key": e.key, "node": e.node})
            elif e.kind == "store_attr" and e.target is s:
                writes.append({"via": "store_attr", "key": e.key, "args": e.value, "node": e.node})
        out.append({"leaf": l, "writes": writes, "self": s, "attrs": attrs, "args": l.run.__dict__["args"]})
    return out
